/-
Proofs/GenEqWMNew: `WaveletMatrix::start_offsets` and `WaveletMatrix::from(Vec<u64>)` (the body of
`macro_rules! wavelet_matrix_from` at `u64`) of wavelet_matrix.rs, as TRANSLATED statement by statement from the source
(Generated/FnsWMNew.lean), are equal to the hand-written model definitions `WM.startOffsets`, `WM.ofValues`.

* `wm_start_offsets_eq : gen_WaveletMatrix_start_offsets m cap iter len maxv =
      ok (WM.startOffsets (iter.map (·.toNat)) len maxv.toNat)`, for every `cap`, `len`, under
  - `hle : ∀ x ∈ iter, x ≤ maxv` (`counts[value as usize]` is a checked index; sharp: `wm_start_offsets_ne_item`),
  - `hn : (maxv.toNat + 1) * 64 + 63 < U64` (`max_value + 1` in `u64` — sharp with overflow checks on:
    `wm_start_offsets_ne_max` —, and the collected `IntVector` has `max_value + 1` items of 64 bits:
    `with_capacity` / `pack` round its bit length up to words),
  - `hlen : iter.length < U64` (the counters and the prefix sums are `usize`; they never exceed the number of items).
  NO hypothesis on `len`: `len as u64` and the model's `IntVec.ofList 64` reduce modulo 2^64 alike (`hcollect`).
* `wm_from_eq : gen_WaveletMatrix_from_u64 m cap source = ok (WM.ofValues (source.toList.map (·.toNat)))` under
  `source.size + 63 < U64` (`wm_core_from_eq`) and `hn` at the maximum of `source`; `hle` holds for the maximum
  (`c5_arr_max`, `foldl_max_ge_wm`).
  NO divergence between the code and the model was found.

Method: `for_loop_range` (GenEqLoop4) turns the three counter loops into `foldlM`s of the code's bodies.
1–2. the pushed alphabet is `wn_pairs n (fun _ => 0)`; the counting loop keeps the invariant "`counts` is
   `wn_pairs n` of the model's counter array" (`wn_counts_fold`; `Array.modify` against `setIfInBounds`,
   `wn_pairs_set`); every counter is at most the number of items read, so `+= 1` does not overflow.
3. sorting the pairs by `rev64 value` is the image of the model's `order` (`List.map_mergeSort`).
4. the `iter_mut()` loop is the list function `wn_scan` (`wn_prefix_fold`); the sums are bounded by the number of
   items (`wn_sum_counts`, through `counts_fold` and `List.Perm.sum_nat`).  The model's fold writes the same numbers
   into the array indexed by value (`wn_offs_scan`, for any duplicate-free visiting order).
5. sorting back by `value`: the keys are pairwise distinct, so the sorted list is the unique strictly sorted
   permutation (`wn_sorted_unique`, from `List.Perm.eq_of_pairwise`) — the result does not depend on the stability
   of the sort, which is what makes `sort_unstable_by_key` in the source harmless.  Injectivity of `rev64` is NOT
   needed: step 3 commutes with `map` for any key.
6–7. `collect()` is `int_from_iter_eq`, `pack()` is `int_pack_eq`.
-/
import Sds.Generated.FnsWMNew
import Sds.Proofs.GenFns
import Sds.Proofs.GenEqFromExt
import Sds.Proofs.GenEqConstr2
import Sds.Proofs.GenEqConstr5
import Sds.Proofs.GenEqLoop4
import Sds.Proofs.WM
import Sds.Proofs.IntVec

set_option linter.unusedVariables false

namespace Sds.GenEq
open Sds Outcome Generated

/-! ### vocabulary -/

theorem wn_obind_ok {α β : Type} (a : α) (f : α → Outcome β) : (ok a).bind f = f a := rfl

/-- a fold over the indices of a list that only reads the item is the fold over the items -/
theorem wn_foldlM_getD {σ α : Type} (f : σ → α → Outcome σ) (l : List α) (d : α) (s : σ) :
    (List.range l.length).foldlM (fun s i => f s (l.getD i d)) s = l.foldlM f s := by
  have hmap : ∀ (r : List Nat) (s : σ),
      (r.map (fun i => l.getD i d)).foldlM f s = r.foldlM (fun s i => f s (l.getD i d)) s := by
    intro r
    induction r with
    | nil => intro s; rfl
    | cons x t ih =>
      intro s
      rw [List.map_cons, List.foldlM_cons, List.foldlM_cons]
      simp only [Bind.bind]
      cases f s (l.getD x d) with
      | fault e => rfl
      | ok s' => exact ih s'
  have hl : (List.range l.length).map (fun i => l.getD i d) = l := by
    apply List.ext_getElem
    · simp
    · intro i h1 h2
      simp only [List.getElem_map, List.getElem_range, List.getD_eq_getElem?_getD]
      rw [List.getElem?_eq_getElem h2]
      rfl
  rw [← hmap, hl]

/-- the loop `for i in 0..n { a.push(g(i)) }` -/
theorem wn_foldl_push {α : Type} (g : Nat → α) (n : Nat) (a : Array α) :
    (List.range n).foldl (fun b i => b.push (g i)) a = a ++ ((List.range n).map g).toArray := by
  induction n with
  | zero => simp
  | succ n ih =>
    rw [List.range_succ, List.foldl_append, ih]
    simp

/-- the alphabet of the code: the pairs `(value, f value)` for `value < n`, in the order of the values -/
def wn_pairs (n : Nat) (f : Nat → Nat) : List (Word × Nat) :=
  (List.range n).map fun i => (BitVec.ofNat 64 i, f i)

theorem wn_pairs_length (n : Nat) (f : Nat → Nat) : (wn_pairs n f).length = n := by
  simp [wn_pairs]

/-! ### steps 1–2: the two counting loops -/

/-- the body of `for value in iter { counts[value as usize].1 += 1; }` on the value read -/
def wn_cntStep (m : Mode) (counts : Array (Word × Nat)) (value : Word) : Outcome (Array (Word × Nat)) :=
  (getWU counts value.toNat).bind fun t3 =>
    (addM m t3.2 1).bind fun t4 => ok (counts.setIfInBounds value.toNat (t3.1, t4))

theorem wn_pairs_getElem? (n : Nat) (f : Nat → Nat) (k : Nat) :
    (wn_pairs n f)[k]? = if k < n then some (BitVec.ofNat 64 k, f k) else none := by
  unfold wn_pairs
  by_cases hk : k < n
  · rw [List.getElem?_map, List.getElem?_range hk, if_pos hk]; rfl
  · rw [if_neg hk, List.getElem?_eq_none (by simpa using hk)]

/-- one increment: the pairs of the modified counter array -/
theorem wn_pairs_set (n : Nat) (a : Array Nat) (v : Nat) (hva : v < a.size) :
    (wn_pairs n (fun i => a[i]?.getD 0)).toArray.setIfInBounds v (BitVec.ofNat 64 v, a[v]?.getD 0 + 1) =
      (wn_pairs n (fun i => (a.modify v (· + 1))[i]?.getD 0)).toArray := by
  apply Array.ext_getElem?
  intro k
  rw [Array.getElem?_setIfInBounds]
  simp only [List.size_toArray, wn_pairs_length, List.getElem?_toArray, wn_pairs_getElem?, Array.getElem?_modify]
  by_cases hk : k < n
  · by_cases hv : v = k
    · subst hv
      simp only [hk, if_true, Array.getElem?_eq_getElem hva]
      rfl
    · simp only [hv, hk, if_true, if_false]
  · by_cases hv : v = k
    · subst hv; simp only [hk, if_true, if_false]
    · simp only [hv, hk, if_false]

/-- **the counting loop against the model's counters** (`Array.modify` on the array indexed by value) -/
theorem wn_counts_fold (m : Mode) (n : Nat) :
    ∀ (L : List Word) (a : Array Nat), a.size = n → (∀ x ∈ L, x.toNat < n) →
      (∀ i : Nat, a[i]?.getD 0 + L.length < U64) →
      L.foldlM (wn_cntStep m) (wn_pairs n (fun i => a[i]?.getD 0)).toArray =
        ok (wn_pairs n (fun i =>
          ((L.map (·.toNat)).foldl (fun a v => a.modify v (· + 1)) a)[i]?.getD 0)).toArray := by
  intro L
  induction L with
  | nil => intro a _ _ _; rfl
  | cons x t ih =>
    intro a ha hx hb
    have hxn : x.toNat < n := hx x List.mem_cons_self
    have hget : getWU (wn_pairs n (fun i => a[i]?.getD 0)).toArray x.toNat =
        ok (BitVec.ofNat 64 x.toNat, a[x.toNat]?.getD 0) := by
      unfold getWU
      rw [dif_pos (by simpa [wn_pairs_length] using hxn)]
      congr 1
      have := wn_pairs_getElem? n (fun i => a[i]?.getD 0) x.toNat
      rw [if_pos hxn, List.getElem?_eq_getElem (by simpa [wn_pairs_length] using hxn)] at this
      simpa using this
    have hadd : addM m (a[x.toNat]?.getD 0) 1 = ok (a[x.toNat]?.getD 0 + 1) :=
      addM_ok (by have := hb x.toNat; simp only [List.length_cons] at this; omega)
    rw [List.foldlM_cons]
    simp only [wn_cntStep, hget, wn_obind_ok, hadd, bind_ok]
    rw [wn_pairs_set _ _ _ (by omega), List.map_cons, List.foldl_cons]
    apply ih _ (by rw [Array.size_modify]; exact ha) (fun y hy => hx y (List.mem_cons_of_mem _ hy))
    intro i
    have := hb i
    simp only [List.length_cons] at this
    rw [Array.getElem?_modify]
    by_cases hi : x.toNat = i
    · subst hi
      by_cases hlt : x.toNat < a.size
      · simp only [if_true, Array.getElem?_eq_getElem hlt, Option.map_some, Option.getD_some] at this ⊢
        omega
      · omega
    · simp only [hi, if_false]; omega

/-! ### step 4: the prefix sums along the sorted order -/

/-- the `iter_mut()` loop as a function on the list of pairs: an absent value gets `len`, a present one the number
of items before it -/
def wn_scan (len : Nat) : List (Word × Nat) → Nat → List (Word × Nat)
  | [], _ => []
  | p :: t, cum =>
    if p.2 = 0 then (p.1, len) :: wn_scan len t cum else (p.1, cum) :: wn_scan len t (cum + p.2)

/-- one iteration of the `iter_mut()` loop written with an index; the state is `counts`, `cumulative` -/
def wn_preBody (m : Mode) (len : Nat) (s : Array (Word × Nat) × Nat) (i : Nat) :
    Outcome (Array (Word × Nat) × Nat) :=
  if (s.1.getD i ((0 : Word), 0)).2 = 0 then
    ok (s.1.setIfInBounds i ((s.1.getD i ((0 : Word), 0)).1, len), s.2)
  else
    (addM m s.2 (s.1.getD i ((0 : Word), 0)).2).bind fun t5 =>
      ok (s.1.setIfInBounds i ((s.1.getD i ((0 : Word), 0)).1, s.2), t5)

theorem wn_getD_mid {α : Type} (pre : List α) (p : α) (t : List α) (d : α) :
    (pre ++ p :: t).toArray.getD pre.length d = p := by
  simp [Array.getD]

theorem wn_set_mid {α : Type} (pre : List α) (p q : α) (t : List α) :
    (pre ++ p :: t).toArray.setIfInBounds pre.length q = ((pre ++ [q]) ++ t).toArray := by
  simp [Array.setIfInBounds]

/-- **the prefix-sum loop is `wn_scan`** (the sums are representable) -/
theorem wn_prefix_fold (m : Mode) (len : Nat) :
    ∀ (rest pre : List (Word × Nat)) (cum : Nat), cum + (rest.map (·.2)).sum < U64 →
      (List.range' pre.length rest.length).foldlM (wn_preBody m len) ((pre ++ rest).toArray, cum) =
        ok ((pre ++ wn_scan len rest cum).toArray, cum + (rest.map (·.2)).sum) := by
  intro rest
  induction rest with
  | nil => intro pre cum _; simp [wn_scan]
  | cons p t ih =>
    intro pre cum hb
    simp only [List.map_cons, List.sum_cons] at hb
    rw [List.length_cons, List.range'_succ, List.foldlM_cons]
    by_cases hc : p.2 = 0
    · have hstep : wn_preBody m len ((pre ++ p :: t).toArray, cum) pre.length =
          ok (((pre ++ [(p.1, len)]) ++ t).toArray, cum) := by
        simp only [wn_preBody, wn_getD_mid, hc, if_true, wn_set_mid]
      rw [hstep, bind_ok]
      have := ih (pre ++ [(p.1, len)]) cum (by omega)
      rw [List.length_append, List.length_singleton] at this
      rw [this]
      simp [wn_scan, hc]
    · have hadd : addM m cum p.2 = ok (cum + p.2) := addM_ok (by omega)
      have hstep : wn_preBody m len ((pre ++ p :: t).toArray, cum) pre.length =
          ok (((pre ++ [(p.1, cum)]) ++ t).toArray, cum + p.2) := by
        simp only [wn_preBody, wn_getD_mid, hc, if_false, wn_set_mid, hadd, wn_obind_ok]
      rw [hstep, bind_ok]
      have := ih (pre ++ [(p.1, cum)]) (cum + p.2) (by omega)
      rw [List.length_append, List.length_singleton] at this
      rw [this]
      simp [wn_scan, hc, Nat.add_assoc]

/-- … and the model's fold, which writes the same numbers into an array indexed by VALUE, along any duplicate-free
visiting order: read back along the order, the array holds the scan -/
theorem wn_offs_scan (cnt : Nat → Nat) (len : Nat) (w : Nat → Word) :
    ∀ (O : List Nat) (arr : Array Nat) (run : Nat), O.Nodup → (∀ u, u ∈ O → u < arr.size) →
      (O.foldl (offsStep cnt len) (arr, run)).1.size = arr.size ∧
      (∀ v, v ∉ O → (O.foldl (offsStep cnt len) (arr, run)).1[v]? = arr[v]?) ∧
      wn_scan len (O.map fun v => (w v, cnt v)) run =
        O.map (fun v => (w v, (O.foldl (offsStep cnt len) (arr, run)).1[v]?.getD 0)) := by
  intro O
  induction O with
  | nil => intro arr run _ _; exact ⟨rfl, fun _ _ => rfl, rfl⟩
  | cons u t ih =>
    intro arr run hnd hlt
    have hu : u < arr.size := hlt u List.mem_cons_self
    have hnd' := List.nodup_cons.mp hnd
    by_cases hc : cnt u = 0
    · have hr : (u :: t).foldl (offsStep cnt len) (arr, run) =
          t.foldl (offsStep cnt len) (arr.setIfInBounds u len, run) := by
        simp only [List.foldl_cons, offsStep, hc, if_true]
      obtain ⟨h1, h2, h3⟩ := ih (arr.setIfInBounds u len) run hnd'.2
        (fun x hx => by rw [Array.size_setIfInBounds]; exact hlt x (List.mem_cons_of_mem _ hx))
      rw [hr]
      rw [Array.size_setIfInBounds] at h1
      refine ⟨h1, fun v hv => ?_, ?_⟩
      · have hvu : u ≠ v := fun h => hv (h ▸ List.mem_cons_self)
        rw [h2 v (fun h => hv (List.mem_cons_of_mem _ h)), Array.getElem?_setIfInBounds, if_neg hvu]
      · rw [List.map_cons, List.map_cons, wn_scan]
        simp only [hc, if_true]
        rw [h3, h2 u hnd'.1, Array.getElem?_setIfInBounds, if_pos rfl, if_pos hu]
        rfl
    · have hr : (u :: t).foldl (offsStep cnt len) (arr, run) =
          t.foldl (offsStep cnt len) (arr.setIfInBounds u run, run + cnt u) := by
        simp only [List.foldl_cons, offsStep, hc, if_false]
      obtain ⟨h1, h2, h3⟩ := ih (arr.setIfInBounds u run) (run + cnt u) hnd'.2
        (fun x hx => by rw [Array.size_setIfInBounds]; exact hlt x (List.mem_cons_of_mem _ hx))
      rw [hr]
      rw [Array.size_setIfInBounds] at h1
      refine ⟨h1, fun v hv => ?_, ?_⟩
      · have hvu : u ≠ v := fun h => hv (h ▸ List.mem_cons_self)
        rw [h2 v (fun h => hv (List.mem_cons_of_mem _ h)), Array.getElem?_setIfInBounds, if_neg hvu]
      · rw [List.map_cons, List.map_cons, wn_scan]
        simp only [hc, if_false]
        rw [h3, h2 u hnd'.1, Array.getElem?_setIfInBounds, if_pos rfl, if_pos hu]
        rfl

/-! ### steps 3 and 5: the two sorts -/

/-- **a list sorted by a key is determined by its items when the keys are pairwise distinct**: sorting any
permutation of a strictly sorted list gives that list (so the result does not depend on the stability of the sort) -/
theorem wn_sorted_unique {α : Type} (key : α → Nat) (l s : List α) (hp : l.Perm s)
    (hs : s.Pairwise (fun a b => key a < key b)) :
    l.mergeSort (fun x y => decide (key x ≤ key y)) = s := by
  have hinj : ∀ a, a ∈ s → ∀ b, b ∈ s → key a = key b → a = b := by
    apply List.Pairwise.forall_of_forall_of_flip (R := fun a b => key a = key b → a = b)
    · intro x _ _; rfl
    · exact hs.imp (fun h e => by omega)
    · exact hs.imp (fun h e => by omega)
  have hsorted : (l.mergeSort (fun x y => decide (key x ≤ key y))).Pairwise
      (fun x y => decide (key x ≤ key y) = true) :=
    List.pairwise_mergeSort (le := fun x y => decide (key x ≤ key y))
      (fun a b c h1 h2 => by simp only [decide_eq_true_eq] at *; omega)
      (fun a b => by simp only [Bool.or_eq_true, decide_eq_true_eq]; omega) l
  have hperm : (l.mergeSort (fun x y => decide (key x ≤ key y))).Perm s := (List.mergeSort_perm _ _).trans hp
  apply List.Perm.eq_of_pairwise (le := fun x y => decide (key x ≤ key y) = true) _ hsorted _ hperm
  · intro a b ha hb h1 h2
    simp only [decide_eq_true_eq] at h1 h2
    exact hinj a (hperm.mem_iff.mp ha) b hb (by omega)
  · exact hs.imp (fun h => by simp only [decide_eq_true_eq]; omega)

/-! ### `start_offsets` -/

theorem wn_toList_range {α : Type} (a : Array α) (n : Nat) (h : a.size = n) (d : α) :
    a.toList = (List.range n).map (fun v => a[v]?.getD d) := by
  apply List.ext_getElem
  · simp [h]
  · intro i h1 h2
    have hi : i < a.size := by simpa using h1
    simp only [List.getElem_map, List.getElem_range, Array.getElem_toList, Array.getElem?_eq_getElem hi]
    rfl

/-- the counters of the model over the whole alphabet add up to at most the number of items -/
theorem wn_sum_counts (V : List Nat) (n : Nat) :
    ((List.range n).map (fun u => V.count u)).sum ≤ V.length := by
  have := sum_count_filter_range (fun _ => true) V n
  rw [List.filter_eq_self.mpr (fun _ _ => rfl)] at this
  rw [this]
  exact List.countP_le_length

theorem wm_start_offsets_eq (m : Mode) (cap : Nat) (iter : List Word) (len : Nat) (maxv : Word)
    (hle : ∀ x, x ∈ iter → x ≤ maxv) (hn : (maxv.toNat + 1) * 64 + 63 < U64) (hlen : iter.length < U64) :
    gen_WaveletMatrix_start_offsets m cap iter len maxv =
      ok (WM.startOffsets (iter.map (·.toNat)) len maxv.toNat) := by
  have hU : U64 = 2 ^ 64 := U64_eq
  have h0 : ((0 : Word)).toNat = 0 := rfl
  have h1w : ((1 : Word)).toNat = 1 := rfl
  have hadd : addW m maxv (1 : Word) = ok (BitVec.ofNat 64 (maxv.toNat + 1)) := by
    unfold addW
    rw [h1w, addM_ok (by omega)]
    rfl
  rw [startOffsets_eq]
  unfold startOffsetsRaw gen_WaveletMatrix_start_offsets
  simp only [Bind.bind, hadd, wn_obind_ok, h0]
  rw [for_loop_range (ρ := IntVec) (maxv.toNat + 1)
      (fun (c : Array (Word × Nat)) i => ok (c.push (BitVec.ofNat 64 i, 0))) _
      (fun i s hi => by simp only [hi, decide_true, if_true]; rfl)
      (fun i s hi => by simp only [hi, decide_false, Bool.false_eq_true, if_false]; rfl),
    c5_foldlM_ok, wn_foldl_push]
  simp only [wn_obind_ok]
  -- step 2
  have hitems : ∀ x, x ∈ iter → x.toNat < maxv.toNat + 1 := fun x hx => by
    have := hle x hx; rw [BitVec.le_def] at this; omega
  rw [for_loop_range (ρ := IntVec) iter.length
      (fun (c : Array (Word × Nat)) i => wn_cntStep m c (iter.getD i 0)) _
      (fun i s hi => by
        simp only [hi, decide_true, if_true, wn_cntStep]
        cases getWU s (iter.getD i 0).toNat with
        | fault e => rfl
        | ok t3 =>
          simp only [wn_obind_ok]
          cases addM m t3.2 1 <;> rfl)
      (fun i s hi => by simp only [hi, decide_false, Bool.false_eq_true, if_false]; rfl),
    wn_foldlM_getD (wn_cntStep m) iter 0]
  have hc0 : (#[] : Array (Word × Nat)) ++
      (List.map (fun i => (BitVec.ofNat 64 i, 0)) (List.range (maxv.toNat + 1))).toArray =
      (wn_pairs (maxv.toNat + 1) (fun i => (Array.replicate (maxv.toNat + 1) 0)[i]?.getD 0)).toArray := by
    rw [Array.empty_append]
    congr 1
    apply List.map_congr_left
    intro i hi
    show _ = (_, (Array.replicate (maxv.toNat + 1) 0)[i]?.getD 0)
    rw [Array.getElem?_replicate, if_pos (List.mem_range.mp hi)]
    rfl
  rw [hc0, wn_counts_fold m (maxv.toNat + 1) iter _ Array.size_replicate hitems
    (fun i => by
      rw [Array.getElem?_replicate]
      by_cases hi : i < maxv.toNat + 1
      · rw [if_pos hi]; simpa using hlen
      · rw [if_neg hi]; simpa using hlen)]
  simp only [wn_obind_ok]
  -- step 3
  generalize hcnt : (fun i : Nat => ((iter.map (·.toNat)).foldl (fun a v => a.modify v (· + 1))
    (Array.replicate (maxv.toNat + 1) 0))[i]?.getD 0) = cnt
  generalize hord : (List.range (maxv.toNat + 1)).mergeSort (fun a b => rev64 a ≤ rev64 b) = order
  have hsort1 : sortByKeyWU (wn_pairs (maxv.toNat + 1) cnt).toArray (fun x_ => (BitVec.reverse x_.fst).toNat) =
      (order.map (fun v => (BitVec.ofNat 64 v, cnt v))).toArray := by
    unfold sortByKeyWU wn_pairs
    rw [← hord]
    congr 1
    symm
    apply List.map_mergeSort
    intro a _ b _
    rfl
  rw [hsort1]
  generalize hP : order.map (fun v => (BitVec.ofNat 64 v, cnt v)) = P
  simp only [List.size_toArray]
  rw [for_loop_range (ρ := IntVec) P.length (wn_preBody m len) _
      (fun i s hi => by
        obtain ⟨c, cum⟩ := s
        simp only [hi, decide_true, if_true, wn_preBody, Array.getD]
        by_cases hz : (if h : i < c.size then c.getInternal i h else ((0 : Word), 0)).snd = 0
        · simp only [hz, decide_true, if_true]; rfl
        · simp only [hz, decide_false, Bool.false_eq_true, if_false]
          cases addM m cum (if h : i < c.size then c.getInternal i h else ((0 : Word), 0)).snd <;> rfl)
      (fun i s hi => by simp only [hi, decide_false, Bool.false_eq_true, if_false]; rfl)]
  -- step 4
  have hperm : order.Perm (List.range (maxv.toNat + 1)) := hord ▸ List.mergeSort_perm _ _
  have hmem : ∀ u, u ∈ order ↔ u < maxv.toNat + 1 := fun u => by rw [hperm.mem_iff, List.mem_range]
  have hnd : order.Nodup := hperm.nodup_iff.mpr List.nodup_range
  have hcntv : ∀ u, u < maxv.toNat + 1 → cnt u = (iter.map (·.toNat)).count u := by
    intro u hu
    have := (counts_fold (iter.map (·.toNat)) (Array.replicate (maxv.toNat + 1) 0) u (by simpa using hu)).2
    rw [← hcnt]
    simp only [this, Array.getElem?_replicate, hu, if_true, Option.getD_some, Nat.zero_add]
  have hsum : (P.map (·.2)).sum ≤ iter.length := by
    rw [← hP, List.map_map]
    show (order.map cnt).sum ≤ _
    rw [(hperm.map cnt).sum_nat,
      List.map_congr_left (g := fun u => (iter.map (·.toNat)).count u)
        (fun u hu => hcntv u (List.mem_range.mp hu))]
    have := wn_sum_counts (iter.map (·.toNat)) (maxv.toNat + 1)
    rwa [List.length_map] at this
  have hpre := wn_prefix_fold m len P [] 0 (by rw [Nat.zero_add]; exact Nat.lt_of_le_of_lt hsum hlen)
  simp only [List.nil_append, List.length_nil, Nat.zero_add] at hpre
  rw [List.range_eq_range', hpre]
  simp only [wn_obind_ok]
  -- the model's fold; step 5
  obtain ⟨hsz, _, hscan⟩ := wn_offs_scan cnt len (BitVec.ofNat 64) order (Array.replicate (maxv.toNat + 1) 0) 0 hnd
    (fun u hu => by rw [Array.size_replicate]; exact (hmem u).mp hu)
  rw [Array.size_replicate] at hsz
  generalize hoffs : (order.foldl (offsStep cnt len) (Array.replicate (maxv.toNat + 1) 0, 0)).1 = offs at hsz hscan
  rw [hP] at hscan
  have hsort2 : sortByKeyWU (order.map (fun v => (BitVec.ofNat 64 v, offs[v]?.getD 0))).toArray
        (fun x_ => BitVec.toNat x_.fst) =
      ((List.range (maxv.toNat + 1)).map (fun v => (BitVec.ofNat 64 v, offs[v]?.getD 0))).toArray := by
    unfold sortByKeyWU
    congr 1
    apply wn_sorted_unique (fun x_ : Word × Nat => BitVec.toNat x_.fst) _ _ (hperm.map _)
    rw [List.pairwise_map]
    apply List.pairwise_lt_range.imp_of_mem
    intro a b ha hb hab
    have ha' := List.mem_range.mp ha
    have hb' := List.mem_range.mp hb
    show (BitVec.ofNat 64 a).toNat < (BitVec.ofNat 64 b).toNat
    rw [BitVec.toNat_ofNat, BitVec.toNat_ofNat, Nat.mod_eq_of_lt (by omega), Nat.mod_eq_of_lt (by omega)]
    exact hab
  rw [hscan, hsort2, List.toList_toArray, List.map_map,
    int_from_iter_eq m cap _ (by rw [List.length_map, List.length_range]; exact hn)]
  simp only [wn_obind_ok]
  -- steps 6 and 7
  have hcollect : IntVec.ofList 64
      (List.map (fun x => BitVec.toNat x)
        (List.map ((fun x_ : Word × Nat => BitVec.ofNat 64 x_.snd) ∘ fun v => (BitVec.ofNat 64 v, offs[v]?.getD 0))
          (List.range (maxv.toNat + 1)))) = IntVec.ofList 64 offs.toList := by
    unfold IntVec.ofList
    rw [wn_toList_range offs _ hsz 0, List.map_map, List.map_map, List.map_map]
    congr 1
    apply List.map_congr_left
    intro v _
    simp only [Function.comp_apply, BitVec.ofNat_toNat, BitVec.setWidth_eq]
  rw [hcollect]
  obtain ⟨owf, owidth, oitems⟩ := IntVec.ofList_spec 64 offs.toList (by decide) (by decide)
  have olen : (IntVec.ofList 64 offs.toList).len = maxv.toNat + 1 := by
    rw [← IntVec.items_length, oitems, List.length_map, Array.length_toList, hsz]
  rw [int_pack_eq m _ owf (by rw [olen, owidth]; exact hn)]
  rfl

/-! ### `WaveletMatrix::from(Vec<u64>)` -/

theorem wm_from_eq (m : Mode) (cap : Nat) (source : Array Word) (hb : source.size + 63 < U64)
    (hn : ((source.toList.map (·.toNat)).foldl max 0 + 1) * 64 + 63 < U64) :
    gen_WaveletMatrix_from_u64 m cap source = ok (WM.ofValues (source.toList.map (·.toNat))) := by
  have hU : U64 = 2 ^ 64 := U64_eq
  have hlt : (source.toList.map (·.toNat)).foldl max 0 < 2 ^ 64 :=
    foldl_max_lt_wm _ 0 _ (Nat.two_pow_pos 64) (fun v hv => by
      obtain ⟨x, _, rfl⟩ := List.mem_map.mp hv
      exact x.isLt)
  have hmax : ((arrMaxW source).getD (0 : Word)).toNat = (source.toList.map (·.toNat)).foldl max 0 := by
    rw [c5_arr_max, BitVec.toNat_ofNat, Nat.mod_eq_of_lt hlt]
  unfold gen_WaveletMatrix_from_u64
  simp only [Bind.bind, List.map_id']
  rw [wm_start_offsets_eq m cap source.toList source.size _
      (fun x hx => by
        rw [BitVec.le_def, hmax]
        exact (foldl_max_ge_wm (source.toList.map (·.toNat)) 0).2 _ (List.mem_map_of_mem hx))
      (by rw [hmax]; exact hn) (by rw [Array.length_toList]; omega),
    wn_obind_ok, wm_core_from_eq m source hb, wn_obind_ok, hmax]
  unfold WM.ofValues
  rw [List.length_map, Array.length_toList]
  rfl

/-! ### the hypotheses are needed; the theorems are not vacuous -/

/-- `hle` is needed: an item above `max_value` indexes `counts` out of range (`counts[value as usize]`, index panic);
the model's `Array.modify` does nothing there.  Not reachable through `WaveletMatrix::from`, which passes the
maximum of the items. -/
theorem wm_start_offsets_ne_item :
    gen_WaveletMatrix_start_offsets .checked 0 [1] 1 0 = fault (.panic .index) ∧
    gen_WaveletMatrix_start_offsets .wrapping 0 [1] 1 0 = fault (.panic .index) ∧
    (WM.startOffsets [1] 1 0).items = [1] := by decide +kernel

/-- `max_value + 1` is computed in `u64` (`0..=max_value` materialised as `max_value + 1` pairs): with overflow checks
on, `max_value = u64::MAX` panics at once -/
theorem wm_start_offsets_ne_max :
    gen_WaveletMatrix_start_offsets .checked 0 [] 0 (BitVec.ofNat 64 (2 ^ 64 - 1)) = fault (.panic .overflow) := by
  decide +kernel

/-- evaluation of both sides on alphabets of one value (`List.mergeSort` is defined by well-founded recursion; the
kernel evaluates it on one item only) -/
theorem wm_from_examples :
    gen_WaveletMatrix_from_u64 .checked 0 #[] = ok (WM.ofValues []) ∧
    gen_WaveletMatrix_from_u64 .wrapping 3 #[0, 0] = ok (WM.ofValues [0, 0]) ∧
    (WM.ofValues [0, 0]).first.items = [0] ∧
    gen_WaveletMatrix_start_offsets .checked 5 [] 9 0 = ok (WM.startOffsets [] 9 0) ∧
    (WM.startOffsets [] 9 0).items = [9] := by decide +kernel

/-- the visiting order over the alphabet `0..=4`, by `wn_sorted_unique` -/
theorem wn_order5 :
    (List.range (4 + 1)).mergeSort (fun a b => decide (rev64 a ≤ rev64 b)) = [0, 4, 2, 1, 3] :=
  wn_sorted_unique rev64 _ _ (by decide) (by decide +kernel)

/-- the example of the documentation of `wavelet_matrix` (7 values of width 3): the hypotheses of `wm_from_eq` hold,
and `first` is the vector of start offsets in the bit-reversed order `0, 4, 2, 1, 3` -/
theorem wm_from_example_doc :
    gen_WaveletMatrix_from_u64 .checked 0 #[1, 0, 3, 1, 1, 2, 4] = ok (WM.ofValues [1, 0, 3, 1, 1, 2, 4]) ∧
    (WM.ofValues [1, 0, 3, 1, 1, 2, 4]).first.items = [0, 3, 2, 6, 1] := by
  refine ⟨wm_from_eq _ _ _ (by decide) (by decide +kernel), ?_⟩
  show (WM.startOffsets [1, 0, 3, 1, 1, 2, 4] 7 4).items = _
  rw [startOffsets_eq]
  unfold startOffsetsRaw
  rw [wn_order5]
  decide +kernel

end Sds.GenEq
