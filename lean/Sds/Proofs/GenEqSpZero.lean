/-
Proofs/GenEqSpZero: the translated `find_zero_run`, `select_zero`, `zero_iter`, `select_zero_iter` and `ZeroIter`
(`Generated/FnsSpZero.lean`, from `sparse_vector.rs`) compute the hand-written model (`Sparse.findZeroRun`, `selectZero`,
`zeroIter`, `selectZeroIter`, `SpZeroIter.nextRun`, `nextQ`, `remaining`).

Order of effects, compared side by side (a fault of the inner `OneIter::next` propagates at the same place on both sides):

* `find_zero_run`, binary search: code `high - low` (twice), `/ 2`, `low + …`, `select_iter`, `next`, `unwrap`,
  `mid_pos - mid`, then `mid + 1` (twice); model the same, with `high - low`, `low + (high - low) / 2`, `mid + 1` in `Nat`.
  Invariant `low ≤ high ≤ count_ones` and `count_ones = low.len < 2^64` (`hL`) make them agree.
* `find_zero_run`, scan: `next`, `mid_pos - mid` (mode arithmetic on both sides), `mid + 1` — `mid` is a rank returned by
  `next`, hence `< low.len` (`combine` asserted it), so `hL` is enough.
* `select_zero`, `select_zero_iter`: `run_rank + rank` with the mode's arithmetic on both sides; `count_zeros` never faults.
* `next_run`: `one_pos + 1` (mode arithmetic on both sides) *before* the call of `next`, on both sides.
* `ZeroIter::next`: the two final increments are in `Nat` in the model: `h1`, `h2`, `h3` of `sp_zero_next_eq'`.

All statements hold under `hH`, `hL` (the hypotheses of `sp_iter_next_eq`) plus, for `ZeroIter::next`, "the fields of
the iterator are `usize`"; no divergence between the code and the model was found.  The extra hypotheses are necessary
(`sp_zero_next_ne_rank`, `sp_zero_next_ne_pos`, `sp_zero_next_ne_limit`, `sp_zero_size_hint_ne`, all by `decide`); the
witnesses are states with a field `= 2^64`, which the code cannot represent.
-/
import Sds.Generated.FnsSpZero
import Sds.Proofs.GenEqSpIter
import Sds.Proofs.GenEqLoop
set_option linter.unusedSimpArgs false
set_option linter.unusedVariables false

namespace Sds.GenEq
open Sds Outcome Generated

/-! ### facts about the model's `next` of the one-iterator -/

/-- a successful `combine` returns the rank it was given and a position that is a `usize` -/
theorem combine_ok_fst {m : Mode} {s : Sparse} {p : Pos} {r : Nat × Nat} (h : s.combine m p = ok r) :
    r.1 = p.low ∧ r.2 < U64 := by
  unfold Sparse.combine at h
  cases hh : (if s.width < 64 then do let d ← subM m p.high p.low; pure ((d <<< s.width) % U64) else pure 0 :
      Outcome Nat) with
  | fault f => rw [hh] at h; cases h
  | ok v =>
    rw [hh] at h
    cases hg : s.low.get p.low with
    | fault f => rw [hg] at h; cases h
    | ok l =>
      rw [hg] at h
      simp only [bind_ok] at h
      cases ha : addM m v l.toNat with
      | fault f => rw [ha] at h; cases h
      | ok w =>
        rw [ha] at h
        simp only [bind_ok, pure_eq] at h
        cases h
        exact ⟨rfl, addM_lt ha⟩

/-- an item returned by the model's `next`: its rank is below `low.len`, its position is a `usize` -/
theorem nextQ_some_lt {m : Mode} {s : Sparse} {it it' : SpOneIter} {a b : Nat}
    (h : SpOneIter.nextQ m s it = ok (some (a, b), it')) : a < s.low.len ∧ b < U64 := by
  unfold SpOneIter.nextQ at h
  by_cases hc : it.next.low ≥ it.limit.low
  · rw [if_pos hc] at h; cases h
  · rw [if_neg hc] at h
    cases hk : SpOneIter.skipFwd s (s.high.len + 1) it.next.high with
    | fault f => rw [hk] at h; cases h
    | ok h' =>
      rw [hk] at h
      simp only [bind_ok] at h
      cases hcb : s.combine m ⟨h', it.next.low⟩ with
      | fault f => rw [hcb] at h; cases h
      | ok r =>
        rw [hcb] at h
        simp only [bind_ok, pure_eq] at h
        have h1 := combine_ok_fst hcb
        have h2 := combine_ok_lt hcb
        cases h
        simp only at h1 h2
        exact ⟨by omega, h1.2⟩

/-! ### `find_zero_run` -/

abbrev FzrSt := Nat × Nat × (Nat × SpOneIter)

/-- the body of the binary-search loop of `find_zero_run` -/
def stepFzrSearch (m : Mode) (s : Sparse) (rank : Nat) : FzrSt → Outcome (Ctl FzrSt (Nat × SpOneIter)) :=
  fun (high, low, result) => do
      let t2 ← subM m high low
      if (decide (t2 > 16)) then do
        let t3 ← subM m high low
        let t4 ← gDiv t3 2
        let t5 ← addM m low t4
        let mid := t5
        let t6 ← gen_SparseVector_select_iter m s mid
        let iter := t6
        let t7 ← gen_SparseOneIter_next m s iter
        let iter := t7.2
        let t8 ← unwrapM t7.1
        let (_, mid_pos) := t8
        let t9 ← subM m mid_pos mid
        let (high, low, result) ← (if (decide (t9 ≤ rank)) then do
            let t10 ← addM m mid 1
            let result := (t10, iter)
            let t11 ← addM m mid 1
            let low := t11
            pure (high, low, result)
          else do
            let high := mid
            pure (high, low, result))
        pure (Ctl.next (high, low, result))
      else do
        pure (Ctl.brk (high, low, result))

/-- the body of the linear scan of `find_zero_run` -/
def stepFzrScan (m : Mode) (s : Sparse) (rank : Nat) :
    (SpOneIter × (Nat × SpOneIter)) → Outcome (Ctl (SpOneIter × (Nat × SpOneIter)) (Nat × SpOneIter)) :=
  fun (iter, result) => do
        let t12 ← gen_SparseOneIter_next m s iter
        let iter := t12.2
        match t12.1 with
        | none => pure (Ctl.brk (iter, result))
        | some some1 => do
            let (mid, mid_pos) := some1
            let t13 ← subM m mid_pos mid
            if (!(decide (t13 ≤ rank))) then do
              pure (Ctl.brk (iter, result))
            else do
              let t14 ← addM m mid 1
              let result := (t14, iter)
              pure (Ctl.next (iter, result))

def finFzrSearch : Ctl FzrSt (Nat × SpOneIter) → Outcome (Nat × SpOneIter)
  | .brk (_, _, result) => ok result
  | _ => fault .fuel

def finFzrScan : Ctl (SpOneIter × (Nat × SpOneIter)) (Nat × SpOneIter) → Outcome (Nat × SpOneIter)
  | .brk (_, result) => ok result
  | _ => fault .fuel

theorem gen_fzr_unfold (m : Mode) (s : Sparse) (rank : Nat) :
    gen_SparseVector_find_zero_run m s rank = (do
      let t1 ← gen_SparseVector_one_iter m s
      let r ← loopM 70 (stepFzrSearch m s rank) (Sparse.countOnes s, 0, (0, t1)) >>= finFzrSearch
      loopM (Sparse.countOnes s + 2) (stepFzrScan m s rank) (r.2, r) >>= finFzrScan) := by
  unfold gen_SparseVector_find_zero_run
  rw [sp_one_iter_eq]
  simp only [bind_ok]
  show (loopM 70 (stepFzrSearch m s rank) (Sparse.countOnes s, 0, (0, SpOneIter.full s)) >>= _) = _
  cases loopM 70 (stepFzrSearch m s rank) (Sparse.countOnes s, 0, (0, SpOneIter.full s)) with
  | fault f => rfl
  | ok c =>
    cases c with
    | ret r => rfl
    | next st => rfl
    | brk st =>
      obtain ⟨high, low, result⟩ := st
      simp only [bind_ok, finFzrSearch]
      show (loopM (Sparse.countOnes s + 2) (stepFzrScan m s rank) (result.2, result) >>= _) = _
      cases loopM (Sparse.countOnes s + 2) (stepFzrScan m s rank) (result.2, result) with
      | fault f => rfl
      | ok c =>
        cases c with
        | ret r => rfl
        | next st => rfl
        | brk st => obtain ⟨it, r⟩ := st; rfl

theorem loop_fzr_search (m : Mode) (s : Sparse) (rank : Nat)
    (hH : s.high.data.data.size * 64 < U64) (hL : s.low.len < U64) :
    ∀ (fuel high low : Nat) (result : Nat × SpOneIter), low ≤ high → high < U64 →
      (loopM fuel (stepFzrSearch m s rank) (high, low, result) >>= finFzrSearch) =
        s.fzrSearch m rank fuel low high result := by
  intro fuel
  induction fuel with
  | zero => intro high low result _ _; rfl
  | succ n ih =>
    intro high low result hlo hhi
    rw [loopM, Sparse.fzrSearch]
    have e1 : subM m high low = ok (high - low) := subM_ok hlo
    by_cases hc : high - low > 16
    · have e2 : gDiv (high - low) 2 = ok ((high - low) / 2) := rfl
      have e3 : addM m low ((high - low) / 2) = ok (low + (high - low) / 2) := addM_ok (by omega)
      simp only [stepFzrSearch, e1, e2, e3, hc, decide_true, if_true, bind_ok, sp_select_iter_eq,
        sp_iter_next_eq m s _ hH hL]
      cases hsel : s.selectIter m (low + (high - low) / 2) with
      | fault f => rfl
      | ok it0 =>
        simp only [bind_ok]
        cases hq : SpOneIter.nextQ m s it0 with
        | fault f => rfl
        | ok r =>
          obtain ⟨o, it'⟩ := r
          simp only [bind_ok]
          cases o with
          | none => rfl
          | some ab =>
            obtain ⟨a, b⟩ := ab
            simp only [unwrapM, bind_ok]
            cases hd : subM m b (low + (high - low) / 2) with
            | fault f => rfl
            | ok d =>
              simp only [bind_ok]
              by_cases hr : d ≤ rank
              · have e4 : addM m (low + (high - low) / 2) 1 = ok (low + (high - low) / 2 + 1) :=
                  addM_ok (by omega)
                simp only [hr, decide_true, if_true, e4, bind_ok, pure_eq]
                exact ih _ _ _ (by omega) hhi
              · simp only [hr, decide_false, Bool.false_eq_true, if_false, bind_ok, pure_eq]
                exact ih _ _ _ (by omega) (by omega)
    · simp only [stepFzrSearch, e1, hc, decide_false, Bool.false_eq_true, if_false, bind_ok, pure_eq]
      rfl

theorem loop_fzr_scan (m : Mode) (s : Sparse) (rank : Nat)
    (hH : s.high.data.data.size * 64 < U64) (hL : s.low.len < U64) :
    ∀ (fuel : Nat) (it : SpOneIter) (result : Nat × SpOneIter),
      (loopM fuel (stepFzrScan m s rank) (it, result) >>= finFzrScan) = s.fzrScan m rank fuel it result := by
  intro fuel
  induction fuel with
  | zero => intro it result; rfl
  | succ n ih =>
    intro it result
    rw [loopM, Sparse.fzrScan]
    simp only [stepFzrScan, sp_iter_next_eq m s _ hH hL]
    cases hq : SpOneIter.nextQ m s it with
    | fault f => rfl
    | ok r =>
      obtain ⟨o, it'⟩ := r
      simp only [bind_ok]
      cases o with
      | none => rfl
      | some ab =>
        obtain ⟨a, b⟩ := ab
        simp only [bind_ok]
        cases hd : subM m b a with
        | fault f => rfl
        | ok d =>
          simp only [bind_ok]
          by_cases hr : d ≤ rank
          · have hlt := (nextQ_some_lt hq).1
            have e4 : addM m a 1 = ok (a + 1) := addM_ok (by omega)
            simp only [hr, decide_true, Bool.not_true, Bool.false_eq_true, if_false, if_true, e4, bind_ok, pure_eq]
            exact ih _ _
          · simp only [hr, decide_false, Bool.not_false, Bool.false_eq_true, if_false, if_true, bind_ok, pure_eq]
            rfl

/-- `find_zero_run` -/
theorem sp_find_zero_run_eq (m : Mode) (s : Sparse) (rank : Nat)
    (hH : s.high.data.data.size * 64 < U64) (hL : s.low.len < U64) :
    gen_SparseVector_find_zero_run m s rank = s.findZeroRun m rank := by
  rw [gen_fzr_unfold, sp_one_iter_eq]
  unfold Sparse.findZeroRun
  simp only [bind_ok]
  have hL' : s.countOnes < U64 := hL
  rw [loop_fzr_search m s rank hH hL 70 s.countOnes 0 _ (Nat.zero_le _) hL']
  cases s.fzrSearch m rank 70 0 s.countOnes (0, SpOneIter.full s) with
  | fault f => rfl
  | ok r => simp only [bind_ok]; exact loop_fzr_scan m s rank hH hL _ _ _

/-! ### `select_zero`, `zero_iter`, `select_zero_iter` -/

/-- `select_zero` -/
theorem sp_select_zero_eq (m : Mode) (s : Sparse) (rank : Nat)
    (hH : s.high.data.data.size * 64 < U64) (hL : s.low.len < U64) :
    gen_SparseVector_select_zero m s rank = s.selectZero m rank := by
  unfold gen_SparseVector_select_zero Sparse.selectZero
  rw [sparse_count_zeros_eq, sp_find_zero_run_eq m s rank hH hL]
  simp only [bind_ok]
  by_cases h : rank ≥ s.countZeros
  · simp only [h, decide_true, if_true]; rfl
  · simp only [h, decide_false, Bool.false_eq_true, if_false]

/-- `zero_iter` -/
theorem sp_zero_iter_eq (m : Mode) (s : Sparse)
    (hH : s.high.data.data.size * 64 < U64) (hL : s.low.len < U64) :
    gen_SparseVector_zero_iter m s = s.zeroIter m := by
  unfold gen_SparseVector_zero_iter Sparse.zeroIter
  rw [sp_one_iter_eq]
  simp only [bind_ok, sp_iter_next_eq m s _ hH hL, sparse_count_zeros_eq]
  cases SpOneIter.nextQ m s (SpOneIter.full s) with
  | fault f => rfl
  | ok r =>
    obtain ⟨o, it⟩ := r
    cases o with
    | none => rfl
    | some ab => obtain ⟨a, b⟩ := ab; rfl

/-- `select_zero_iter` -/
theorem sp_select_zero_iter_eq (m : Mode) (s : Sparse) (rank : Nat)
    (hH : s.high.data.data.size * 64 < U64) (hL : s.low.len < U64) :
    gen_SparseVector_select_zero_iter m s rank = s.selectZeroIter m rank := by
  unfold gen_SparseVector_select_zero_iter Sparse.selectZeroIter
  rw [sp_find_zero_run_eq m s rank hH hL]
  simp only [bind_ok, sp_iter_next_eq m s _ hH hL, sparse_count_zeros_eq]
  by_cases h : rank ≥ s.countZeros
  · simp only [h, decide_true, if_true]; rfl
  · simp only [h, decide_false, Bool.false_eq_true, if_false]
    cases s.findZeroRun m rank with
    | fault f => rfl
    | ok r =>
      obtain ⟨rr, it⟩ := r
      simp only [bind_ok]
      cases SpOneIter.nextQ m s it with
      | fault f => rfl
      | ok r =>
        obtain ⟨o, it'⟩ := r
        cases o with
        | none =>
          simp only [bind_ok, pure_eq]
        | some ab =>
          obtain ⟨a, b⟩ := ab
          simp only [bind_ok, pure_eq]

/-! ### `ZeroIter::next_run` -/

abbrev NrSt := SpOneIter × (Nat × Nat) × Nat

/-- the body of the loop of `next_run` -/
def stepNextRun (m : Mode) (s : Sparse) (self_limit : Nat × Nat) : NrSt → Outcome (Ctl NrSt SpZeroIter) :=
  fun (self_iter, self_next, self_one_pos) => do
      if (decide (self_next.2 ≥ self_one_pos)) then do
        let t1 ← addM m self_one_pos 1
        let self_next := (self_next.1, t1)
        let t2 ← gen_SparseOneIter_next m s self_iter
        let self_iter := t2.2
        let t3 ← (match t2.1 with
          | some some1 => do
              let (_, pos) := some1
              pure pos
          | none => do
              pure self_limit.2)
        let self_one_pos := t3
        pure (Ctl.next (self_iter, self_next, self_one_pos))
      else do
        pure (Ctl.brk (self_iter, self_next, self_one_pos))

def finNextRun (self_limit : Nat × Nat) : Ctl NrSt SpZeroIter → Outcome SpZeroIter
  | .brk (self_iter, self_next, self_one_pos) => ok ⟨self_iter, self_one_pos, self_next, self_limit⟩
  | _ => fault .fuel

theorem gen_next_run_unfold (m : Mode) (s : Sparse) (z : SpZeroIter) :
    gen_SparseZeroIter_next_run m s z =
      (loopM (Sparse.countOnes s + 2) (stepNextRun m s z.limit) (z.iter, z.next, z.onePos) >>= finNextRun z.limit) := by
  unfold gen_SparseZeroIter_next_run
  show (loopM (Sparse.countOnes s + 2) (stepNextRun m s z.limit) (z.iter, z.next, z.onePos) >>= _) = _
  cases loopM (Sparse.countOnes s + 2) (stepNextRun m s z.limit) (z.iter, z.next, z.onePos) with
  | fault f => rfl
  | ok c =>
    cases c with
    | ret r => rfl
    | next st => rfl
    | brk st => obtain ⟨a, b, c⟩ := st; rfl

theorem loop_next_run (m : Mode) (s : Sparse)
    (hH : s.high.data.data.size * 64 < U64) (hL : s.low.len < U64) :
    ∀ (fuel : Nat) (z : SpZeroIter),
      (loopM fuel (stepNextRun m s z.limit) (z.iter, z.next, z.onePos) >>= finNextRun z.limit) =
        SpZeroIter.nextRun m s fuel z := by
  intro fuel
  induction fuel with
  | zero => intro z; rfl
  | succ n ih =>
    intro z
    rw [loopM, SpZeroIter.nextRun]
    by_cases hc : z.next.2 ≥ z.onePos
    · simp only [stepNextRun, hc, decide_true, if_true, sp_iter_next_eq m s _ hH hL]
      cases ha : addM m z.onePos 1 with
      | fault f => rfl
      | ok n1 =>
        simp only [bind_ok]
        cases hq : SpOneIter.nextQ m s z.iter with
        | fault f => rfl
        | ok r =>
          obtain ⟨o, it'⟩ := r
          cases o with
          | none =>
            simp only [bind_ok, pure_eq]
            exact ih { z with next := (z.next.1, n1), onePos := z.limit.2, iter := it' }
          | some ab =>
            obtain ⟨a, b⟩ := ab
            simp only [bind_ok, pure_eq]
            exact ih { z with next := (z.next.1, n1), onePos := b, iter := it' }
    · simp only [stepNextRun, hc, decide_false, Bool.false_eq_true, if_false, bind_ok, pure_eq]
      rfl

/-- `ZeroIter::next_run` (the model with the fuel of the code) -/
theorem sp_zero_next_run_eq (m : Mode) (s : Sparse) (z : SpZeroIter)
    (hH : s.high.data.data.size * 64 < U64) (hL : s.low.len < U64) :
    gen_SparseZeroIter_next_run m s z = SpZeroIter.nextRun m s (s.countOnes + 2) z := by
  rw [gen_next_run_unfold]
  exact loop_next_run m s hH hL _ z

/-! ### `ZeroIter::next` -/

/-- after `next_run`: the rank is unchanged, and the position stands strictly below the next one (`onePos`), which is
a position returned by the one-iterator (a `usize`), `limit.2`, or the initial `onePos` -/
theorem nextRun_ok_bounds (m : Mode) (s : Sparse) :
    ∀ (fuel : Nat) (z z' : SpZeroIter), z.limit.2 < U64 → (z.next.2 < z.onePos → z.next.2 + 1 < U64) →
      SpZeroIter.nextRun m s fuel z = ok z' → z'.next.1 = z.next.1 ∧ z'.limit = z.limit ∧ z'.next.2 + 1 < U64 := by
  intro fuel
  induction fuel with
  | zero => intro z z' _ _ e; cases e
  | succ n ih =>
    intro z z' h3 h2 e
    rw [SpZeroIter.nextRun] at e
    by_cases hc : z.next.2 ≥ z.onePos
    · rw [if_pos hc] at e
      cases ha : addM m z.onePos 1 with
      | fault f => rw [ha] at e; cases e
      | ok n1 =>
        rw [ha] at e
        simp only [bind_ok] at e
        cases hq : SpOneIter.nextQ m s z.iter with
        | fault f => rw [hq] at e; cases e
        | ok r =>
          obtain ⟨o, it'⟩ := r
          rw [hq] at e
          cases o with
          | none =>
            simp only [bind_ok] at e
            exact ih { z with next := (z.next.1, n1), onePos := z.limit.2, iter := it' } z' h3
              (fun hlt => by simp only at hlt ⊢; omega) e
          | some ab =>
            obtain ⟨a, b⟩ := ab
            simp only [bind_ok] at e
            have hb := (nextQ_some_lt hq).2
            exact ih { z with next := (z.next.1, n1), onePos := b, iter := it' } z' h3
              (fun hlt => by simp only at hlt ⊢; omega) e
    · rw [if_neg hc] at e
      cases e
      exact ⟨rfl, rfl, h2 (by omega)⟩

/-- `ZeroIter::next`, weakest form: the two increments of the model are in `Nat`, those of the code on `usize`.
`h1`: the rank; `h2`, `h3`: the position — after `next_run` it is strictly below `onePos`, which is the initial one
(`h2`), a position returned by the one-iterator (always a `usize`) or `limit.2` (`h3`). -/
theorem sp_zero_next_eq' (m : Mode) (s : Sparse) (z : SpZeroIter)
    (hH : s.high.data.data.size * 64 < U64) (hL : s.low.len < U64)
    (h1 : z.next.1 < z.limit.1 → z.next.1 + 1 < U64)
    (h2 : z.next.2 < z.onePos → z.next.2 + 1 < U64)
    (h3 : z.limit.2 < U64) :
    gen_SparseZeroIter_next m s z = SpZeroIter.nextQ m s z := by
  unfold gen_SparseZeroIter_next SpZeroIter.nextQ
  by_cases h : z.next.1 ≥ z.limit.1
  · simp only [h, decide_true, if_true]; rfl
  · simp only [h, decide_false, Bool.false_eq_true, if_false]
    have hz : (⟨z.iter, z.onePos, z.next, z.limit⟩ : SpZeroIter) = z := rfl
    rw [hz, sp_zero_next_run_eq m s z hH hL]
    cases hr : SpZeroIter.nextRun m s (s.countOnes + 2) z with
    | fault f => rfl
    | ok z' =>
      obtain ⟨b1, b2, b3⟩ := nextRun_ok_bounds m s _ z z' h3 h2 hr
      have e1 : addM m z'.next.1 1 = ok (z'.next.1 + 1) := addM_ok (by rw [b1]; exact h1 (by omega))
      have e2 : addM m z'.next.2 1 = ok (z'.next.2 + 1) := addM_ok b3
      simp only [bind_ok, pure_eq, e1, e2]

/-- `ZeroIter::next` with the fields of the iterator in `usize` -/
theorem sp_zero_next_eq (m : Mode) (s : Sparse) (z : SpZeroIter)
    (hH : s.high.data.data.size * 64 < U64) (hL : s.low.len < U64)
    (h1 : z.limit.1 < U64) (h2 : z.onePos < U64) (h3 : z.limit.2 < U64) :
    gen_SparseZeroIter_next m s z = SpZeroIter.nextQ m s z :=
  sp_zero_next_eq' m s z hH hL (fun _ => by omega) (fun _ => by omega) h3

/-- `ZeroIter::next` for an iterator made by `zero_iter` / `select_zero_iter` (`limit = (count_zeros, len)`,
`onePos ≤ len`) on a vector whose length is a `usize` -/
theorem sp_zero_next_eq_of_len (m : Mode) (s : Sparse) (z : SpZeroIter)
    (hH : s.high.data.data.size * 64 < U64) (hL : s.low.len < U64) (hlen : s.len < U64)
    (hlim : z.limit = (s.countZeros, s.len)) (hpos : z.onePos ≤ s.len) :
    gen_SparseZeroIter_next m s z = SpZeroIter.nextQ m s z := by
  have hcz : s.countZeros ≤ s.len := by unfold Sparse.countZeros; split <;> omega
  refine sp_zero_next_eq m s z hH hL ?_ (by omega) ?_ <;> rw [hlim] <;> simp only <;> omega

/-- `ZeroIter::size_hint` under the invariant `next.0 ≤ limit.0` -/
theorem sp_zero_size_hint_eq (m : Mode) (s : Sparse) (z : SpZeroIter) (h : z.next.1 ≤ z.limit.1) :
    gen_SparseZeroIter_size_hint m s z = ok (z.remaining, some z.remaining) := by
  unfold gen_SparseZeroIter_size_hint SpZeroIter.remaining
  rw [subM_ok h]; rfl

/-! ### the extra hypotheses of `next` / `size_hint` are necessary

All witnesses have a field `≥ 2^64 - 1` next to one `= 2^64`: no such state exists in the code (the fields are `usize`),
so none of them is a divergence between the code and the model. -/

/-- the empty vector (`hH`, `hL` hold) -/
def cexZ : Sparse := ⟨0, ⟨0, ⟨0, #[]⟩, none, none, none⟩, ⟨0, 1, ⟨0, #[]⟩⟩⟩

/-- `h1`: rank `2^64 - 1` below a limit `2^64` — the code's `next.0 + 1` overflows, the model's does not -/
theorem sp_zero_next_ne_rank :
    cexZ.high.data.data.size * 64 < U64 ∧ cexZ.low.len < U64 ∧
    gen_SparseZeroIter_next .checked cexZ ⟨SpOneIter.emptyIter cexZ, 5, (U64 - 1, 0), (U64, 10)⟩
      = fault (.panic .overflow) ∧
    gen_SparseZeroIter_next .wrapping cexZ ⟨SpOneIter.emptyIter cexZ, 5, (U64 - 1, 0), (U64, 10)⟩
      = ok (some (U64 - 1, 0), ⟨SpOneIter.emptyIter cexZ, 5, (0, 1), (U64, 10)⟩) ∧
    SpZeroIter.nextQ .checked cexZ ⟨SpOneIter.emptyIter cexZ, 5, (U64 - 1, 0), (U64, 10)⟩
      = ok (some (U64 - 1, 0), ⟨SpOneIter.emptyIter cexZ, 5, (U64, 1), (U64, 10)⟩) := by
  decide

/-- `h2`: position `2^64 - 1` below `onePos = 2^64` -/
theorem sp_zero_next_ne_pos :
    gen_SparseZeroIter_next .checked cexZ ⟨SpOneIter.emptyIter cexZ, U64, (0, U64 - 1), (1, 10)⟩
      = fault (.panic .overflow) ∧
    SpZeroIter.nextQ .checked cexZ ⟨SpOneIter.emptyIter cexZ, U64, (0, U64 - 1), (1, 10)⟩
      = ok (some (0, U64 - 1), ⟨SpOneIter.emptyIter cexZ, U64, (1, U64), (1, 10)⟩) := by
  decide

/-- `h3`: `limit.2 = 2^64`; `next_run` moves past the one at `2^64 - 2`, the one-iterator is exhausted, `onePos`
becomes `limit.2` and the position `2^64 - 1` is returned -/
theorem sp_zero_next_ne_limit :
    gen_SparseZeroIter_next .checked cexZ ⟨SpOneIter.emptyIter cexZ, U64 - 2, (0, U64 - 2), (1, U64)⟩
      = fault (.panic .overflow) ∧
    SpZeroIter.nextQ .checked cexZ ⟨SpOneIter.emptyIter cexZ, U64 - 2, (0, U64 - 2), (1, U64)⟩
      = ok (some (0, U64 - 1), ⟨SpOneIter.emptyIter cexZ, U64, (1, U64), (1, U64)⟩) := by
  decide

/-- without `next.0 ≤ limit.0` the subtraction of `size_hint` panics (wraps) -/
theorem sp_zero_size_hint_ne :
    gen_SparseZeroIter_size_hint .checked cexZ ⟨SpOneIter.emptyIter cexZ, 0, (1, 0), (0, 0)⟩
      = fault (.panic .overflow) ∧
    gen_SparseZeroIter_size_hint .wrapping cexZ ⟨SpOneIter.emptyIter cexZ, 0, (1, 0), (0, 0)⟩
      = ok (U64 - 1, some (U64 - 1)) ∧
    (⟨SpOneIter.emptyIter cexZ, 0, (1, 0), (0, 0)⟩ : SpZeroIter).remaining = 0 := by
  decide

end Sds.GenEq
