/-
Proofs/GenEqConstr4: the remaining constructors of raw_vector.rs / int_vector.rs / rl_vector.rs, as TRANSLATED statement
by statement from the source (Generated/FnsConstr4.lean), are equal to the hand-written model definitions.

* `raw_with_capacity_eq : gen_RawVector_with_capacity m cap = ok RawVec.empty` under `cap + 63 < U64`
  (`bits_to_words(capacity)`; exact form `raw_with_capacity_eq'`: the function IS that addition followed by the empty
  vector; sharp: `raw_with_capacity_ne`; without overflow checks it always succeeds: `raw_with_capacity_wrapping`).
* `int_with_capacity_eq : gen_IntVector_with_capacity m cap width = IntVec.withCapacity cap width` under
  `cap * width + 63 < U64` (`int_with_capacity_eq'`: only needed for an accepted width).  The model ignores the
  capacity; the code computes `capacity * width` and its rounding to words in `usize` (`int_with_capacity_ne`).
* `rlb_encode_eq : gen_RLBuilder_encode m b value = ok { b with data := RLBuilder.encode b.data value }` under
  `value < U64`, `b.data.WF`, width 4 and `(b.data.len + 22) * 4 + 63 < U64` (22 = the longest code).
  `rlb_encode_eq_of`: any width, the bound on the units actually pushed.  `enc_loop`: the `while value > CODE_MASK`
  pushes all units of the model's `encodeUnits` but the last and leaves the last one in `value`.  The fuel 23 of both
  sides is never exhausted (`value < 2^64 < 8^23`).  Sharp: `rlb_encode_ne_value`.
* `rlb_default_eq`, `rlb_new_eq : … = ok ({} : RLBuilder)` (by `rfl`).
* `rl_from_builder_eq : gen_RLVector_from_builder m b = RL.ofBuilder m b` under representation bounds only
  (`b.len < U64`, `b.ones < U64`, `128 * b.samples.size + 191 < U64`, and the `FlushBounds` of a pending run).
  Corollaries `rl_from_builder_eq_of_inv` (`RLBuilder.Inv` + the bound on the samples) and
  `rl_from_builder_eq_of_dinv` (`Inv`, `DInv`, `b.data.data.len < U64`).  `rl_from_builder_core` is the part after
  the flush, for any flushed builder.
  NO hypothesis on the samples (`ones ≤ bits`), none on `b.ones ≤ b.len`: the code evaluates the mapped iterator
  `bits - ones` BEFORE `count_zeros`, the model AFTER, but both can only fault by the arithmetic-overflow panic
  (`subM_ovf`, `mapM_ovf`), so the two orders have the same outcome in both modes (`rl_from_builder_examples` has a
  case where the two sides fault at different statements, with the same panic).  The three `SampleIndex::new` agree on
  every list (`sample_index_new_eq`).  `IntVec.withCapacity` ignores the capacity; the code's `2 * blocks`,
  `capacity * width`, `bits_to_words` are covered by the bound on the number of samples, as is every `push`.
  Sharpness of `hlen`, `hones`: `rl_from_builder_ne_len`, `rl_from_builder_ne_ones`; of the flush bounds:
  `rlb_flush_ne_ones`, `rlb_flush_ne_end`, `rlb_flush_ne_data` (GenEqBuild).
  NO divergence between the code and the model was found on representable inputs.

Method: `from_builder_pieces` (by `rfl`) cuts the translated function into `gen_RLBuilder_flush` and `fbRest` (the
three iterators `fbBits`, `fbOnes`, `fbZs`, the indexes, `fbFinish`); `for_loop_range` (GenEqLoop4) turns the
`for (ones, bits) in samples.iter()` loop into `foldlM fbBody`, `fb_fold` into the model's `foldl`.
-/
import Sds.Generated.FnsConstr4
import Sds.Proofs.GenFns
import Sds.Proofs.GenEqBits
import Sds.Proofs.GenEqVec
import Sds.Proofs.GenEqVec2
import Sds.Proofs.GenEqBuild
import Sds.Proofs.GenEqConstr
import Sds.Proofs.GenEqLoop4
import Sds.Proofs.IntVec
import Sds.Proofs.RL

set_option linter.unusedVariables false

namespace Sds.GenEq
open Sds Outcome Generated

private theorem obind_ok4 {α β : Type} (a : α) (f : α → Outcome β) : (ok a).bind f = f a := rfl

private theorem loopM_succ4 {σ ρ : Type} (n : Nat) (step : σ → Outcome (Ctl σ ρ)) (s : σ) :
    loopM (n + 1) step s = (step s).bind (fun c => match c with | .next s' => loopM n step s' | r => ok r) := rfl

/-! ### `RawVector::with_capacity`, `IntVector::with_capacity` -/

/-- the capacity only goes through `bits_to_words` (`capacity + 63` in `usize`): the function is that addition
followed by the empty vector -/
theorem raw_with_capacity_eq' (m : Mode) (cap : Nat) :
    gen_RawVector_with_capacity m cap = (addM m cap 63).bind (fun _ => ok RawVec.empty) := by
  unfold gen_RawVector_with_capacity gen_bits_to_words
  cases addM m cap 63 <;> rfl

theorem raw_with_capacity_eq (m : Mode) (cap : Nat) (h : cap + 63 < U64) :
    gen_RawVector_with_capacity m cap = ok RawVec.empty := by
  rw [raw_with_capacity_eq', addM_ok h]; rfl

/-- without overflow checks the sum wraps and the constructor always succeeds -/
theorem raw_with_capacity_wrapping (cap : Nat) : gen_RawVector_with_capacity .wrapping cap = ok RawVec.empty := by
  rw [raw_with_capacity_eq']
  unfold addM
  by_cases h : cap + 63 < U64
  · rw [if_pos h]; rfl
  · rw [if_neg h]; rfl

/-- `IntVector::with_capacity`, weakest form: the bound is only needed for an accepted width -/
theorem int_with_capacity_eq' (m : Mode) (cap width : Nat)
    (h : 1 ≤ width → width ≤ 64 → cap * width + 63 < U64) :
    gen_IntVector_with_capacity m cap width = IntVec.withCapacity cap width := by
  unfold gen_IntVector_with_capacity IntVec.withCapacity IntVec.new
  by_cases hw : width = 0 ∨ width > 64
  · rw [if_pos hw, if_pos (by simpa using hw)]
  · have hb := h (by omega) (by omega)
    rw [if_neg hw, if_neg (by simpa using hw)]
    simp only [mulM_ok (show cap * width < U64 by omega), raw_with_capacity_eq m _ hb, bind_ok, pure_eq]

theorem int_with_capacity_eq (m : Mode) (cap width : Nat) (h : cap * width + 63 < U64) :
    gen_IntVector_with_capacity m cap width = IntVec.withCapacity cap width :=
  int_with_capacity_eq' m cap width (fun _ _ => h)

/-! ### `RLBuilder::encode` -/

theorem or8_lt : ∀ r, r < 8 → r ||| 8 = r + 8 := by decide

theorem enc_unit (v : Nat) :
    ((BitVec.ofNat 64 v &&& (7 : Word)) ||| (8 : Word)) = BitVec.ofNat 64 (v % 8 + 8) := by
  apply BitVec.eq_of_toNat_eq
  have h7 : (7 : Word).toNat = 2 ^ 3 - 1 := rfl
  have h8 : (8 : Word).toNat = 8 := rfl
  rw [BitVec.toNat_or, BitVec.toNat_and, h7, h8, Nat.and_two_pow_sub_one_eq_mod, BitVec.toNat_ofNat,
    BitVec.toNat_ofNat, or8_lt _ (Nat.mod_lt _ (by decide))]
  omega

theorem enc_shift (v : Nat) (hv : v < 2 ^ 64) : BitVec.ofNat 64 v >>> 3 = BitVec.ofNat 64 (v / 8) := by
  apply BitVec.eq_of_toNat_eq
  rw [BitVec.toNat_ushiftRight, BitVec.toNat_ofNat, BitVec.toNat_ofNat, Nat.shiftRight_eq_div_pow,
    Nat.mod_eq_of_lt hv, Nat.mod_eq_of_lt (by omega)]

theorem enc_gt (v : Nat) (hv : v < 2 ^ 64) : (BitVec.ofNat 64 v > (7 : Word)) ↔ v > 7 := by
  show (7 : Word) < BitVec.ofNat 64 v ↔ _
  rw [BitVec.lt_def, BitVec.toNat_ofNat, Nat.mod_eq_of_lt hv]
  exact Iff.rfl

/-- the body of `while value > CODE_MASK` (copied from `gen_RLBuilder_encode`) -/
def encStep (m : Mode) : IntVec × Word → Outcome (Ctl (IntVec × Word) RLBuilder) :=
  fun (self_data, value) => do
    if (decide (value > (7 : Word))) then do
      let self_data ← gen_IntVector_push m self_data ((value &&& (7 : Word)) ||| (8 : Word))
      let t1 ← shrW m value 3
      let value := t1
      pure (Ctl.next (self_data, value))
    else do
      pure (Ctl.brk (self_data, value))

/-- the `while` loop pushes all the units of the model's code but the last, and leaves the last one in `value` -/
theorem enc_loop (m : Mode) : ∀ (n : Nat) (d : IntVec) (v : Nat), v < 8 ^ (n + 1) → v < 2 ^ 64 → d.WF →
    (d.len + (RLBuilder.encodeUnits (n + 1) v).length) * d.width + 63 < U64 →
    ∃ d' v', loopM (n + 1) (encStep m) (d, BitVec.ofNat 64 v) = ok (Ctl.brk (d', BitVec.ofNat 64 v')) ∧
      d'.WF ∧ (d'.len + 1) * d'.width + 63 < U64 ∧
      d'.push (BitVec.ofNat 64 v') = d.extend ((RLBuilder.encodeUnits (n + 1) v).map (BitVec.ofNat 64)) := by
  intro n
  induction n with
  | zero =>
    intro d v h8 hv hwf hb
    have h7 : ¬ v > 7 := by omega
    refine ⟨d, v, ?_, hwf, ?_, ?_⟩
    · rw [loopM_succ4]
      simp only [encStep, (enc_gt v hv), h7, decide_false, Bool.false_eq_true, if_false]
      rfl
    · simp only [RLBuilder.encodeUnits, if_neg h7, List.length_cons, List.length_nil] at hb
      exact hb
    · simp only [RLBuilder.encodeUnits, if_neg h7]; rfl
  | succ n ih =>
    intro d v h8 hv hwf hb
    by_cases h7 : v > 7
    · have hu : RLBuilder.encodeUnits (n + 1 + 1) v = (v % 8 + 8) :: RLBuilder.encodeUnits (n + 1) (v / 8) := by
        rw [RLBuilder.encodeUnits, if_pos h7]
      rw [hu, List.length_cons] at hb
      have hmul : (d.len + 1) * d.width ≤ (d.len + ((RLBuilder.encodeUnits (n + 1) (v / 8)).length + 1)) * d.width :=
        Nat.mul_le_mul_right _ (by omega)
      have hp := int_push_eq m d (BitVec.ofNat 64 (v % 8 + 8)) hwf (by omega)
      obtain ⟨d', v', e, wf', hb', he⟩ := ih (d.push (BitVec.ofNat 64 (v % 8 + 8))) (v / 8)
        (by rw [Nat.pow_succ] at h8; omega) (by omega) (IntVec.push_WF hwf _)
        (by rw [IntVec.len_push, IntVec.width_push]
            rw [show d.len + 1 + (RLBuilder.encodeUnits (n + 1) (v / 8)).length =
              d.len + ((RLBuilder.encodeUnits (n + 1) (v / 8)).length + 1) by omega]
            exact hb)
      refine ⟨d', v', ?_, wf', hb', ?_⟩
      · rw [loopM_succ4]
        simp only [encStep, (enc_gt v hv), h7, decide_true, if_true, enc_unit, hp, bind_ok,
          shrW_ok m _ (show 3 < 64 by decide), enc_shift v hv, pure_eq, obind_ok4]
        exact e
      · rw [he, hu]; rfl
    · refine ⟨d, v, ?_, hwf, ?_, ?_⟩
      · rw [loopM_succ4]
        simp only [encStep, (enc_gt v hv), h7, decide_false, Bool.false_eq_true, if_false]
        rfl
      · simp only [RLBuilder.encodeUnits, if_neg h7, List.length_cons, List.length_nil] at hb
        exact hb
      · simp only [RLBuilder.encodeUnits, if_neg h7]; rfl

/-- `encode`, general form: the bound is on the number of units actually pushed -/
theorem rlb_encode_eq_of (m : Mode) (b : RLBuilder) (value : Nat) (hv : value < U64) (hwf : b.data.WF)
    (hb : (b.data.len + (RLBuilder.encodeUnits 23 value).length) * b.data.width + 63 < U64) :
    gen_RLBuilder_encode m b value = ok { b with data := RLBuilder.encode b.data value } := by
  rw [U64_eq] at hv
  obtain ⟨d', v', e, wf', hb', he⟩ := enc_loop m 22 b.data value (RLBuilder.lt_8_pow_23 hv) hv hwf hb
  unfold gen_RLBuilder_encode
  show (loopM (22 + 1) (encStep m) (b.data, BitVec.ofNat 64 value) >>= _) = _
  rw [e, bind_ok]
  show (gen_IntVector_push m d' (BitVec.ofNat 64 v') >>= _) = _
  rw [int_push_eq m d' _ wf' hb', bind_ok, he]
  rfl


/-- `encode` of a `usize` value into a well-formed width-4 code vector with room for the longest code (22 units) -/
theorem rlb_encode_eq (m : Mode) (b : RLBuilder) (value : Nat) (hv : value < U64) (hwf : b.data.WF)
    (hw : b.data.width = 4) (hb : (b.data.len + 22) * 4 + 63 < U64) :
    gen_RLBuilder_encode m b value = ok { b with data := RLBuilder.encode b.data value } := by
  apply rlb_encode_eq_of m b value hv hwf
  have h1 := RLBuilder.codeLen_le value
  rw [RLBuilder.encodeUnits_length value (by rw [← U64_eq]; exact hv), hw]
  omega

/-! ### `RLBuilder::default`, `RLBuilder::new` -/

theorem rlb_default_eq (m : Mode) : gen_RLBuilder_default m = ok ({} : RLBuilder) := rfl

theorem rlb_new_eq (m : Mode) : gen_RLBuilder_new m = ok ({} : RLBuilder) := rfl

/-! ### `impl From<RLBuilder> for RLVector` : the translated function, cut into named pieces -/

/-- `builder.samples.iter().map(|(_, bits)| *bits)` -/
def fbBits (builder : RLBuilder) : Outcome (List Nat) :=
  (builder.samples).toList.mapM (fun x_ => do let (_, bits) := x_; pure bits)

/-- `builder.samples.iter().map(|(ones, _)| *ones)` -/
def fbOnes (builder : RLBuilder) : Outcome (List Nat) :=
  (builder.samples).toList.mapM (fun x_ => do let (ones, _) := x_; pure ones)

/-- `builder.samples.iter().map(|(ones, bits)| bits - ones)` -/
def fbZs (m : Mode) (builder : RLBuilder) : Outcome (List Nat) :=
  (builder.samples).toList.mapM (fun x_ => do let (ones, bits) := x_; let t6 ← subM m bits ones; pure t6)

/-- the compressed samples and the final value -/
def fbFinish (m : Mode) (builder : RLBuilder) (rank_index select_index select_zero_index : SampleIndex) :
    Outcome RL := do
  let max_value := (((builder.samples.back?)).getD (0, 0)).2
  let t10 ← mulM m 2 (builder.samples.size)
  let t11 ← gen_bit_len m (BitVec.ofNat 64 max_value)
  let t12 ← unwrapRes (gen_IntVector_with_capacity m t10 t11)
  let samples := t12
  let for_lo1 := 0
  let for_hi1 := builder.samples.size
  let lr1 ← loopM (ρ := RL) (for_hi1 - for_lo1 + 1) (fun (for_i1, samples) => do
      if (decide (for_i1 < for_hi1)) then do
        let (ones, bits) := (builder.samples.getD for_i1 (0, 0))
        let t13 ← gen_IntVector_push m samples (BitVec.ofNat 64 ones)
        let samples := t13
        let t14 ← gen_IntVector_push m samples (BitVec.ofNat 64 bits)
        let samples := t14
        pure (Ctl.next (for_i1 + 1, samples))
      else do
        pure (Ctl.brk (for_i1, samples))) (for_lo1, samples)
  match lr1 with
  | .ret _ => fault .fuel
  | .next _ => fault .fuel
  | .brk (for_i1, samples) => do
    return (⟨(builder.len), (builder.ones), rank_index, select_index, select_zero_index, samples, builder.data⟩ : RL)

/-- everything after `builder.flush()` -/
def fbRest (m : Mode) (builder : RLBuilder) : Outcome RL := do
  let t2 ← fbBits builder
  let t3 ← gen_SampleIndex_new m t2 (builder.len)
  let t4 ← fbOnes builder
  let t5 ← gen_SampleIndex_new m t4 (builder.ones)
  let t7 ← fbZs m builder
  let t8 ← gen_RLBuilder_count_zeros m builder
  let t9 ← gen_SampleIndex_new m t7 t8
  fbFinish m builder t3 t5 t9

/-- the pieces put together are the translated function -/
theorem from_builder_pieces (m : Mode) (b : RLBuilder) :
    gen_RLVector_from_builder m b = (gen_RLBuilder_flush m b).bind (fbRest m) := rfl

/-! ### the iterators -/

/-- faults only by the arithmetic-overflow panic -/
def OvfOnly {α : Type} (x : Outcome α) : Prop := ∀ e, x = fault e → e = .panic .overflow

theorem subM_ovf (m : Mode) (a b : Nat) : OvfOnly (subM m a b) := by
  intro e h
  unfold subM at h
  by_cases hb : b ≤ a
  · rw [if_pos hb] at h; cases h
  · rw [if_neg hb] at h
    cases m with
    | checked => cases h; rfl
    | wrapping => cases h

private theorem mapM_loop_ok4 {α β : Type} (f : α → Outcome β) (g : α → β) (h : ∀ p, f p = ok (g p)) :
    ∀ (l : List α) (acc : List β), List.mapM.loop f l acc = ok (acc.reverse ++ l.map g) := by
  intro l
  induction l with
  | nil => intro acc; simp [List.mapM.loop]
  | cons a t ih =>
    intro acc
    rw [List.mapM.loop, h a]
    simp only [bind_ok]
    rw [ih]
    simp

theorem mapM_ok4 {α β : Type} (f : α → Outcome β) (g : α → β) (l : List α) (h : ∀ p, f p = ok (g p)) :
    l.mapM f = ok (l.map g) := by
  rw [List.mapM, mapM_loop_ok4 f g h l []]; simp

/-- a `map` whose closure can only overflow: the list of all items (one per input), or the overflow panic -/
private theorem mapM_loop_ovf {α β : Type} (f : α → Outcome β) (h : ∀ p, OvfOnly (f p)) :
    ∀ (l : List α) (acc : List β), OvfOnly (List.mapM.loop f l acc) ∧
      ∀ zs, List.mapM.loop f l acc = ok zs → zs.length = acc.length + l.length := by
  intro l
  induction l with
  | nil =>
    intro acc
    refine ⟨fun e he => ?_, fun zs hz => ?_⟩
    · simp [List.mapM.loop] at he
    · simp only [List.mapM.loop, pure_eq] at hz
      injection hz with hz
      rw [← hz]; simp
  | cons a t ih =>
    intro acc
    rw [List.mapM.loop]
    cases hf : f a with
    | fault e0 =>
      refine ⟨fun e he => ?_, fun zs hz => ?_⟩
      · rw [bind_fault] at he; injection he with he; rw [← he]; exact h a e0 hf
      · rw [bind_fault] at hz; cases hz
    | ok y =>
      rw [bind_ok]
      refine ⟨(ih (y :: acc)).1, fun zs hz => ?_⟩
      rw [(ih (y :: acc)).2 zs hz]
      simp only [List.length_cons]; omega

theorem mapM_ovf {α β : Type} (f : α → Outcome β) (h : ∀ p, OvfOnly (f p)) (l : List α) :
    OvfOnly (l.mapM f) ∧ ∀ zs, l.mapM f = ok zs → zs.length = l.length := by
  have := mapM_loop_ovf f h l []
  rw [List.mapM]
  refine ⟨this.1, fun zs hz => ?_⟩
  rw [this.2 zs hz]; simp

theorem fb_bits_eq (b : RLBuilder) : fbBits b = ok (b.samples.toList.map (·.2)) :=
  mapM_ok4 _ _ _ (fun p => by cases p; rfl)

theorem fb_ones_eq (b : RLBuilder) : fbOnes b = ok (b.samples.toList.map (·.1)) :=
  mapM_ok4 _ _ _ (fun p => by cases p; rfl)

theorem fb_zs_eq (m : Mode) (b : RLBuilder) : fbZs m b = b.samples.toList.mapM (fun p => subM m p.2 p.1) := by
  have hfun : (fun (x_ : Nat × Nat) =>
      (do let (ones, bits) := x_; let t6 ← subM m bits ones; pure t6 : Outcome Nat)) =
      (fun p => subM m p.2 p.1) := by
    funext p
    obtain ⟨ones, bits⟩ := p
    rfl
  exact congrArg (fun f => b.samples.toList.mapM f) hfun

/-! ### the compressed samples -/

/-- `match builder.samples.last() { Some(v) => v.1, None => 0 }` on the list of samples -/
def fbMax (l : List (Nat × Nat)) : Nat := match l.getLast? with | some p => p.2 | none => 0

theorem fb_max_eq (a : Array (Nat × Nat)) : ((a.back?).getD (0, 0)).2 = fbMax a.toList := by
  obtain ⟨l⟩ := a
  unfold fbMax
  rw [List.back?_toArray]
  cases l.getLast? <;> rfl

/-- one iteration of `for (ones, bits) in builder.samples.iter()` -/
def fbBody (m : Mode) (a : Array (Nat × Nat)) (s : IntVec) (i : Nat) : Outcome IntVec :=
  (gen_IntVector_push m s (BitVec.ofNat 64 (a.getD i (0, 0)).1)).bind fun s1 =>
    gen_IntVector_push m s1 (BitVec.ofNat 64 (a.getD i (0, 0)).2)

def fbPush (s : IntVec) (p : Nat × Nat) : IntVec := (s.push (BitVec.ofNat 64 p.1)).push (BitVec.ofNat 64 p.2)

theorem fb_fold (m : Mode) (a : Array (Nat × Nat)) (s0 : IntVec) (hwf : s0.WF)
    (hb : (s0.len + 2 * a.size) * s0.width + 63 < U64) :
    ∀ n, n ≤ a.size →
      (List.range n).foldlM (fbBody m a) s0 = ok ((a.toList.take n).foldl fbPush s0) ∧
      ((a.toList.take n).foldl fbPush s0).WF ∧ ((a.toList.take n).foldl fbPush s0).width = s0.width ∧
      ((a.toList.take n).foldl fbPush s0).len = s0.len + 2 * n := by
  intro n
  induction n with
  | zero => intro _; exact ⟨rfl, hwf, rfl, rfl⟩
  | succ n ih =>
    intro hn
    obtain ⟨e, wf, hw, hl⟩ := ih (by omega)
    have hlt : n < a.toList.length := by rw [Array.length_toList]; omega
    have hget : a.getD n (0, 0) = a.toList[n] := by
      rw [Array.getD_eq_getD_getElem?, ← Array.getElem?_toList, List.getElem?_eq_getElem hlt]; rfl
    rw [foldlM_range_succ, e, bind_ok, List.take_succ_eq_append_getElem hlt, List.foldl_append]
    generalize (a.toList.take n).foldl fbPush s0 = S at wf hw hl ⊢
    simp only [List.foldl_cons, List.foldl_nil]
    have hmul : (S.len + 1 + 1) * S.width ≤ (s0.len + 2 * a.size) * s0.width := by
      rw [hw]; exact Nat.mul_le_mul_right _ (by omega)
    have hmul' : (S.len + 1) * S.width ≤ (S.len + 1 + 1) * S.width := Nat.mul_le_mul_right _ (by omega)
    refine ⟨?_, IntVec.push_WF (IntVec.push_WF wf _) _, hw, by show S.len + 1 + 1 = _; omega⟩
    unfold fbBody
    rw [hget, int_push_eq m S _ wf (by omega), obind_ok4,
      int_push_eq m _ _ (IntVec.push_WF wf _) (by rw [IntVec.len_push, IntVec.width_push]; omega)]
    rfl

/-- the tail of the function: `samples` is the model's fold over an empty vector of the width of the last sample.
`hs` bounds the bit length `2 * blocks * width ≤ 128 * blocks` of the vector (the capacity computation
`2 * blocks`, `capacity * width`, `bits_to_words`, and every `push`). -/
theorem fb_finish_eq (m : Mode) (b : RLBuilder) (ri si zi : SampleIndex) (hs : 128 * b.samples.size + 63 < U64) :
    fbFinish m b ri si zi =
      ok ⟨b.len, b.ones, ri, si, zi,
        b.samples.toList.foldl fbPush ⟨0, bitLen (BitVec.ofNat 64 (fbMax b.samples.toList)), RawVec.empty⟩,
        b.data⟩ := by
  obtain ⟨w1, w2, _, _⟩ := bitLen_spec (BitVec.ofNat 64 (fbMax b.samples.toList))
  have hmul := Nat.mul_le_mul_left (2 * b.samples.size) w2
  have e10 : mulM m 2 b.samples.size = ok (2 * b.samples.size) := mulM_ok (by omega)
  have e12 : gen_IntVector_with_capacity m (2 * b.samples.size) (bitLen (BitVec.ofNat 64 (fbMax b.samples.toList))) =
      ok ⟨0, bitLen (BitVec.ofNat 64 (fbMax b.samples.toList)), RawVec.empty⟩ := by
    rw [int_with_capacity_eq m _ _ (by omega), IntVec.withCapacity_ok _ _ w1 w2]
  unfold fbFinish
  simp only [fb_max_eq, e10, bit_len_eq, e12, unwrapRes, bind_ok]
  rw [for_loop_range (ρ := RL) b.samples.size (fbBody m b.samples) _
      (fun i s hi => by
        simp only [decide_eq_true hi, if_true, Bind.bind, Pure.pure, fbBody]
        exact obind_congr_assoc _ _ _ _ (fun t13 => rfl))
      (fun i s hi => by simp only [hi, decide_false, Bool.false_eq_true, if_false]; rfl)]
  have hb0 : (0 + 2 * b.samples.size) * bitLen (BitVec.ofNat 64 (fbMax b.samples.toList)) + 63 < U64 := by
    rw [Nat.zero_add]; omega
  have hf := (fb_fold m b.samples ⟨0, bitLen (BitVec.ofNat 64 (fbMax b.samples.toList)), RawVec.empty⟩
    (IntVec.empty_WF _ w1 w2) hb0 b.samples.size (Nat.le_refl _)).1
  have htake : b.samples.toList.take b.samples.size = b.samples.toList := by
    rw [← Array.length_toList, List.take_length]
  rw [htake] at hf
  rw [hf]
  rfl


/-! ### the whole function -/

theorem subM_lt4 {m : Mode} {a b r : Nat} (ha : a < U64) (h : subM m a b = ok r) : r < U64 := by
  unfold subM at h
  by_cases hb : b ≤ a
  · rw [if_pos hb] at h; injection h with h; omega
  · rw [if_neg hb] at h
    cases m with
    | checked => cases h
    | wrapping => injection h with h; rw [← h]; exact Nat.mod_lt _ (by decide)

/-- what `flush` leaves unchanged -/
theorem flush_fields (m : Mode) (b b' : RLBuilder) (h : b.flush m = ok b') :
    b'.len = b.len ∧ b'.ones = b.ones ∧ b'.samples.size ≤ b.samples.size + 1 := by
  unfold RLBuilder.flush at h
  by_cases hr : b.run.2 = 0
  · rw [if_pos hr] at h; cases h; exact ⟨rfl, rfl, by omega⟩
  · rw [if_neg hr] at h
    cases hg : subM m b.run.1 b.tail with
    | fault e => rw [hg] at h; cases h
    | ok gap =>
      rw [hg] at h
      simp only [bind_ok, pure_eq] at h
      injection h with h
      subst h
      by_cases hc : b.data.len + (RLBuilder.codeLen gap + RLBuilder.codeLen (b.run.2 - 1)) > b.samples.size * 64
      · rw [if_pos hc]; exact ⟨rfl, rfl, by simp [Array.size_push]⟩
      · rw [if_neg hc]; exact ⟨rfl, rfl, Nat.le_succ _⟩

/-- **after the flush**: for ANY flushed builder `b'` with representable `len`, `ones` and at most `2^57 - 1` samples.
No hypothesis relates the samples to each other or to `len` / `ones`: the three `SampleIndex::new` are equal to the
model's on every list (`sample_index_new_eq`); the closure `bits - ones` (evaluated when the code collects the mapped
iterator, BEFORE `count_zeros`; in the model AFTER it) and `count_zeros` can only fault by the same overflow panic, so
the order is unobservable (`subM_ovf`, `mapM_ovf`). -/
theorem rl_from_builder_core (m : Mode) (b b' : RLBuilder) (hfg : gen_RLBuilder_flush m b = ok b')
    (hfm : b.flush m = ok b') (hlen : b'.len < U64) (hones : b'.ones < U64)
    (hs : 128 * b'.samples.size + 63 < U64) :
    gen_RLVector_from_builder m b = RL.ofBuilder m b := by
  have hU := U64_eq
  have hl60 : b'.samples.toList.length < 2 ^ 60 := by rw [Array.length_toList]; omega
  have er := sample_index_new_eq m (b'.samples.toList.map (·.2)) b'.len hlen (by rw [List.length_map]; exact hl60)
  have es := sample_index_new_eq m (b'.samples.toList.map (·.1)) b'.ones hones (by rw [List.length_map]; exact hl60)
  obtain ⟨hzo, hzl⟩ := mapM_ovf (fun p : Nat × Nat => subM m p.2 p.1) (fun p => subM_ovf m _ _) b'.samples.toList
  have hco := subM_ovf m b'.len b'.ones
  rw [from_builder_pieces, hfg, obind_ok4]
  unfold RL.ofBuilder fbRest
  simp only [hfm, bind_ok, fb_bits_eq, fb_ones_eq, er, es, fb_zs_eq, rlb_count_zeros_eq, RLBuilder.countZeros]
  cases SampleIndex.new m (b'.samples.toList.map (·.2)) b'.len with
  | fault e => rfl
  | ok ri =>
    simp only [bind_ok]
    cases SampleIndex.new m (b'.samples.toList.map (·.1)) b'.ones with
    | fault e => rfl
    | ok si =>
      simp only [bind_ok]
      cases hz : b'.samples.toList.mapM (fun p : Nat × Nat => subM m p.2 p.1) with
      | fault e1 =>
        cases hc : subM m b'.len b'.ones with
        | fault e2 =>
          have h1 := hzo e1 hz
          have h2 := hco e2 hc
          subst h1; subst h2; rfl
        | ok zeros => rfl
      | ok zs =>
        cases hc : subM m b'.len b'.ones with
        | fault e2 => rfl
        | ok zeros =>
          simp only [bind_ok]
          rw [sample_index_new_eq m zs zeros (subM_lt4 hlen hc) (by rw [hzl zs hz]; exact hl60)]
          cases SampleIndex.new m zs zeros with
          | fault e => rfl
          | ok zi =>
            simp only [bind_ok]
            rw [fb_finish_eq m b' ri si zi hs]
            obtain ⟨w1, w2, _, _⟩ := bitLen_spec (BitVec.ofNat 64 (fbMax b'.samples.toList))
            show _ = (IntVec.withCapacity (2 * b'.samples.toList.length)
              (bitLen (BitVec.ofNat 64 (fbMax b'.samples.toList))) >>= _)
            rw [IntVec.withCapacity_ok _ _ w1 w2, bind_ok]
            rfl

/-- **`RLVector::from(builder)`** under representation bounds only.  `hlen`, `hones`: the two counters are `usize`
values.  `hs`: the compressed samples vector (2 items of at most 64 bits per sample, one more sample after the flush)
has a representable bit length — this also covers `2 * blocks`, `capacity * width`, `bits_to_words(capacity)` of
`with_capacity`, which the model does not compute.  `hrun`: the bounds of the `flush` of a pending run
(`FlushBounds`).  NOT needed: `ones ≤ bits` in the samples, `b.ones ≤ b.len`, any monotonicity — where those fail
the code and the model fail alike. -/
theorem rl_from_builder_eq (m : Mode) (b : RLBuilder) (hlen : b.len < U64) (hones : b.ones < U64)
    (hs : 128 * b.samples.size + 191 < U64)
    (hrun : b.run.2 ≠ 0 → b.data.len + 44 < U64 ∧ b.run.2 ≤ b.ones ∧ b.run.1 + b.run.2 < U64) :
    gen_RLVector_from_builder m b = RL.ofBuilder m b := by
  have hfe := rlb_flush_eq' m b (fun hr => ⟨(hrun hr).1, by omega, (hrun hr).2.1, (hrun hr).2.2⟩)
  cases hf : b.flush m with
  | fault e =>
    rw [from_builder_pieces, hfe, hf]
    unfold RL.ofBuilder
    rw [hf]
    rfl
  | ok b' =>
    obtain ⟨f1, f2, f3⟩ := flush_fields m b b' hf
    exact rl_from_builder_core m b b' (hfe.trans hf) hf (by rw [f1]; exact hlen) (by rw [f2]; exact hones) (by omega)

/-- on the reachable builder states (`RLBuilder.Inv`), one bound on the number of samples is left -/
theorem rl_from_builder_eq_of_inv (m : Mode) (b : RLBuilder) (h : b.Inv) (hs : 128 * b.samples.size + 191 < U64) :
    gen_RLVector_from_builder m b = RL.ofBuilder m b := by
  have h1 := h.len_lt; have h2 := h.ones_le; have h3 := h.data_le; have h4 := h.run_end
  exact rl_from_builder_eq m b h1 (by omega) hs (fun _ => ⟨by omega, h.run_le_ones, by omega⟩)

/-- … and with the ghost block structure (`DInv`: every sample but the last stands for 64 code units of `data`) that
bound follows from "the bit length of the code units is a `usize`" -/
theorem rl_from_builder_eq_of_dinv (m : Mode) (b : RLBuilder) {done : List (List (Nat × Nat))} {cur : List (Nat × Nat)}
    (h : b.Inv) (hd : RLBuilder.DInv b done cur) (hraw : b.data.data.len < U64) :
    gen_RLVector_from_builder m b = RL.ofBuilder m b := by
  apply rl_from_builder_eq_of_inv m b h
  have h1 := hd.size
  have h2 := hd.data_len
  have h3 : b.data.data.len = b.data.len * b.data.width := h.data_wf.2.2.1
  rw [h.data_w] at h3
  rw [U64_eq] at hraw ⊢
  split at h1 <;> omega

/-! ### the hypotheses are needed; the theorems are not vacuous -/

/-- `raw_with_capacity_eq`: at `capacity = 2^64 - 63` the rounding `capacity + 63` of `bits_to_words` overflows -/
theorem raw_with_capacity_ne : gen_RawVector_with_capacity .checked (U64 - 63) = fault (.panic .overflow) := by decide

/-- `int_with_capacity_eq`: the model ignores the capacity, the code computes `capacity * width` and
`bits_to_words` of it in `usize`.  Both overflows are reachable only with a capacity of at least `2^58 - 1` items:
a request the allocator refuses anyway. -/
theorem int_with_capacity_ne :
    gen_IntVector_with_capacity .checked (U64 - 63) 1 = fault (.panic .overflow) ∧
    gen_IntVector_with_capacity .checked (U64 / 2) 2 = fault (.panic .overflow) ∧
    IntVec.withCapacity (U64 - 63) 1 = ok ⟨0, 1, RawVec.empty⟩ ∧
    IntVec.withCapacity (U64 / 2) 2 = ok ⟨0, 2, RawVec.empty⟩ := by decide

/-- `rlb_encode_eq`, `value < U64`: the code takes a `usize`; the first non-representable value is read as 0 -/
theorem rlb_encode_ne_value :
    (gen_RLBuilder_encode .checked {} U64).toOption.map (·.data.len) = some 1 ∧
    (RLBuilder.encode ({} : RLBuilder).data U64).len = 22 := by decide +kernel

/-- `hlen` of `rl_from_builder_eq`: `len` is a `usize`; at `2^64` (not a value of the real code) the rounding of
`SampleIndex::new` overflows in the code only (`sample_index_new_ne_univ`) -/
theorem rl_from_builder_ne_len :
    gen_RLVector_from_builder .checked { len := U64, run := (U64, 0), samples := #[(0, 0)] } =
      fault (.panic .overflow) ∧
    (RL.ofBuilder .checked { len := U64, run := (U64, 0), samples := #[(0, 0)] }).isOk = true := by decide +kernel

/-- `hones`: likewise for `ones = 2^64` (not a value of the real code); with overflow checks both sides panic (the
model later, in `count_zeros`), without them only the code fails -/
theorem rl_from_builder_ne_ones :
    (gen_RLVector_from_builder .wrapping { len := 5, ones := U64, run := (5, 0), samples := #[(0, 0)] }).isOk = false ∧
    (RL.ofBuilder .wrapping { len := 5, ones := U64, run := (5, 0), samples := #[(0, 0)] }).isOk = true := by
  decide +kernel

/-- the order of `bits - ones` and `count_zeros` is unobservable: here both fault (the code in the closure, on the
sample `(1, 0)`; the model in `count_zeros`, `1 - 2`), with the same panic.  And a builder with a pending run: both
sides flush, build the three indexes and the samples. -/
theorem rl_from_builder_examples :
    gen_RLVector_from_builder .checked { len := 1, ones := 2, run := (1, 0), samples := #[(0, 0), (1, 0)] } =
      fault (.panic .overflow) ∧
    RL.ofBuilder .checked { len := 1, ones := 2, run := (1, 0), samples := #[(0, 0), (1, 0)] } =
      fault (.panic .overflow) ∧
    gen_RLVector_from_builder .checked { len := 10, ones := 3, run := (7, 3) } =
      RL.ofBuilder .checked { len := 10, ones := 3, run := (7, 3) } ∧
    (RL.ofBuilder .checked { len := 10, ones := 3, run := (7, 3) }).isOk = true := by decide +kernel

end Sds.GenEq
