/-
Proofs/RL: the run-length encoded vector (`rl_vector.rs`, `rl_vector/index.rs`).
 1. the variable-length codec on unit lists          (`encodeUnits`, `decodeUnits`)
 2. the codec lifted to `RL.decode`
 3. `SampleIndex.parameters` arithmetic (repaired: no condition on the universe size); defect F8 of the
    code as first written (`parametersOld`)
 4. `SampleIndex.range` contract, `SampleIndex.new` establishes it for non-decreasing values (repaired,
    F10; the code as first written, `consumeOld`, asserted strictly increasing values)
 5. `RL.blockFor` (binary search)
 6. builder invariant, preserved by `try_set` and by the repaired `set_len`; defect F9 of the `set_len` as
    first written (`setLenOld`)
 7. `RunIter`: single steps, iteration over a block layout, what the builder writes, round trip
    build → `From<RLBuilder>` → iterate = `maximalRuns` (also with `set_len` calls); the former finding
    `zeroIdx_*` (F10): the conversion that used to panic now succeeds
Core Lean only.
-/
import Sds.Model.RL
import Sds.Spec.Bits
import Sds.Proofs.RawVec

namespace Sds
open Outcome

/-! ## 0. `bitLen` -/

theorem clzBelow_spec_rl (w : Word) (k : Nat) :
    clzBelow w k ≤ k ∧
    (∀ j, k - clzBelow w k ≤ j → j < k → w.getLsbD j = false) ∧
    (clzBelow w k < k → w.getLsbD (k - clzBelow w k - 1) = true) := by
  induction k with
  | zero => simp [clzBelow]
  | succ k ih =>
    unfold clzBelow
    by_cases hb : w.getLsbD k = true
    · simp only [hb, if_true]
      refine ⟨by omega, ?_, ?_⟩
      · intro j h1 h2; omega
      · intro _; simpa using hb
    · simp only [hb]
      obtain ⟨h1, h2, h3⟩ := ih
      refine ⟨by simp; omega, ?_, ?_⟩
      · intro j hj1 hj2
        by_cases hjk : j = k
        · subst hjk; simpa using hb
        · exact h2 j (by simp at hj1; omega) (by omega)
      · intro hlt
        have e : k + 1 - (1 + clzBelow w k) - 1 = k - clzBelow w k - 1 := by omega
        simp only [Bool.false_eq_true, if_false, e]
        exact h3 (by simp at hlt; omega)

/-- `bit_len` of a 64-bit value: `1 ≤ bitLen ≤ 64`, and for `v ≥ 1` it is the position of the top bit + 1 -/
theorem bitLen_spec_rl (v : Nat) (hv : v < 2 ^ 64) :
    1 ≤ bitLen (BitVec.ofNat 64 v) ∧ bitLen (BitVec.ofNat 64 v) ≤ 64 ∧
    v < 2 ^ bitLen (BitVec.ofNat 64 v) ∧ (1 ≤ v → 2 ^ (bitLen (BitVec.ofNat 64 v) - 1) ≤ v) := by
  unfold bitLen clz
  generalize hw : (BitVec.ofNat 64 v ||| 1 : Word) = w
  obtain ⟨h1, h2, h3⟩ := clzBelow_spec_rl w 64
  have hbit : ∀ j, w.getLsbD j = (v.testBit j || decide (j = 0)) := by
    intro j
    rw [← hw, BitVec.getLsbD_or]
    by_cases hj : j < 64
    · have : (1 : Word).getLsbD j = decide (j = 0) := by
        show Nat.testBit 1 j = decide (j = 0)
        cases j <;> simp [Nat.testBit_succ]
      rw [this, BitVec.getLsbD_ofNat]; simp [hj]
    · have hv' : v.testBit j = false := Nat.testBit_lt_two_pow (Nat.lt_of_lt_of_le hv (Nat.pow_le_pow_right (by omega) (by omega)))
      rw [getLsbD_ge64 _ _ (by omega), getLsbD_ge64 _ _ (by omega), hv']
      simp; omega
  have hc : clzBelow w 64 < 64 := by
    rcases Nat.lt_or_ge (clzBelow w 64) 64 with h | h
    · exact h
    · have := h2 0 (by omega) (by omega)
      rw [hbit] at this; simp at this
  refine ⟨by omega, by omega, ?_, ?_⟩
  · apply Nat.lt_pow_two_of_testBit
    intro i hi
    by_cases hi64 : i < 64
    · have := h2 i (by omega) hi64
      rw [hbit] at this; simp at this; exact this.1
    · exact Nat.testBit_lt_two_pow (Nat.lt_of_lt_of_le hv (Nat.pow_le_pow_right (by omega) (by omega)))
  · intro hv1
    have h3' := h3 hc
    rw [hbit] at h3'
    by_cases h0 : 64 - clzBelow w 64 - 1 = 0
    · rw [h0]; simpa using hv1
    · simp [h0] at h3'
      exact Nat.ge_two_pow_of_testBit h3'

theorem bitLen_eq_of (v b : Nat) (hv : v < 2 ^ 64) (h1 : 1 ≤ v) (hb : 1 ≤ b)
    (hlo : 2 ^ (b - 1) ≤ v) (hhi : v < 2 ^ b) : bitLen (BitVec.ofNat 64 v) = b := by
  obtain ⟨s1, _, s3, s4⟩ := bitLen_spec_rl v hv
  have s4 := s4 h1
  generalize bitLen (BitVec.ofNat 64 v) = B at *
  have a : b - 1 < B := (Nat.pow_lt_pow_iff_right (a := 2) (by omega)).1 (Nat.lt_of_le_of_lt hlo s3)
  have c : B - 1 < b := (Nat.pow_lt_pow_iff_right (a := 2) (by omega)).1 (Nat.lt_of_le_of_lt s4 hhi)
  omega

/-! ## 1. the codec on unit lists -/

namespace RLBuilder

theorem codeLen_small : ∀ v, v < 8 → codeLen v = 1 := by decide

theorem codeLen_step (v : Nat) (hv : v < 2 ^ 64) (h8 : 8 ≤ v) : codeLen v = codeLen (v / 8) + 1 := by
  obtain ⟨s1, s2, s3, s4⟩ := bitLen_spec_rl v hv
  have s4 := s4 (by omega)
  have hq : v / 8 < 2 ^ 64 := by omega
  unfold codeLen
  generalize hB : bitLen (BitVec.ofNat 64 v) = B at *
  have hB4 : 3 < B := (Nat.pow_lt_pow_iff_right (a := 2) (by omega)).1 (Nat.lt_of_le_of_lt (show 2 ^ 3 ≤ v by omega) s3)
  have e1 : 2 ^ (B - 1) = 2 ^ (B - 3 - 1) * 8 := by
    rw [show B - 1 = (B - 3 - 1) + 3 by omega, Nat.pow_add]
  have e2 : 2 ^ B = 2 ^ (B - 3) * 8 := by
    rw [show B = (B - 3) + 3 by omega, Nat.pow_add]; simp
  have : bitLen (BitVec.ofNat 64 (v / 8)) = B - 3 := by
    apply bitLen_eq_of _ _ hq (by omega) (by omega)
    · rw [Nat.le_div_iff_mul_le (by omega), ← e1]; exact s4
    · rw [Nat.div_lt_iff_lt_mul (by omega), ← e2]; exact s3
  rw [this]; omega

theorem codeLen_pos (v : Nat) : 1 ≤ codeLen v := by
  have := bitLen_spec_rl (v % 2 ^ 64) (Nat.mod_lt _ (by decide))
  unfold codeLen
  rw [show BitVec.ofNat 64 v = BitVec.ofNat 64 (v % 2 ^ 64) by
    apply BitVec.eq_of_toNat_eq; simp]
  omega

/-- holds for every `v` (the argument is truncated to 64 bits) -/
theorem codeLen_le (v : Nat) : codeLen v ≤ 22 := by
  have := bitLen_spec_rl (v % 2 ^ 64) (Nat.mod_lt _ (by decide))
  unfold codeLen
  rw [show BitVec.ofNat 64 v = BitVec.ofNat 64 (v % 2 ^ 64) by
    apply BitVec.eq_of_toNat_eq; simp]
  omega

theorem encodeUnits_succ (f v : Nat) :
    encodeUnits (f + 1) v = if v > 7 then (v % 8 + 8) :: encodeUnits f (v / 8) else [v] := rfl

theorem encodeUnits_length_aux (f v : Nat) (h8 : v < 8 ^ (f + 1)) (hv : v < 2 ^ 64) :
    (encodeUnits (f + 1) v).length = codeLen v := by
  induction f generalizing v with
  | zero =>
    rw [encodeUnits_succ, if_neg (by omega), codeLen_small v (by omega)]; rfl
  | succ f ih =>
    rw [encodeUnits_succ]
    by_cases h : v > 7
    · rw [if_pos h, List.length_cons, ih (v / 8) (by rw [Nat.pow_succ] at h8; omega) (by omega),
        codeLen_step v hv (by omega)]
    · rw [if_neg h, codeLen_small v (by omega)]; rfl

theorem lt_8_pow_23 {v : Nat} (hv : v < 2 ^ 64) : v < 8 ^ (22 + 1) :=
  Nat.lt_trans hv (by decide)

/-- the number of units of a code is `code_len` -/
theorem encodeUnits_length (v : Nat) (hv : v < 2 ^ 64) : (encodeUnits 23 v).length = codeLen v :=
  encodeUnits_length_aux 22 v (lt_8_pow_23 hv) hv

theorem codeLen_bounds (v : Nat) : 1 ≤ codeLen v ∧ codeLen v ≤ 22 := ⟨codeLen_pos v, codeLen_le v⟩

/-- shape of a code: continuation units (8..15) followed by exactly one final unit (0..7) -/
theorem encodeUnits_shape_aux (f v : Nat) (h8 : v < 8 ^ (f + 1)) :
    ∃ init last, encodeUnits (f + 1) v = init ++ [last] ∧ last < 8 ∧ ∀ u ∈ init, 8 ≤ u ∧ u < 16 := by
  induction f generalizing v with
  | zero => exact ⟨[], v, by rw [encodeUnits_succ, if_neg (by omega)]; rfl, by omega, by simp⟩
  | succ f ih =>
    rw [encodeUnits_succ]
    by_cases h : v > 7
    · obtain ⟨init, last, e, hl, hi⟩ := ih (v / 8) (by rw [Nat.pow_succ] at h8; omega)
      refine ⟨(v % 8 + 8) :: init, last, by rw [if_pos h, e]; rfl, hl, ?_⟩
      intro u hu
      rcases List.mem_cons.1 hu with rfl | hu
      · omega
      · exact hi u hu
    · exact ⟨[], v, by rw [if_neg h]; rfl, by omega, by simp⟩

theorem encodeUnits_shape (v : Nat) (hv : v < 2 ^ 64) :
    ∃ init last, encodeUnits 23 v = init ++ [last] ∧ last < 8 ∧ ∀ u ∈ init, 8 ≤ u ∧ u < 16 :=
  encodeUnits_shape_aux 22 v (lt_8_pow_23 hv)

theorem encodeUnits_lt_16 (v : Nat) (hv : v < 2 ^ 64) : ∀ u ∈ encodeUnits 23 v, u < 16 := by
  obtain ⟨init, last, e, hl, hi⟩ := encodeUnits_shape v hv
  intro u hu
  rw [e] at hu
  rcases List.mem_append.1 hu with h | h
  · exact (hi u h).2
  · have : u = last := by simpa using h
    omega

/-- list-level mirror of `RL.decodeLoop`: (value, remaining units); `none` = any fault of the model loop
(fuel, end of data, shift ≥ 64, overflow of the accumulated value) -/
def decodeUnitsLoop : Nat → List Nat → Nat → Nat → Option (Nat × List Nat)
  | 0, _, _, _ => none
  | _ + 1, [], _, _ => none
  | fuel + 1, c :: rest, value, shift =>
    if shift ≥ 64 then none
    else if value + (c % 8) * 2 ^ shift ≥ 2 ^ 64 then none
    else if c / 8 % 2 = 0 then some (value + (c % 8) * 2 ^ shift, rest)
    else decodeUnitsLoop fuel rest (value + (c % 8) * 2 ^ shift) (shift + 3)

def decodeUnits (us : List Nat) : Option (Nat × List Nat) := decodeUnitsLoop 23 us 0 0

theorem decodeUnitsLoop_encode (f : Nat) : ∀ (v acc s fuel : Nat) (rest : List Nat),
    v < 8 ^ (f + 1) → f + 1 ≤ fuel → s < 64 → acc + v * 2 ^ s < 2 ^ 64 →
    decodeUnitsLoop fuel (encodeUnits (f + 1) v ++ rest) acc s = some (acc + v * 2 ^ s, rest) := by
  induction f with
  | zero =>
    intro v acc s fuel rest h8 hf hs hacc
    obtain ⟨fuel, rfl⟩ : ∃ k, fuel = k + 1 := ⟨fuel - 1, by omega⟩
    rw [encodeUnits_succ, if_neg (by omega)]
    have e1 : v % 8 = v := Nat.mod_eq_of_lt (by omega)
    have e2 : v / 8 % 2 = 0 := by omega
    simp only [List.cons_append, List.nil_append, decodeUnitsLoop, e1, e2]
    rw [if_neg (by omega), if_neg (by omega)]; simp
  | succ f ih =>
    intro v acc s fuel rest h8 hf hs hacc
    obtain ⟨fuel, rfl⟩ : ∃ k, fuel = k + 1 := ⟨fuel - 1, by omega⟩
    rw [encodeUnits_succ]
    by_cases h : v > 7
    · rw [if_pos h]
      have e1 : (v % 8 + 8) % 8 = v % 8 := by omega
      have e2 : (v % 8 + 8) / 8 % 2 = 1 := by omega
      have hdm : 8 * (v / 8) + v % 8 = v := Nat.div_add_mod v 8
      have key : v * 2 ^ s = (v / 8) * 2 ^ (s + 3) + (v % 8) * 2 ^ s := by
        generalize v / 8 = q at hdm
        generalize v % 8 = r at hdm
        subst hdm; grind
      have hs3 : s + 3 < 64 := by
        have h1 : 1 * 2 ^ (s + 3) ≤ (v / 8) * 2 ^ (s + 3) := Nat.mul_le_mul_right _ (by omega)
        have h2 : 2 ^ (s + 3) < 2 ^ 64 := by omega
        exact (Nat.pow_lt_pow_iff_right (a := 2) (by omega)).1 h2
      simp only [List.cons_append, decodeUnitsLoop, e1, e2]
      rw [if_neg (by omega), if_neg (by omega), if_neg (by omega),
        ih (v / 8) _ (s + 3) fuel rest (by rw [Nat.pow_succ] at h8; omega) (by omega) hs3 (by omega)]
      congr 2; omega
    · rw [if_neg h]
      have e1 : v % 8 = v := Nat.mod_eq_of_lt (by omega)
      have e2 : v / 8 % 2 = 0 := by omega
      simp only [List.cons_append, List.nil_append, decodeUnitsLoop, e1, e2]
      rw [if_neg (by omega), if_neg (by omega)]; simp

/-- decode ∘ encode = id, with the rest of the unit stream untouched -/
theorem decodeUnits_encode (v : Nat) (hv : v < 2 ^ 64) (rest : List Nat) :
    decodeUnits (encodeUnits 23 v ++ rest) = some (v, rest) := by
  have := decodeUnitsLoop_encode 22 v 0 0 23 rest (lt_8_pow_23 hv) (by omega) (by omega) (by simpa using hv)
  simpa [decodeUnits] using this

/-- unambiguous decoding: codes are prefix-free and injective -/
theorem encodeUnits_prefix_free (v v' : Nat) (hv : v < 2 ^ 64) (hv' : v' < 2 ^ 64) (r r' : List Nat)
    (h : encodeUnits 23 v ++ r = encodeUnits 23 v' ++ r') : v = v' ∧ r = r' := by
  have a := decodeUnits_encode v hv r
  rw [h, decodeUnits_encode v' hv' r'] at a
  simpa [eq_comm] using a

/-- the padding unit `0` is also the one-unit code of the value 0: padding can only be recognised
from the per-block limit on the number of ones, never from the unit stream itself -/
theorem decodeUnits_padding (rest : List Nat) : decodeUnits (0 :: rest) = some (0, rest) :=
  decodeUnits_encode 0 (by decide) rest

end RLBuilder

/-! ## 2. the codec in the model: `RL.decode` -/

namespace IntVec

theorem items_length_rl (d : IntVec) : d.items.length = d.len := by simp [items]

theorem items_getElem_rl (d : IntVec) (i : Nat) (h : i < d.items.length) :
    d.items[i] = (d.getRaw i).toNat := by simp [items]

theorem items_drop_cons {d : IntVec} {o c : Nat} {tl : List Nat} (h : d.items.drop o = c :: tl) :
    o < d.len ∧ (d.getRaw o).toNat = c ∧ d.items.drop (o + 1) = tl := by
  have hlt : o < d.items.length := by
    rcases Nat.lt_or_ge o d.items.length with h' | h'
    · exact h'
    · rw [List.drop_eq_nil_of_le h'] at h; cases h
  rw [List.drop_eq_getElem_cons hlt, items_getElem_rl] at h
  injection h with h1 h2
  exact ⟨by rw [← items_length_rl]; exact hlt, h1, h2⟩

theorem get_ok_rl {d : IntVec} {i : Nat} (h : i < d.len) : d.get i = ok (d.getRaw i) := by
  simp [get, h]

theorem getOr_def (d : IntVec) (i : Nat) (x : Word) :
    d.getOr i x = if i < d.len then d.getRaw i else x := rfl

end IntVec

namespace RL
open RLBuilder

/-- whenever the list-level loop succeeds on the stored units, the model loop returns the same value
(in both arithmetic modes) and the offset just after the consumed units -/
theorem decodeLoop_of_units (m : Mode) (v : RL) : ∀ (fuel o acc s x : Nat) (rest : List Nat),
    decodeUnitsLoop fuel (v.data.items.drop o) acc s = some (x, rest) →
    decodeLoop m v fuel o acc s = ok (x, v.data.len - rest.length) := by
  intro fuel
  induction fuel with
  | zero => intro o acc s x rest h; simp [decodeUnitsLoop] at h
  | succ fuel ih =>
    intro o acc s x rest h
    cases hd : v.data.items.drop o with
    | nil => rw [hd] at h; simp [decodeUnitsLoop] at h
    | cons c tl =>
      rw [hd] at h
      obtain ⟨ho, hc, htl⟩ := IntVec.items_drop_cons hd
      simp only [decodeUnitsLoop] at h
      by_cases hs : s ≥ 64
      · rw [if_pos hs] at h; cases h
      rw [if_neg hs] at h
      by_cases hov : acc + (c % 8) * 2 ^ s ≥ 2 ^ 64
      · rw [if_pos hov] at h; cases h
      rw [if_neg hov] at h
      have hterm : ((c % 8) <<< s) % U64 = (c % 8) * 2 ^ s := by
        rw [Nat.shiftLeft_eq, U64_eq]; exact Nat.mod_eq_of_lt (by omega)
      rw [decodeLoop.eq_def]; simp only []; rw [IntVec.get_ok_rl ho]
      simp only [bind_ok, hc, if_neg hs, hterm]
      rw [addM_ok (by rw [U64_eq]; omega)]
      simp only [bind_ok]
      by_cases hfin : c / 8 % 2 = 0
      · rw [if_pos hfin] at h
        rw [if_pos hfin]
        injection h with h; injection h with h1 h2
        subst h1 h2
        have : tl.length = v.data.len - (o + 1) := by
          rw [← htl, List.length_drop, IntVec.items_length_rl]
        rw [this]
        simp only [pure_eq]
        congr 2; omega
      · rw [if_neg hfin] at h
        rw [if_neg hfin]
        exact ih (o + 1) _ (s + 3) x rest (by rw [htl]; exact h)

theorem decode_of_units (m : Mode) (v : RL) (o x : Nat) (rest : List Nat)
    (h : decodeUnits (v.data.items.drop o) = some (x, rest)) :
    v.decode m o = ok (x, v.data.len - rest.length) :=
  decodeLoop_of_units m v 23 o 0 0 x rest h

/-- `decode` reads back a code stored at unit offset `o`, in both modes, and returns the offset of the
next code (no overflow, no fuel fault, shift always < 64) -/
theorem decode_encode (m : Mode) (v : RL) (o x : Nat) (rest : List Nat) (hx : x < 2 ^ 64)
    (h : v.data.items.drop o = encodeUnits 23 x ++ rest) :
    v.decode m o = ok (x, o + codeLen x) := by
  have hl := congrArg List.length h
  rw [List.length_drop, IntVec.items_length_rl, List.length_append, encodeUnits_length x hx] at hl
  have hp := codeLen_pos x
  rw [decode_of_units m v o x rest (by rw [h]; exact decodeUnits_encode x hx rest)]
  congr 2; omega

end RL

/-! ## 3. `SampleIndex.parameters` -/

theorem divRoundUp_ok_rl {m : Mode} {value n : Nat} (h : value + n < U64) (hn : 1 ≤ n) :
    divRoundUp m value n = ok ((value + n - 1) / n) := by
  unfold divRoundUp
  rw [addM_ok h]; simp only [bind_ok]
  rw [subM_ok (by omega)]; simp only [bind_ok]
  rw [if_neg (by omega)]; rfl

/-- in checked builds `div_round_up` panics as soon as `value + n` does not fit, whatever the quotient is -/
theorem divRoundUp_checked_overflow {value n : Nat} (h : U64 ≤ value + n) :
    divRoundUp .checked value n = fault (.panic .overflow) := by
  unfold divRoundUp addM
  rw [if_neg (by omega)]; rfl

/-- the overflow-free rounding of the repaired `parameters` is the mathematical `⌈value / n⌉`, for every
`value` (no bound at all) -/
theorem ceilDiv_eq (value n : Nat) (hn : 1 ≤ n) :
    value / n + (if value % n ≠ 0 then 1 else 0) = (value + n - 1) / n := by
  have hdm : n * (value / n) + value % n = value := Nat.div_add_mod value n
  have hr : value % n < n := Nat.mod_lt _ (by omega)
  generalize value / n = q at *
  generalize value % n = r at *
  have e1 : q * n = n * q := Nat.mul_comm _ _
  have e2 : (q + 1) * n = n * q + n := by rw [Nat.succ_mul, e1]
  have e3 : (q + 1 + 1) * n = n * q + n + n := by rw [Nat.succ_mul, e2]
  by_cases h0 : r = 0
  · rw [if_neg (by omega), Nat.add_zero]
    exact (Nat.div_eq_of_lt_le (by omega) (by omega)).symm
  · rw [if_pos h0]
    exact (Nat.div_eq_of_lt_le (by omega) (by omega)).symm

namespace SampleIndex

theorem divRoundUpSafe_ok {value n : Nat} (hn : 1 ≤ n) :
    divRoundUpSafe value n = ok ((value + n - 1) / n) := by
  unfold divRoundUpSafe
  rw [if_neg (by omega), ceilDiv_eq value n hn]

theorem divRoundUpSafe_zero (value : Nat) : divRoundUpSafe value 0 = fault (.panic .other) := rfl

/-- first rounding of `parameters` -/
def ns0 (values : Nat) : Nat := (values + 7) / 8
/-- the divisor computed by `parameters`: `⌈univ / ns0⌉` -/
def div0 (values univ : Nat) : Nat := (univ + ns0 values - 1) / ns0 values
/-- the number of samples computed by `parameters`: `⌈univ / div0⌉` -/
def nsam (values univ : Nat) : Nat := (univ + div0 values univ - 1) / div0 values univ

/-- condition under which the repaired `parameters` does not overflow: only the first rounding
`div_round_up(values, 8)` still adds before dividing; the universe size is unconstrained -/
def NoOverflow (values : Nat) : Prop := values + 8 < U64

instance (values : Nat) : Decidable (NoOverflow values) := by
  unfold NoOverflow; exact inferInstance

/-- exact condition under which none of the three `div_round_up` calls of `parameters` *as first
written* (`parametersOld`, finding F8) overflows -/
def OldNoOverflow (values univ : Nat) : Prop :=
  values + 8 < U64 ∧ univ + ns0 values < U64 ∧ univ + div0 values univ < U64

instance (values univ : Nat) : Decidable (OldNoOverflow values univ) := by
  unfold OldNoOverflow; exact inferInstance

theorem ns0_pos {values : Nat} (h : 1 ≤ values) : 1 ≤ ns0 values := by unfold ns0; omega

theorem div0_pos {values univ : Nat} (hv : 1 ≤ values) (hu : 1 ≤ univ) : 1 ≤ div0 values univ := by
  unfold div0
  have := ns0_pos hv
  rw [Nat.le_div_iff_mul_le (by omega)]; omega

theorem div0_le {values univ : Nat} (hv : 1 ≤ values) : div0 values univ ≤ univ := by
  unfold div0
  have := ns0_pos hv
  apply Nat.le_of_lt_succ
  rw [Nat.div_lt_iff_lt_mul (by omega)]
  have : univ * 1 ≤ univ * ns0 values := Nat.mul_le_mul_left _ this
  rw [Nat.succ_mul]; omega

/-- the number of values is a `usize` that leaves room for the `+ 7` of the first rounding: that is
all the repaired `parameters` needs — nothing relates `univ` to `2^63` any more -/
theorem noOverflow_of_lt {values : Nat} (h1 : values + 8 < 2 ^ 64) : NoOverflow values := by
  unfold NoOverflow; rw [U64_eq]; exact h1

/-- the old sufficient condition (both arguments below `2^63`) for the old function -/
theorem oldNoOverflow_of_lt {values univ : Nat} (hv : 1 ≤ values) (h1 : values < 2 ^ 63) (h2 : univ < 2 ^ 63) :
    OldNoOverflow values univ := by
  have := @div0_le values univ hv
  unfold OldNoOverflow ns0 at *
  rw [U64_eq]; omega

theorem OldNoOverflow.noOverflow {values univ : Nat} (h : OldNoOverflow values univ) : NoOverflow values := h.1

/-- the repaired `parameters` succeeds, in both modes, for **every** universe size `univ ≥ 1`
(any natural number, in particular every `univ < 2^64`) -/
theorem parameters_ok (m : Mode) {values univ : Nat} (hv : 1 ≤ values) (hu : 1 ≤ univ)
    (h : NoOverflow values) :
    parameters m values univ = ok (nsam values univ, div0 values univ) := by
  unfold parameters
  rw [divRoundUp_ok_rl h (by omega)]; simp only [bind_ok]
  rw [show (values + 8 - 1) / 8 = ns0 values by unfold ns0; rfl]
  rw [divRoundUpSafe_ok (ns0_pos hv)]; simp only [bind_ok]
  rw [show (univ + ns0 values - 1) / ns0 values = div0 values univ by rfl]
  rw [divRoundUpSafe_ok (div0_pos hv hu)]; rfl

/-- `values + 8 < 2^64` is exact in checked builds: otherwise the first rounding overflows -/
theorem parameters_checked_ok_iff {values univ : Nat} (hv : 1 ≤ values) (hu : 1 ≤ univ) :
    (∃ r, parameters .checked values univ = ok r) ↔ NoOverflow values := by
  constructor
  · intro ⟨r, hr⟩
    by_cases h : NoOverflow values
    · exact h
    · unfold parameters at hr
      rw [divRoundUp_checked_overflow (by unfold NoOverflow at h; omega)] at hr
      cases hr
  · intro h; exact ⟨_, parameters_ok .checked hv hu h⟩

/-- the function as first written agrees with the repaired one whenever it does not overflow -/
theorem parametersOld_ok (m : Mode) {values univ : Nat} (hv : 1 ≤ values) (hu : 1 ≤ univ)
    (h : OldNoOverflow values univ) :
    parametersOld m values univ = ok (nsam values univ, div0 values univ) := by
  obtain ⟨h1, h2, h3⟩ := h
  unfold parametersOld
  rw [divRoundUp_ok_rl h1 (by omega)]; simp only [bind_ok]
  rw [show (values + 8 - 1) / 8 = ns0 values by unfold ns0; rfl]
  rw [divRoundUp_ok_rl h2 (ns0_pos hv)]; simp only [bind_ok]
  rw [show (univ + ns0 values - 1) / ns0 values = div0 values univ by rfl]
  rw [divRoundUp_ok_rl h3 (div0_pos hv hu)]; rfl

theorem parametersOld_eq_parameters (m : Mode) {values univ : Nat} (hv : 1 ≤ values) (hu : 1 ≤ univ)
    (h : OldNoOverflow values univ) : parametersOld m values univ = parameters m values univ := by
  rw [parametersOld_ok m hv hu h, parameters_ok m hv hu h.1]

/-- (F8, old code) the condition is exact in checked builds -/
theorem parameters_checked_overflow {values univ : Nat} (hv : 1 ≤ values)
    (h : ¬ OldNoOverflow values univ) :
    parametersOld .checked values univ = fault (.panic .overflow) := by
  unfold parametersOld
  by_cases h1 : values + 8 < U64
  · rw [divRoundUp_ok_rl h1 (by omega)]; simp only [bind_ok]
    rw [show (values + 8 - 1) / 8 = ns0 values by unfold ns0; rfl]
    by_cases h2 : univ + ns0 values < U64
    · rw [divRoundUp_ok_rl h2 (ns0_pos hv)]; simp only [bind_ok]
      rw [show (univ + ns0 values - 1) / ns0 values = div0 values univ by rfl]
      have h3 : ¬ univ + div0 values univ < U64 := fun h3 => h ⟨h1, h2, h3⟩
      rw [divRoundUp_checked_overflow (by omega)]; rfl
    · rw [divRoundUp_checked_overflow (by omega)]; rfl
  · rw [divRoundUp_checked_overflow (by omega)]; rfl

/-- (F8, old code) -/
theorem parameters_checked_iff {values univ : Nat} (hv : 1 ≤ values) (hu : 1 ≤ univ) :
    (∃ r, parametersOld .checked values univ = ok r) ↔ OldNoOverflow values univ := by
  constructor
  · intro ⟨r, hr⟩
    by_cases h : OldNoOverflow values univ
    · exact h
    · rw [parameters_checked_overflow hv h] at hr; cases hr
  · intro h; exact ⟨_, parametersOld_ok .checked hv hu h⟩

/-- arithmetic facts about the result: `ns` samples with spacing `d` cover exactly `0 .. univ-1`.
Pure arithmetic: holds for every `values ≥ 1` and every `univ ≥ 1`. -/
theorem parameters_spec {values univ : Nat} (hv : 1 ≤ values) (hu : 1 ≤ univ) :
    1 ≤ div0 values univ ∧
    (nsam values univ - 1) * div0 values univ < univ ∧
    univ ≤ nsam values univ * div0 values univ ∧
    (univ - 1) / div0 values univ = nsam values univ - 1 ∧
    1 ≤ nsam values univ := by
  have hd := div0_pos hv hu
  generalize hdd : div0 values univ = d at *
  have hns : nsam values univ = (univ - 1) / d + 1 := by
    unfold nsam; rw [hdd, show univ + d - 1 = univ - 1 + d by omega, Nat.add_div_right _ (by omega)]
  rw [hns]
  have a : (univ - 1) / d * d ≤ univ - 1 := Nat.div_mul_le_self _ _
  have b : univ - 1 < d * ((univ - 1) / d + 1) := Nat.lt_mul_div_succ _ (by omega)
  rw [Nat.mul_comm] at b
  rw [Nat.add_sub_cancel]
  generalize hu' : univ - 1 = u at *
  generalize hq : u / d = q at *
  rw [Nat.succ_mul] at b ⊢
  exact ⟨hd, by omega, by omega, rfl, by omega⟩

/-- the statement in the requested form: the repaired `parameters` returns, in both modes and for
every universe size (no relation between `univ` and `2^63`, indeed no bound on `univ` at all), a pair
`(ns, d)` with `1 ≤ d`, `(ns − 1) * d < univ ≤ ns * d`, `(univ − 1) / d = ns − 1`, `1 ≤ ns` -/
theorem parameters_contract (m : Mode) {values univ : Nat} (hv : 1 ≤ values) (hu : 1 ≤ univ)
    (h : values + 8 < U64) :
    ∃ ns d, parameters m values univ = ok (ns, d) ∧ 1 ≤ d ∧ (ns - 1) * d < univ ∧ univ ≤ ns * d ∧
      (univ - 1) / d = ns - 1 ∧ 1 ≤ ns := by
  obtain ⟨a, b, c, d, e⟩ := parameters_spec hv hu
  exact ⟨_, _, parameters_ok m hv hu h, a, b, c, d, e⟩

/-- in particular for every `usize` universe -/
theorem parameters_contract_usize (m : Mode) {values univ : Nat} (hv : 1 ≤ values) (hu : 1 ≤ univ)
    (h : values + 8 < U64) (_hu64 : univ < 2 ^ 64) :
    ∃ ns d, parameters m values univ = ok (ns, d) ∧ 1 ≤ d ∧ (ns - 1) * d < univ ∧ univ ≤ ns * d ∧
      (univ - 1) / d = ns - 1 ∧ 1 ≤ ns ∧ ns < 2 ^ 64 ∧ d < 2 ^ 64 := by
  obtain ⟨ns, d, e, h1, h2, h3, h4, h5⟩ := parameters_contract m hv hu h
  refine ⟨ns, d, e, h1, h2, h3, h4, h5, ?_, ?_⟩
  · -- ns - 1 ≤ (ns - 1) * d < univ
    have : (ns - 1) * 1 ≤ (ns - 1) * d := Nat.mul_le_mul_left _ h1
    omega
  · -- d = div0 ≤ univ
    rw [parameters_ok m hv hu h] at e
    injection e with e; injection e with e1 e2
    have := @div0_le values univ hv
    omega

/-- **Defect F8** (code as first written, `parametersOld`). `values = 1`, `univ = 2^63`: every quantity
involved fits in 64 bits (`ns = 1`, `divisor = 2^63`), yet the old `parameters` panics in checked builds
because `div_round_up(univ, divisor)` computes `univ + divisor = 2^64` before subtracting 1. -/
theorem F8_parameters_overflow :
    parametersOld .checked 1 (2 ^ 63) = fault (.panic .overflow) ∧
    nsam 1 (2 ^ 63) = 1 ∧ div0 1 (2 ^ 63) = 2 ^ 63 ∧ 2 ^ 63 < U64 := by decide

/-- in release builds the same call of the old function returns the right answer only by accident:
`univ + divisor` wraps to 0, `0 - 1` wraps to `2^64 - 1`, and `(2^64 - 1) / 2^63 = 1` -/
theorem F8_parameters_wrapping :
    parametersOld .wrapping 1 (2 ^ 63) = ok (1, 2 ^ 63) := by decide

/-- **F8 repaired.** The same call, and the largest `usize` universe, succeed in checked builds (and
in release builds, without any wrap-around) -/
theorem F8_parameters_fixed :
    parameters .checked 1 (2 ^ 63) = ok (1, 2 ^ 63) ∧
    parameters .wrapping 1 (2 ^ 63) = ok (1, 2 ^ 63) ∧
    parameters .checked 1 (2 ^ 64 - 1) = ok (1, 2 ^ 64 - 1) ∧
    parameters .wrapping 1 (2 ^ 64 - 1) = ok (1, 2 ^ 64 - 1) ∧
    parameters .checked 9 (2 ^ 64 - 1) = ok (2, 2 ^ 63) ∧
    parametersOld .checked 1 (2 ^ 64 - 1) = fault (.panic .overflow) := by decide

end SampleIndex

/-! ## 5. `block_for` : binary search for the last block whose sample is ≤ value -/

namespace RL

theorem blockFor_spec (f : Nat → Outcome Nat) (g : Nat → Nat) (value : Nat) :
    ∀ (n lo hi : Nat), lo < hi → hi - lo ≤ 2 ^ n →
      (∀ i, lo ≤ i → i < hi → f i = ok (g i)) →
      (∀ i j, lo ≤ i → i ≤ j → j < hi → g i ≤ g j) →
      g lo ≤ value →
      ∃ b, blockFor f value (n + 1) lo hi = ok b ∧ lo ≤ b ∧ b < hi ∧ g b ≤ value ∧
        ∀ j, b < j → j < hi → value < g j := by
  intro n
  induction n with
  | zero =>
    intro lo hi hlt hsz hf hmono hlo
    refine ⟨lo, ?_, Nat.le_refl _, hlt, hlo, ?_⟩
    · unfold blockFor; rw [if_neg (by simp at hsz; omega)]
    · intro j h1 h2; simp at hsz; omega
  | succ n ih =>
    intro lo hi hlt hsz hf hmono hlo
    by_cases hbig : hi - lo > 1
    · have hp : 2 ^ (n + 1) = 2 * 2 ^ n := by rw [Nat.pow_succ]; omega
      have hmid1 : lo < lo + (hi - lo) / 2 := by omega
      have hmid2 : lo + (hi - lo) / 2 < hi := by omega
      unfold blockFor
      rw [if_pos hbig]
      simp only [hf _ (Nat.le_of_lt hmid1) hmid2, bind_ok]
      generalize hmid : lo + (hi - lo) / 2 = mid at *
      by_cases hc : g mid ≤ value
      · rw [if_pos hc]
        obtain ⟨b, hb, b1, b2, b3, b4⟩ := ih mid hi hmid2 (by omega)
          (fun i h1 h2 => hf i (by omega) h2) (fun i j h1 h2 h3 => hmono i j (by omega) h2 h3) hc
        exact ⟨b, hb, by omega, b2, b3, b4⟩
      · rw [if_neg hc]
        obtain ⟨b, hb, b1, b2, b3, b4⟩ := ih lo mid hmid1 (by omega)
          (fun i h1 h2 => hf i h1 (by omega)) (fun i j h1 h2 h3 => hmono i j h1 h2 (by omega)) hlo
        refine ⟨b, hb, b1, by omega, b3, ?_⟩
        intro j h1 h2
        by_cases hj : j < mid
        · exact b4 j h1 hj
        · have := hmono mid j (by omega) (by omega) h2
          omega
    · refine ⟨lo, ?_, Nat.le_refl _, hlt, hlo, ?_⟩
      · unfold blockFor; rw [if_neg hbig]
      · intro j h1 h2; omega

/-- the fuel 70 used by the queries is enough for every range below 2^64 (indeed below 2^69) -/
theorem blockFor_70 (f : Nat → Outcome Nat) (g : Nat → Nat) (value lo hi : Nat) (hlt : lo < hi)
    (hsz : hi - lo ≤ 2 ^ 64)
    (hf : ∀ i, lo ≤ i → i < hi → f i = ok (g i))
    (hmono : ∀ i j, lo ≤ i → i ≤ j → j < hi → g i ≤ g j) (hlo : g lo ≤ value) :
    ∃ b, blockFor f value 70 lo hi = ok b ∧ lo ≤ b ∧ b < hi ∧ g b ≤ value ∧
      ∀ j, b < j → j < hi → value < g j :=
  blockFor_spec f g value 69 lo hi hlt (Nat.le_trans hsz (by decide)) hf hmono hlo

end RL

/-! ## IntVec facts used by the builder -/

namespace IntVec

@[simp] theorem len_push_rl (d : IntVec) (x : Word) : (d.push x).len = d.len + 1 := rfl
@[simp] theorem width_push_rl (d : IntVec) (x : Word) : (d.push x).width = d.width := rfl

theorem push_WF_rl {d : IntVec} (h : d.WF) (x : Word) : (d.push x).WF := by
  obtain ⟨h1, h2, h3, h4⟩ := h
  refine ⟨h1, h2, ?_, RawVec.pushInt_WF h4 x _ h1 h2⟩
  show (d.data.pushInt x d.width).len = (d.len + 1) * d.width
  rw [RawVec.len_pushInt, h3, Nat.succ_mul]

theorem word_eq_mod (y x : Word) (w : Nat)
    (h : ∀ k, k < 64 → y.getLsbD k = (decide (k < w) && x.getLsbD k)) : y.toNat = x.toNat % 2 ^ w := by
  have : y = BitVec.ofNat 64 (x.toNat % 2 ^ w) := by
    apply BitVec.eq_of_getLsbD_eq
    intro k hk
    rw [h k hk, BitVec.getLsbD_ofNat, Nat.testBit_mod_two_pow]
    simp [hk, BitVec.getLsbD]
  rw [this, BitVec.toNat_ofNat]
  apply Nat.mod_eq_of_lt
  exact Nat.lt_of_le_of_lt (Nat.mod_le _ _) x.isLt

theorem getRaw_push_lt_rl {d : IntVec} (h : d.WF) (x : Word) (i : Nat) (hi : i < d.len) :
    (d.push x).getRaw i = d.getRaw i := by
  obtain ⟨h1, h2, h3, h4⟩ := h
  apply BitVec.eq_of_getLsbD_eq
  intro k hk
  show (RawVec.int (d.data.pushInt x d.width) (i * d.width) d.width).getLsbD k = (d.data.int (i * d.width) d.width).getLsbD k
  rw [RawVec.int_getLsbD _ _ _ h1 h2, RawVec.int_getLsbD _ _ _ h1 h2]
  by_cases hkw : k < d.width
  · rw [RawVec.getBit_pushInt h4 x _ h1 h2, if_neg]
    have : (i + 1) * d.width ≤ d.len * d.width := Nat.mul_le_mul_right _ hi
    rw [Nat.succ_mul] at this
    omega
  · simp [hkw]

theorem getRaw_push_eq_rl {d : IntVec} (h : d.WF) (x : Word) :
    ((d.push x).getRaw d.len).toNat = x.toNat % 2 ^ d.width := by
  obtain ⟨h1, h2, h3, h4⟩ := h
  apply word_eq_mod
  intro k hk
  show (RawVec.int (d.data.pushInt x d.width) (d.len * d.width) d.width).getLsbD k = _
  rw [RawVec.int_getLsbD _ _ _ h1 h2]
  by_cases hkw : k < d.width
  · rw [RawVec.getBit_pushInt h4 x _ h1 h2, if_pos (by omega)]
    simp [hkw, h3]
  · simp [hkw]

theorem items_push_rl {d : IntVec} (h : d.WF) (x : Word) :
    (d.push x).items = d.items ++ [x.toNat % 2 ^ d.width] := by
  unfold items
  rw [len_push_rl, List.range_succ, List.map_append]
  congr 1
  · apply List.map_congr_left
    intro i hi
    rw [getRaw_push_lt_rl h x i (by simpa using hi)]
  · simp [getRaw_push_eq_rl h x]

theorem extend_spec_rl {d : IntVec} (h : d.WF) (xs : List Word) :
    (d.extend xs).WF ∧ (d.extend xs).width = d.width ∧ (d.extend xs).len = d.len + xs.length ∧
    (d.extend xs).items = d.items ++ xs.map (fun x => x.toNat % 2 ^ d.width) := by
  induction xs generalizing d with
  | nil => simp [extend, h]
  | cons x xs ih =>
    obtain ⟨a, b, c, e⟩ := ih (push_WF_rl h x)
    refine ⟨a, b, ?_, ?_⟩
    · show ((d.push x).extend xs).len = _
      rw [c, len_push_rl, List.length_cons]; omega
    · show ((d.push x).extend xs).items = _
      rw [e, items_push_rl h x, width_push_rl]; simp

theorem pushN_spec_rl {d : IntVec} (h : d.WF) (x : Word) (n : Nat) :
    let r := (List.range n).foldl (fun u _ => u.push x) d
    r.WF ∧ r.width = d.width ∧ r.len = d.len + n ∧
    r.items = d.items ++ List.replicate n (x.toNat % 2 ^ d.width) := by
  induction n with
  | zero => simp [h]
  | succ n ih =>
    obtain ⟨a, b, c, e⟩ := ih
    simp only [List.range_succ, List.foldl_append, List.foldl_cons, List.foldl_nil]
    refine ⟨push_WF_rl a x, by rw [width_push_rl, b], by rw [len_push_rl, c]; omega, ?_⟩
    rw [items_push_rl a x, e, b, List.replicate_succ', List.append_assoc]

/-- growing `resize` pads with the value -/
theorem resize_grow_spec {d : IntVec} (h : d.WF) (n : Nat) (x : Word) (hn : d.len ≤ n) :
    (d.resize n x).WF ∧ (d.resize n x).width = d.width ∧ (d.resize n x).len = n ∧
    (d.resize n x).items = d.items ++ List.replicate (n - d.len) (x.toNat % 2 ^ d.width) := by
  unfold resize
  by_cases hgt : n > d.len
  · rw [if_pos hgt]
    obtain ⟨a, b, c, e⟩ := pushN_spec_rl h x (n - d.len)
    exact ⟨a, b, by rw [c]; omega, e⟩
  · rw [if_neg hgt, if_neg (by omega)]
    have : n - d.len = 0 := by omega
    simp [h, this]; omega

end IntVec

/-! ## 6. the builder -/

namespace RLBuilder

/-- `encode` appends exactly the units of the code -/
theorem encode_spec {d : IntVec} (h : d.WF) (hw : d.width = 4) (v : Nat) (hv : v < 2 ^ 64) :
    (encode d v).WF ∧ (encode d v).width = 4 ∧ (encode d v).len = d.len + codeLen v ∧
    (encode d v).items = d.items ++ encodeUnits 23 v := by
  obtain ⟨a, b, c, e⟩ := IntVec.extend_spec_rl h ((encodeUnits 23 v).map (BitVec.ofNat 64))
  refine ⟨a, by rw [← hw]; exact b, ?_, ?_⟩
  · show (d.extend _).len = _
    rw [c, List.length_map, encodeUnits_length v hv]
  · show (d.extend _).items = _
    rw [e, hw, List.map_map]
    congr 1
    have hlt := encodeUnits_lt_16 v hv
    generalize encodeUnits 23 v = us at hlt
    induction us with
    | nil => rfl
    | cons u us ih =>
      have hu := hlt u (by simp)
      simp only [List.map_cons, Function.comp_apply, BitVec.toNat_ofNat]
      rw [ih (fun x hx => hlt x (by simp [hx]))]
      congr 1; omega

/-- item 2 in the form "what `encode` wrote, `decode` reads": for a well-formed width-4 vector `d`, any
vector whose data is `encode d x` followed by anything decodes `x` at offset `d.len` -/
theorem decode_after_encode (m : Mode) (v : RL) {d : IntVec} (h : d.WF) (hw : d.width = 4) (x : Nat)
    (hx : x < 2 ^ 64) (rest : List Nat) (hv : v.data.items = (encode d x).items ++ rest) :
    v.decode m d.len = ok (x, d.len + codeLen x) := by
  obtain ⟨_, _, _, e⟩ := encode_spec h hw x hx
  apply RL.decode_encode m v d.len x rest hx
  rw [hv, e, List.append_assoc, List.drop_left' (IntVec.items_length_rl d)]

/-- representation invariant of the builder between calls of `try_set` and of the repaired `set_len`
(the `set_len` as first written broke it, see F9) -/
structure Inv (b : RLBuilder) : Prop where
  /-- the pending run starts at or after the end of the last flushed run -/
  tail_le : b.tail ≤ b.run.1
  /-- the pending run (possibly empty) ends at `len` -/
  run_end : b.run.1 + b.run.2 = b.len
  /-- `ones` = ones of the flushed runs + the pending run … -/
  run_le_ones : b.run.2 ≤ b.ones
  /-- … and the flushed ones all lie before `tail` -/
  flushed_le : b.ones - b.run.2 ≤ b.tail
  len_lt : b.len < U64
  /-- the data never extends past the last block that has a sample -/
  data_le : b.data.len ≤ 64 * b.samples.size
  data_wf : b.data.WF
  data_w : b.data.width = 4

theorem Inv.ones_le {b : RLBuilder} (h : b.Inv) : b.ones ≤ b.len := by
  have := h.tail_le; have := h.run_end; have := h.run_le_ones; have := h.flushed_le; omega

theorem inv_empty : ({} : RLBuilder).Inv := by
  refine ⟨by decide, by decide, by decide, by decide, by decide, by decide, by decide, by decide⟩

/-- `flush` never fails under the invariant (in both modes) and re-establishes it with an empty pending
run positioned at `len` -/
theorem flush_spec (m : Mode) {b : RLBuilder} (h : b.Inv) :
    ∃ b', b.flush m = ok b' ∧ b'.Inv ∧ b'.len = b.len ∧ b'.ones = b.ones ∧ b'.run = (b.len, 0) := by
  have hol := h.ones_le
  obtain ⟨h1, h2, h3, h4, h5, h6, h7, h8⟩ := h
  unfold flush
  by_cases hr : b.run.2 = 0
  · rw [if_pos hr]
    refine ⟨b, rfl, ⟨h1, h2, h3, h4, h5, h6, h7, h8⟩, rfl, rfl, ?_⟩
    apply Prod.ext <;> simp <;> omega
  · rw [if_neg hr, subM_ok h1]
    simp only [bind_ok, pure_eq]
    generalize hb1 : (if b.data.len + (codeLen (b.run.1 - b.tail) + codeLen (b.run.2 - 1)) > b.samples.size * 64 then
        ({ b with data := b.data.resize (b.samples.size * 64) 0,
                  samples := b.samples.push (b.ones - b.run.2, b.tail) } : RLBuilder) else b) = b1
    have hc1 := codeLen_le (b.run.1 - b.tail)
    have hc2 := codeLen_le (b.run.2 - 1)
    have hb1p : b1.data.WF ∧ b1.data.width = 4 ∧
        b1.data.len + (codeLen (b.run.1 - b.tail) + codeLen (b.run.2 - 1)) ≤ 64 * b1.samples.size ∧
        b1.len = b.len ∧ b1.ones = b.ones := by
      rw [← hb1]; split
      · obtain ⟨a, b', c, _⟩ := IntVec.resize_grow_spec h7 (b.samples.size * 64) 0 (by omega)
        refine ⟨a, by rw [← h8]; exact b', ?_, rfl, rfl⟩
        simp only [Array.size_push]; rw [c]; omega
      · exact ⟨h7, h8, by omega, rfl, rfl⟩
    obtain ⟨w1, w2, w3, w4, w5⟩ := hb1p
    have hg : b.run.1 - b.tail < 2 ^ 64 := by rw [← U64_eq]; omega
    have hl : b.run.2 - 1 < 2 ^ 64 := by rw [← U64_eq]; omega
    obtain ⟨e1, e2, e3, _⟩ := encode_spec w1 w2 _ hg
    obtain ⟨f1, f2, f3, _⟩ := encode_spec e1 e2 _ hl
    refine ⟨_, rfl, ⟨?_, ?_, ?_, ?_, ?_, ?_, f1, f2⟩, w4, w5, rfl⟩
    · show b.run.1 + b.run.2 ≤ b.len; omega
    · show b.len + 0 = b1.len; omega
    · show 0 ≤ b1.ones; omega
    · show b1.ones - 0 ≤ b.run.1 + b.run.2; omega
    · show b1.len < U64; omega
    · show (encode (encode b1.data _) _).len ≤ 64 * b1.samples.size
      rw [f3, e3]; omega

theorem flush_inv (m : Mode) {b b' : RLBuilder} (h : b.Inv) (hf : b.flush m = ok b') : b'.Inv := by
  obtain ⟨b'', e, i, _⟩ := flush_spec m h
  rw [e] at hf; injection hf with hf; subst hf; exact i

/-- `try_set` under the invariant: rejected exactly when the run starts before `len` or would end past
`usize::MAX`; otherwise it succeeds in both modes and the invariant is preserved.
(`len < 2^64`: the argument is a `usize`.) -/
theorem trySet_spec (m : Mode) {b : RLBuilder} (h : b.Inv) (start len : Nat) (hlen : len < U64) :
    (start < b.len ∨ U64 - 1 - len < start → b.trySet m start len = fault (.err .other)) ∧
    (¬ (start < b.len ∨ U64 - 1 - len < start) →
      ∃ b', b.trySet m start len = ok b' ∧ b'.Inv ∧
        (len = 0 → b' = b) ∧
        (len ≠ 0 → b'.len = start + len ∧ b'.ones = b.ones + len ∧
          b'.run = (if start = b.len then (b.run.1, b.run.2 + len) else (start, len)))) := by
  have hol := h.ones_le
  constructor
  · intro hc
    unfold trySet
    by_cases h1 : start < b.len
    · rw [if_pos h1]
    · rw [if_neg h1, if_pos (by omega)]
  · intro hc
    unfold trySet
    rw [if_neg (by omega), if_neg (by omega)]
    unfold setRunUnchecked
    by_cases hz : len = 0
    · rw [if_pos hz]; exact ⟨b, rfl, h, fun _ => rfl, fun c => absurd hz c⟩
    rw [if_neg hz]
    by_cases hs : start = b.len
    · rw [if_pos hs]
      obtain ⟨h1, h2, h3, h4, h5, h6, h7, h8⟩ := h
      rw [addM_ok (by omega), bind_ok, addM_ok (by omega), bind_ok, addM_ok (by omega), bind_ok]
      refine ⟨_, rfl, ⟨h1, ?_, ?_, ?_, ?_, h6, h7, h8⟩, fun c => absurd c hz, fun _ => ⟨by simp [hs], rfl, by simp [hs]⟩⟩
      · show b.run.1 + (b.run.2 + len) = b.len + len; omega
      · show b.run.2 + len ≤ b.ones + len; omega
      · show b.ones + len - (b.run.2 + len) ≤ b.tail; omega
      · show b.len + len < U64; omega
    · rw [if_neg hs]
      obtain ⟨b', e, i, l1, l2, l3⟩ := flush_spec m h
      have r1 : b'.run.1 = b.len := by rw [l3]
      have r2 : b'.run.2 = 0 := by rw [l3]
      rw [e, bind_ok]
      obtain ⟨h1, h2, h3, h4, h5, h6, h7, h8⟩ := i
      rw [addM_ok (by omega), bind_ok, addM_ok (by omega), bind_ok]
      refine ⟨_, rfl, ⟨?_, rfl, ?_, ?_, ?_, h6, h7, h8⟩, fun c => absurd c hz,
        fun _ => ⟨rfl, by simp [l2], by simp [hs]⟩⟩
      · show b'.tail ≤ start; omega
      · show len ≤ b'.ones + len; omega
      · show b'.ones + len - len ≤ b'.tail; omega
      · show start + len < U64; omega

theorem trySet_inv (m : Mode) {b b' : RLBuilder} (h : b.Inv) (start len : Nat) (hlen : len < U64)
    (hs : b.trySet m start len = ok b') : b'.Inv := by
  obtain ⟨f, g⟩ := trySet_spec m h start len hlen
  by_cases hc : start < b.len ∨ U64 - 1 - len < start
  · rw [f hc] at hs; cases hs
  · obtain ⟨b'', e, i, _⟩ := g hc
    rw [e] at hs; injection hs with hs; subst hs; exact i

/-- `reject_unchanged`: a rejected call returns `Err` and (by construction: the builder is passed by
value through `Outcome`) leaves no modified builder behind; it is rejected exactly in the two documented
cases -/
theorem trySet_fault_iff (m : Mode) {b : RLBuilder} (h : b.Inv) (start len : Nat) (hlen : len < U64) :
    (∃ e, b.trySet m start len = fault e) ↔ (start < b.len ∨ U64 - 1 - len < start) := by
  obtain ⟨f, g⟩ := trySet_spec m h start len hlen
  constructor
  · intro ⟨e, he⟩
    by_cases hc : start < b.len ∨ U64 - 1 - len < start
    · exact hc
    · obtain ⟨b', e', _⟩ := g hc
      rw [e'] at he; cases he
  · intro hc; exact ⟨_, f hc⟩

theorem trySet_fault_kind (m : Mode) {b : RLBuilder} (h : b.Inv) (start len : Nat) (hlen : len < U64)
    (e : Fault) (he : b.trySet m start len = fault e) : e = .err .other := by
  obtain ⟨f, _⟩ := trySet_spec m h start len hlen
  have hc := (trySet_fault_iff m h start len hlen).1 ⟨e, he⟩
  rw [f hc] at he; injection he with he; exact he.symm

/-- `set_len` **as first written** (`setLenOld`, finding F9) does not preserve the invariant: it flushes
(which parks the empty pending run at the old `len`) and then moves `len` without moving the pending run. -/
theorem setLen_breaks_inv (m : Mode) {b : RLBuilder} (h : b.Inv) (n : Nat) (hn : b.len < n) :
    ∃ b', b.setLenOld m n = ok b' ∧ b'.len = n ∧ b'.run = (b.len, 0) ∧ b'.run.1 + b'.run.2 ≠ b'.len ∧
      ¬ b'.Inv := by
  obtain ⟨b1, e, i, l1, l2, l3⟩ := flush_spec m h
  unfold setLenOld
  rw [if_pos hn, e]
  refine ⟨_, rfl, rfl, l3, ?_, ?_⟩
  · show b1.run.1 + b1.run.2 ≠ n; rw [l3]; simp; omega
  · intro hi
    have := hi.run_end
    change b1.run.1 + b1.run.2 = n at this
    rw [l3] at this; simp at this; omega

/-- the repaired `set_len` (the model's `setLen`) **preserves the invariant** and never faults under it,
in both modes (`n < 2^64`: the argument is a `usize`); it never decreases `len`, keeps `ones`, and when
it extends the vector the empty pending run is parked at the new length -/
theorem setLen_spec (m : Mode) {b : RLBuilder} (h : b.Inv) (n : Nat) (hn : n < U64) :
    ∃ b', b.setLen m n = ok b' ∧ b'.Inv ∧ b'.len = max b.len n ∧ b'.ones = b.ones ∧
      (n ≤ b.len → b' = b) ∧ (b.len < n → b'.run = (n, 0)) := by
  unfold setLen
  by_cases hc : n > b.len
  · obtain ⟨b1, e, i, l1, l2, l3⟩ := flush_spec m h
    have r1 : b1.run.1 = b.len := by rw [l3]
    have r2 : b1.run.2 = 0 := by rw [l3]
    obtain ⟨h1, h2, h3, h4, h5, h6, h7, h8⟩ := i
    rw [if_pos hc, e]
    refine ⟨_, rfl, ⟨?_, ?_, ?_, ?_, hn, h6, h7, h8⟩, ?_, l2, fun c => absurd c (by omega), fun _ => rfl⟩
    · show b1.tail ≤ n; omega
    · show n + 0 = n; omega
    · show 0 ≤ b1.ones; omega
    · show b1.ones - 0 ≤ b1.tail; omega
    · show n = max b.len n; omega
  · rw [if_neg hc]
    exact ⟨b, rfl, h, by omega, rfl, fun _ => rfl, fun c => absurd c hc⟩

theorem setLen_inv (m : Mode) {b b' : RLBuilder} (h : b.Inv) (n : Nat) (hn : n < U64)
    (hs : b.setLen m n = ok b') : b'.Inv := by
  obtain ⟨b'', e, i, _⟩ := setLen_spec m h n hn
  rw [e] at hs; injection hs with hs; subst hs; exact i

/-- `set_len` never faults under the invariant -/
theorem setLen_no_fault (m : Mode) {b : RLBuilder} (h : b.Inv) (n : Nat) (hn : n < U64) (e : Fault) :
    b.setLen m n ≠ fault e := by
  obtain ⟨b', e', _⟩ := setLen_spec m h n hn
  rw [e']; intro hc; cases hc

/-- **Defect F9** (code as first written). From the empty builder, the old `set_len(10)` followed by
`try_set(10, 5)` is accepted and produces the pending run `(0, 5)` instead of `(10, 5)`: the new run is
*merged* with the stale empty run parked at position 0, because `start == self.len` is taken to mean
"adjacent to the pending run". -/
theorem F9_setLen_then_adjacent_run :
    (do let b ← ({} : RLBuilder).setLenOld .checked 10
        let b ← b.trySet .checked 10 5
        return (b.run, b.len, b.ones, b.tail)) = ok ((0, 5), 15, 5, 0) := by decide

/-- **F9 repaired**: with the model's `setLen` the same two calls give `run = (10, 5)`, `len = 15`,
`ones = 5` -/
theorem F9_fixed :
    (do let b ← ({} : RLBuilder).setLen .checked 10
        let b ← b.trySet .checked 10 5
        return (b.run, b.len, b.ones, b.tail)) = ok ((10, 5), 15, 5, 0) ∧
    (do let b ← ({} : RLBuilder).setLen .wrapping 10
        let b ← b.trySet .wrapping 10 5
        return (b.run, b.len, b.ones, b.tail)) = ok ((10, 5), 15, 5, 0) := by decide

/-- the same two calls in the other order of magnitude: without the `set_len` the run is right -/
theorem F9_reference :
    (do let b ← ({} : RLBuilder).trySet .checked 10 5
        return (b.run, b.len, b.ones, b.tail)) = ok ((10, 5), 15, 5, 0) := by decide

/-- F9, what reached the encoded data with the old `set_len`: gap 0 and length 5 (units `[0, 4]`), i.e. the
bits 0..4 are set and the bits 10..14 are not, although `len = 15` and `ones = 5` are those of the intended
vector … -/
theorem F9_encoded :
    (do let b ← ({} : RLBuilder).setLenOld .checked 10
        let b ← b.trySet .checked 10 5
        let b ← b.flush .checked
        return (b.data.items, b.samples.toList, b.len, b.ones)) = ok ([0, 4], [(0, 0)], 15, 5) := by decide

/-- … whereas the intended run `(10, 5)` is encoded as gap 10 = `[2+8, 1]`, length-1 = `[4]` -/
theorem F9_encoded_reference :
    (do let b ← ({} : RLBuilder).trySet .checked 10 5
        let b ← b.flush .checked
        return (b.data.items, b.samples.toList, b.len, b.ones)) = ok ([10, 1, 4], [(0, 0)], 15, 5) := by decide

/-- … and that is what the repaired `set_len` now produces -/
theorem F9_encoded_fixed :
    (do let b ← ({} : RLBuilder).setLen .checked 10
        let b ← b.trySet .checked 10 5
        let b ← b.flush .checked
        return (b.data.items, b.samples.toList, b.len, b.ones)) = ok ([10, 1, 4], [(0, 0)], 15, 5) := by decide

end RLBuilder

/-! ## 4. `SampleIndex` : `range` contract and `new` -/

namespace IntVec

theorem set_spec {d : IntVec} (h : d.WF) (i : Nat) (hi : i < d.len) (x : Word) :
    ∃ d', d.set i x = ok d' ∧ d'.WF ∧ d'.len = d.len ∧ d'.width = d.width ∧
      (d'.getRaw i).toNat = x.toNat % 2 ^ d.width ∧
      ∀ j, j < d.len → j ≠ i → d'.getRaw j = d.getRaw j := by
  obtain ⟨h1, h2, h3, h4⟩ := h
  have hr : i * d.width + d.width ≤ d.data.len := by
    have : (i + 1) * d.width ≤ d.len * d.width := Nat.mul_le_mul_right _ hi
    rw [Nat.succ_mul] at this; omega
  refine ⟨{ d with data := d.data.setInt (i * d.width) x d.width }, by simp [set, hi], ?_, rfl, rfl, ?_, ?_⟩
  · exact ⟨h1, h2, by show (d.data.setInt _ _ _).len = _; rw [RawVec.len_setInt]; exact h3,
      RawVec.setInt_WF h4 _ _ _ h1 h2 hr⟩
  · apply word_eq_mod
    intro k hk
    show (RawVec.int (d.data.setInt (i * d.width) x d.width) (i * d.width) d.width).getLsbD k = _
    rw [RawVec.int_getLsbD _ _ _ h1 h2]
    by_cases hkw : k < d.width
    · rw [RawVec.getBit_setInt h4 _ _ _ h1 h2 hr, if_pos (by omega)]
      simp [hkw]
    · simp [hkw]
  · intro j hj hne
    apply BitVec.eq_of_getLsbD_eq
    intro k hk
    show (RawVec.int (d.data.setInt (i * d.width) x d.width) (j * d.width) d.width).getLsbD k =
      (d.data.int (j * d.width) d.width).getLsbD k
    rw [RawVec.int_getLsbD _ _ _ h1 h2, RawVec.int_getLsbD _ _ _ h1 h2]
    by_cases hkw : k < d.width
    · rw [RawVec.getBit_setInt h4 _ _ _ h1 h2 hr, if_neg]
      rcases Nat.lt_or_gt_of_ne hne with hlt | hgt
      · have : (j + 1) * d.width ≤ i * d.width := Nat.mul_le_mul_right _ hlt
        rw [Nat.succ_mul] at this; omega
      · have : (i + 1) * d.width ≤ j * d.width := Nat.mul_le_mul_right _ hgt
        rw [Nat.succ_mul] at this; omega
    · simp [hkw]

theorem withLen_eq_pushN (n w : Nat) (x : Word) :
    (⟨n, w, (List.range n).foldl (fun d _ => d.pushInt x w) RawVec.empty⟩ : IntVec) =
      (List.range n).foldl (fun u _ => u.push x) ⟨0, w, RawVec.empty⟩ := by
  induction n with
  | zero => rfl
  | succ n ih =>
    simp only [List.range_succ, List.foldl_append, List.foldl_cons, List.foldl_nil]
    rw [← ih]; rfl

theorem withLen_spec_rl (n w : Nat) (x : Word) (h1 : 1 ≤ w) (h2 : w ≤ 64) :
    ∃ d, withLen n w x = ok d ∧ d.WF ∧ d.len = n ∧ d.width = w ∧
      d.items = List.replicate n (x.toNat % 2 ^ w) := by
  have h0 : (⟨0, w, RawVec.empty⟩ : IntVec).WF := ⟨h1, h2, by simp [RawVec.empty], RawVec.empty_WF⟩
  obtain ⟨a, b, c, e⟩ := pushN_spec_rl h0 x n
  refine ⟨_, by unfold withLen; rw [if_neg (by omega)], ?_, ?_, ?_, ?_⟩
  · rw [withLen_eq_pushN]; exact a
  · rfl
  · rfl
  · rw [withLen_eq_pushN, e]; simp [items]

theorem getRaw_of_items {d : IntVec} {i : Nat} (hi : i < d.len) {c : Nat}
    (h : d.items = List.replicate d.len c) : (d.getRaw i).toNat = c := by
  have hl : i < d.items.length := by rw [items_length_rl]; exact hi
  have := items_getElem_rl d i hl
  rw [← this]; simp [h]

end IntVec

namespace SampleIndex

/-- `k` is the index of the last element of `values` that is `≤ T` (meaningful with duplicates: of several
equal values `≤ T` it is the last one) -/
def LastLE (values : List Nat) (T k : Nat) : Prop :=
  ∃ hk : k < values.length, values[k] ≤ T ∧ ∀ j (hj : j < values.length), k < j → T < values[j]

/-- index-based strict monotonicity (what `SampleIndex::new` asserted as first written, finding F10) -/
def StrictInc (values : List Nat) : Prop :=
  ∀ i j (_ : i < j) (hj : j < values.length), values[i]'(by omega) < values[j]

/-- index-based monotonicity: non-decreasing values, duplicates allowed (what the repaired
`SampleIndex::new` asserts) -/
def NonDec (values : List Nat) : Prop :=
  ∀ i j (_ : i ≤ j) (hj : j < values.length), values[i]'(by omega) ≤ values[j]

theorem strictInc_iff_pairwise (values : List Nat) : StrictInc values ↔ List.Pairwise (· < ·) values := by
  rw [List.pairwise_iff_getElem]
  constructor
  · intro h i j hi hj hij; exact h i j hij hj
  · intro h i j hij hj; exact h i j (by omega) hj hij

theorem nonDec_iff_pairwise (values : List Nat) : NonDec values ↔ List.Pairwise (· ≤ ·) values := by
  rw [List.pairwise_iff_getElem]
  constructor
  · intro h i j hi hj hij; exact h i j (by omega) hj
  · intro h i j hij hj
    rcases Nat.eq_or_lt_of_le hij with heq | hlt
    · subst heq; exact Nat.le_refl _
    · exact h i j (by omega) hj hlt

theorem StrictInc.nonDec {values : List Nat} (h : StrictInc values) : NonDec values := by
  intro i j hij hj
  rcases Nat.eq_or_lt_of_le hij with heq | hlt
  · subst heq; exact Nat.le_refl _
  · exact Nat.le_of_lt (h i j hlt hj)

/-- what `new` establishes and `range` relies on: sample `i ≥ 1` holds the index of the last value
`≤ i * divisor`; sample 0 (which `new` never writes: it stays 0, the index of the first value, which is 0)
holds the index of *a* value `≤ 0` — with duplicates of the value 0 it is the first of them, not the last
(see `Valid.sample_strict` for the strictly increasing case); the samples cover `0 .. univ-1` -/
structure Valid (s : SampleIndex) (values : List Nat) (univ : Nat) : Prop where
  numValues : s.numValues = values.length
  numValues_lt : values.length < U64
  divisor_pos : 1 ≤ s.divisor
  len_eq : s.samples.len = (univ - 1) / s.divisor + 1
  sample_zero : ∃ hk : (s.samples.getRaw 0).toNat < values.length, values[(s.samples.getRaw 0).toNat] ≤ 0
  sample : ∀ i, 1 ≤ i → i < s.samples.len → LastLE values (i * s.divisor) (s.samples.getRaw i).toNat

/-- every sample points to a value `≤ i * divisor` -/
theorem Valid.sample_le {s : SampleIndex} {values : List Nat} {univ : Nat} (hv : s.Valid values univ)
    (i : Nat) (hi : i < s.samples.len) :
    ∃ hk : (s.samples.getRaw i).toNat < values.length, values[(s.samples.getRaw i).toNat] ≤ i * s.divisor := by
  by_cases h0 : i = 0
  · subst h0
    obtain ⟨hk, hle⟩ := hv.sample_zero
    exact ⟨hk, by omega⟩
  · obtain ⟨hk, hle, _⟩ := hv.sample i (by omega) hi
    exact ⟨hk, hle⟩

/-- on strictly increasing values (the case of the code as first written) *every* sample, including sample
0, is the index of the last value `≤ i * divisor` -/
theorem Valid.sample_strict {s : SampleIndex} {values : List Nat} {univ : Nat} (hv : s.Valid values univ)
    (hs : StrictInc values) (i : Nat) (hi : i < s.samples.len) :
    LastLE values (i * s.divisor) (s.samples.getRaw i).toNat := by
  by_cases h0 : i = 0
  · subst h0
    obtain ⟨hk, hle⟩ := hv.sample_zero
    generalize (s.samples.getRaw 0).toNat = k at *
    have hk0 : k = 0 := by
      rcases Nat.eq_zero_or_pos k with h | h
      · exact h
      · have := hs 0 k h hk; omega
    subst hk0
    refine ⟨hk, by omega, ?_⟩
    intro j hj hj0
    have := hs 0 j hj0 hj
    omega
  · exact hv.sample i (by omega) hi

/-- the contract in the doc comment of `range`, which `block_for` relies on: a non-empty index range
`lo..hi` with `values[lo] ≤ x` and `x < values[hi]` (or `hi` = number of values) -/
theorem range_spec {s : SampleIndex} {values : List Nat} {univ : Nat} (hv : s.Valid values univ)
    (x : Nat) (hx : x < univ) :
    ∃ lo hi, s.range x = ok (lo, hi) ∧ lo < hi ∧ hi ≤ values.length ∧
      (∃ h : lo < values.length, values[lo] ≤ x) ∧
      (hi = values.length ∨ ∃ h : hi < values.length, x < values[hi]) := by
  have hsle := hv.sample_le
  obtain ⟨v1, v2, v3, v4, _, v5⟩ := hv
  generalize hd : s.divisor = d at *
  have ho : x / d < s.samples.len := by
    have : x / d ≤ (univ - 1) / d := Nat.div_le_div_right (by omega)
    omega
  have hlow : x / d * d ≤ x := Nat.div_mul_le_self _ _
  have hup : x < (x / d + 1) * d := by
    have := Nat.lt_mul_div_succ x (show 0 < d by omega)
    rw [Nat.mul_comm] at this; exact this
  have hstep : (x / d + 1) * d = x / d * d + d := Nat.succ_mul _ _
  obtain ⟨k0lt, k0le⟩ := hsle _ ho
  unfold range
  rw [hd, if_neg (by omega)]
  simp only [IntVec.getOr_def, if_pos ho]
  by_cases h1 : x / d + 1 < s.samples.len
  · obtain ⟨k1lt, k1le, k1gt⟩ := v5 (x / d + 1) (Nat.le_add_left 1 _) h1
    simp only [if_pos h1, v1, if_pos k1lt]
    generalize (s.samples.getRaw (x / d)).toNat = k0 at *
    generalize (s.samples.getRaw (x / d + 1)).toNat = k1 at *
    refine ⟨k0, k1 + 1, rfl, ?_, by omega, ⟨k0lt, by omega⟩, ?_⟩
    · rcases Nat.lt_or_ge k1 k0 with hlt | hge
      · have := k1gt k0 k0lt hlt; omega
      · omega
    · by_cases hlast : k1 + 1 = values.length
      · exact Or.inl hlast
      · right
        have hh : k1 + 1 < values.length := by omega
        exact ⟨hh, by have := k1gt (k1 + 1) hh (by omega); omega⟩
  · have : (BitVec.ofNat 64 values.length).toNat = values.length := by
      rw [BitVec.toNat_ofNat]; exact Nat.mod_eq_of_lt (by rw [← U64_eq]; exact v2)
    simp only [if_neg h1, v1, this, Nat.lt_irrefl, if_false]
    exact ⟨_, _, rfl, k0lt, Nat.le_refl _, ⟨k0lt, by omega⟩, Or.inl rfl⟩

/-- the inner `while` of the repaired `new` on a **non-decreasing** list (duplicates allowed): never asserts,
never runs out of fuel, stops at the last value `≤ threshold` -/
theorem consume_spec {values : List Nat} (hs : NonDec values) (T : Nat) :
    ∀ (fuel offset : Nat) (ho : offset < values.length), values.length - (offset + 1) < fuel →
      ∃ o', ∃ ho' : o' < values.length,
        consume T fuel offset values[offset] (values.drop (offset + 1)) =
          ok (o', values[o'], values.drop (o' + 1)) ∧ offset ≤ o' ∧
        (∀ j (hj : j < values.length), offset < j → j ≤ o' → values[j] ≤ T) ∧
        (∀ hn : o' + 1 < values.length, T < values[o' + 1]) := by
  intro fuel
  induction fuel with
  | zero => intro offset ho hf; omega
  | succ fuel ih =>
    intro offset ho hf
    by_cases hend : offset + 1 < values.length
    · rw [List.drop_eq_getElem_cons hend, consume]
      by_cases hgt : values[offset + 1] > T
      · rw [if_pos hgt]
        exact ⟨offset, ho, by rw [List.drop_eq_getElem_cons hend], Nat.le_refl _,
          fun j hj h1 h2 => by omega, fun _ => hgt⟩
      · rw [if_neg hgt, if_pos (hs offset (offset + 1) (by omega) hend)]
        obtain ⟨o', ho', e, h1, h2, h3⟩ := ih (offset + 1) hend (by omega)
        refine ⟨o', ho', e, by omega, ?_, h3⟩
        intro j hj hj1 hj2
        by_cases hj' : j = offset + 1
        · subst hj'; omega
        · exact h2 j hj (by omega) hj2
    · rw [List.drop_eq_nil_of_le (show values.length ≤ offset + 1 by omega)]
      refine ⟨offset, ho, ?_, Nat.le_refl _, fun j hj h1 h2 => by omega, fun hn => by omega⟩
      simp [consume]; omega

/-- the strict case as a corollary -/
theorem consume_spec_strict {values : List Nat} (hs : StrictInc values) (T : Nat)
    (fuel offset : Nat) (ho : offset < values.length) (hf : values.length - (offset + 1) < fuel) :
    ∃ o', ∃ ho' : o' < values.length,
      consume T fuel offset values[offset] (values.drop (offset + 1)) =
        ok (o', values[o'], values.drop (o' + 1)) ∧ offset ≤ o' ∧
      (∀ j (hj : j < values.length), offset < j → j ≤ o' → values[j] ≤ T) ∧
      (∀ hn : o' + 1 < values.length, T < values[o' + 1]) :=
  consume_spec hs.nonDec T fuel offset ho hf

/-- on strictly increasing input the loop as first written (`consumeOld`, strict assertion) and the repaired
loop agree: the repair only *adds* accepted inputs -/
theorem consumeOld_eq_consume_of_strict {values : List Nat} (hs : StrictInc values) (T : Nat) :
    ∀ (fuel offset : Nat) (ho : offset < values.length),
      consumeOld T fuel offset values[offset] (values.drop (offset + 1)) =
        consume T fuel offset values[offset] (values.drop (offset + 1)) := by
  intro fuel
  induction fuel with
  | zero => intro offset ho; rfl
  | succ fuel ih =>
    intro offset ho
    by_cases hend : offset + 1 < values.length
    · rw [List.drop_eq_getElem_cons hend, consume, consumeOld]
      by_cases hgt : values[offset + 1] > T
      · rw [if_pos hgt, if_pos hgt]
      · have hlt := hs offset (offset + 1) (by omega) hend
        rw [if_neg hgt, if_neg hgt, if_pos hlt, if_pos (Nat.le_of_lt hlt)]
        exact ih (offset + 1) hend
    · rw [List.drop_eq_nil_of_le (show values.length ≤ offset + 1 by omega)]
      simp [consume, consumeOld]

/-- **F10, minimal witness**: a duplicate value below the threshold made the loop as first written panic on
its strict-monotonicity assertion; the repaired loop consumes it -/
theorem F10_consume_duplicate :
    consumeOld 5 3 0 0 [0, 7] = fault (.panic .assert) ∧
    consume 5 3 0 0 [0, 7] = ok (1, 0, [7]) := by decide

/-- a *decreasing* pair is still rejected by the repaired loop -/
theorem consume_decreasing_panics : consume 5 3 0 3 [2, 7] = fault (.panic .assert) := by decide

/-- the outer loop of `new`: samples `i, i+1, …, ns-1` are set to the index of the last value
`≤ sample * divisor`; the samples before `i` are left alone -/
theorem fill_spec (m : Mode) {values : List Nat} (hs : NonDec values) (d ns w : Nat)
    (hw : values.length - 1 < 2 ^ w) (hw64 : w ≤ 64) (hmul : (ns - 1) * d < U64) :
    ∀ (n i offset : Nat) (smp : IntVec) (ho : offset < values.length), i + n = ns →
      values[offset] ≤ i * d → smp.WF → smp.len = ns → smp.width = w →
      ∃ smp' o', ∃ ho' : o' < values.length,
        fill m d (List.range' i n) offset values[offset] (values.drop (offset + 1)) smp =
          ok (smp', values[o']) ∧ smp'.len = ns ∧
        (∀ t, t < i → smp'.getRaw t = smp.getRaw t) ∧
        ∀ t, i ≤ t → t < ns → LastLE values (t * d) (smp'.getRaw t).toNat := by
  intro n
  induction n with
  | zero =>
    intro i offset smp ho hi hle hwf hlen hwid
    refine ⟨smp, offset, ho, rfl, hlen, fun _ _ => rfl, ?_⟩
    intro t ht ht'; omega
  | succ n ih =>
    intro i offset smp ho hi hle hwf hlen hwid
    rw [List.range'_succ, fill]
    have hid : i * d ≤ (ns - 1) * d := Nat.mul_le_mul_right _ (by omega)
    rw [mulM_ok (by omega)]
    simp only [bind_ok]
    obtain ⟨o', ho', e, h1, h2, h3⟩ := consume_spec hs (i * d) ((values.drop (offset + 1)).length + 1)
      offset ho (by rw [List.length_drop]; omega)
    rw [e]
    simp only [bind_ok]
    obtain ⟨smp', e', s1, s2, s3, s4, s5⟩ := IntVec.set_spec hwf i (by omega) (BitVec.ofNat 64 o')
    rw [e']
    simp only [bind_ok]
    have hpw : 2 ^ w ≤ 2 ^ 64 := Nat.pow_le_pow_right (by omega) hw64
    have ho'' : (BitVec.ofNat 64 o').toNat % 2 ^ smp.width = o' := by
      rw [BitVec.toNat_ofNat, Nat.mod_eq_of_lt (show o' < 2 ^ 64 by omega), hwid]
      exact Nat.mod_eq_of_lt (by omega)
    have hle' : values[o'] ≤ i * d := by
      rcases Nat.eq_or_lt_of_le h1 with heq | hlt
      · subst heq; exact hle
      · exact h2 o' ho' hlt (Nat.le_refl _)
    have hstep : (i + 1) * d = i * d + d := Nat.succ_mul _ _
    obtain ⟨smp'', o'', ho2, e2, l2, q2, p2⟩ := ih (i + 1) o' smp' ho' (by omega) (by omega) s1
      (by omega) (by rw [s3, hwid])
    refine ⟨smp'', o'', ho2, e2, l2, ?_, ?_⟩
    · intro t ht
      rw [q2 t (by omega), s5 t (by omega) (by omega)]
    · intro t hti htn
      by_cases hte : t = i
      · subst hte
        rw [q2 t (by omega), s4, ho'']
        refine ⟨ho', hle', ?_⟩
        intro j hj hjo
        have a := h3 (by omega)
        have := hs (o' + 1) j (by omega) hj
        omega
      · exact p2 t (by omega) htn

/-- the repaired `SampleIndex::new` on a **non-decreasing** list (duplicates allowed) that starts with 0 and
stays below the universe: succeeds in both modes and establishes `Valid`; sample 0 is 0.  The only size
conditions left are that of the first rounding, `values.length + 8 < 2^64`, and that the universe size is
a `usize` (any `univ < 2^64`: nothing relates it to `2^63` any more). -/
theorem new_valid (m : Mode) (rest : List Nat) (univ : Nat)
    (hs : NonDec (0 :: rest)) (hall : ∀ v ∈ (0 :: rest), v < univ)
    (hno : NoOverflow (0 :: rest).length) (hu64 : univ < U64) :
    ∃ s, SampleIndex.new m (0 :: rest) univ = ok s ∧ s.Valid (0 :: rest) univ ∧
      (s.samples.getRaw 0).toNat = 0 := by
  generalize hvals : (0 :: rest) = values at *
  have hlen1 : 1 ≤ values.length := by rw [← hvals]; simp
  have hu : 1 ≤ univ := by have := hall 0 (by rw [← hvals]; simp); omega
  obtain ⟨p1, p2, p3, p4, p5⟩ := parameters_spec hlen1 hu
  have n1 : values.length + 8 < U64 := hno
  have hll : values.length - 1 < 2 ^ 64 := by rw [← U64_eq]; omega
  obtain ⟨b1, b2, b3, _⟩ := bitLen_spec_rl (values.length - 1) hll
  obtain ⟨smp, es, w1, w2, w3, w4⟩ := IntVec.withLen_spec_rl (nsam values.length univ)
    (bitLen (BitVec.ofNat 64 (values.length - 1))) 0 b1 b2
  have h0 : ∀ h : 0 < values.length, values[0] = 0 := by intro h; subst hvals; rfl
  have hfill := fill_spec m hs (div0 values.length univ) (nsam values.length univ) _ b3 b2 (by omega)
    (nsam values.length univ - 1) 1 0 smp hlen1 (by omega) (by rw [h0]; omega) w1 w2 w3
  obtain ⟨smp', o', ho', ef, l1, qf, pf⟩ := hfill
  have hrange : (List.range (nsam values.length univ)).drop 1 = List.range' 1 (nsam values.length univ - 1) := by
    rw [List.range_eq_range', List.drop_range']
  have hprev : values[o'] < univ := hall _ (List.getElem_mem _)
  have hz : (smp'.getRaw 0).toNat = 0 := by
    have z : ∀ k, (0 : Word).toNat % 2 ^ k = 0 := fun k => Nat.zero_mod _
    rw [qf 0 (by omega), IntVec.getRaw_of_items (by omega) (by rw [w4, w2]), z]
  refine ⟨⟨values.length, div0 values.length univ, smp'⟩, ?_,
    ⟨rfl, by omega, p1, by rw [l1]; show _ = (univ - 1) / div0 values.length univ + 1; omega, ?_, ?_⟩, hz⟩
  · subst hvals
    unfold SampleIndex.new
    simp only []
    rw [if_neg (by omega), parameters_ok m hlen1 hu n1]
    simp only [bind_ok]
    rw [es]
    simp only [bind_ok, ne_eq, not_true_eq_false, if_false]
    rw [hrange]
    rw [show fill m (div0 (0 :: rest).length univ) (List.range' 1 (nsam (0 :: rest).length univ - 1)) 0 0 rest smp =
      ok (smp', (0 :: rest)[o']) from ef]
    simp only [bind_ok]
    rw [if_pos hprev]; rfl
  · show ∃ hk : (smp'.getRaw 0).toNat < values.length, values[(smp'.getRaw 0).toNat] ≤ 0
    have hk : (smp'.getRaw 0).toNat < values.length := by rw [hz]; exact hlen1
    refine ⟨hk, ?_⟩
    have : values[(smp'.getRaw 0).toNat] = values[0] := by congr 1
    rw [this, h0]; exact Nat.le_refl _
  · intro i hi1 hi
    exact pf i hi1 (by rw [← l1]; exact hi)

/-- the strictly increasing case (all the code as first written accepted) as a corollary: then *every*
sample is the index of the last value `≤ i * divisor` -/
theorem new_valid_strict (m : Mode) (rest : List Nat) (univ : Nat)
    (hs : StrictInc (0 :: rest)) (hall : ∀ v ∈ (0 :: rest), v < univ)
    (hno : NoOverflow (0 :: rest).length) (hu64 : univ < U64) :
    ∃ s, SampleIndex.new m (0 :: rest) univ = ok s ∧ s.Valid (0 :: rest) univ ∧
      ∀ i, i < s.samples.len → LastLE (0 :: rest) (i * s.divisor) (s.samples.getRaw i).toNat := by
  obtain ⟨s, e, hv, _⟩ := new_valid m rest univ hs.nonDec hall hno hu64
  exact ⟨s, e, hv, fun i hi => hv.sample_strict hs i hi⟩

/-- `new` followed by `range`: for **non-decreasing** `values` with `values[0] = 0`, all `< univ`, the
contract holds for every `x` below the universe: `range s x = ok (lo, hi)`, `lo < hi ≤ values.length`,
`values[lo] ≤ x`, and `hi = values.length ∨ x < values[hi]` -/
theorem new_range (m : Mode) (rest : List Nat) (univ : Nat)
    (hs : NonDec (0 :: rest)) (hall : ∀ v ∈ (0 :: rest), v < univ)
    (hno : NoOverflow (0 :: rest).length) (hu64 : univ < U64) :
    ∃ s, SampleIndex.new m (0 :: rest) univ = ok s ∧ ∀ x, x < univ →
      ∃ lo hi, s.range x = ok (lo, hi) ∧ lo < hi ∧ hi ≤ (0 :: rest).length ∧
        (∃ h : lo < (0 :: rest).length, (0 :: rest)[lo] ≤ x) ∧
        (hi = (0 :: rest).length ∨ ∃ h : hi < (0 :: rest).length, x < (0 :: rest)[hi]) := by
  obtain ⟨s, e, hv, _⟩ := new_valid m rest univ hs hall hno hu64
  exact ⟨s, e, fun x hx => range_spec hv x hx⟩

/-- the strict version as a corollary -/
theorem new_range_strict (m : Mode) (rest : List Nat) (univ : Nat)
    (hs : StrictInc (0 :: rest)) (hall : ∀ v ∈ (0 :: rest), v < univ)
    (hno : NoOverflow (0 :: rest).length) (hu64 : univ < U64) :
    ∃ s, SampleIndex.new m (0 :: rest) univ = ok s ∧ ∀ x, x < univ →
      ∃ lo hi, s.range x = ok (lo, hi) ∧ lo < hi ∧ hi ≤ (0 :: rest).length ∧
        (∃ h : lo < (0 :: rest).length, (0 :: rest)[lo] ≤ x) ∧
        (hi = (0 :: rest).length ∨ ∃ h : hi < (0 :: rest).length, x < (0 :: rest)[hi]) :=
  new_range m rest univ hs.nonDec hall hno hu64

/-- a concrete index over values with duplicates (which the code as first written rejected): `new`
succeeds in both modes and `range` brackets the probes -/
theorem new_duplicates_example :
    (do let s ← SampleIndex.new .checked [0, 0, 3, 3, 3, 9, 9, 20, 20] 21
        let r0 ← s.range 0
        let r1 ← s.range 5
        let r2 ← s.range 20
        return (s.divisor, s.samples.items, r0, r1, r2)) = ok (11, [0, 6], (0, 7), (0, 7), (6, 9)) := by
  decide

end SampleIndex

/-! ## 7. `RunIter` : single steps -/

namespace RunIter
open RLBuilder

/-- the units of one run whose predecessor ends `gap` bits earlier -/
def runUnits (gap len : Nat) : List Nat := encodeUnits 23 gap ++ encodeUnits 23 (len - 1)

/-- the part of `advance_if` after the block switch: decode gap and length at `offset` -/
def readRun (m : Mode) (v : RL) (it : RunIter) (offset limit : Nat) : Outcome Peek := do
  let (gap, offset) ← v.decode m offset
  let start ← addM m it.offsetBits gap
  let (len, offset) ← v.decode m offset
  let len1 ← addM m len 1
  let r ← addM m it.pos.1 len1
  let e ← addM m start len1
  return .run start len1 ⟨offset, (r, e), limit⟩

theorem readRun_ok (m : Mode) (v : RL) (it : RunIter) (offset limit gap len : Nat) (rest : List Nat)
    (hg : gap < 2 ^ 64) (hl : 1 ≤ len) (he : it.pos.2 + gap + len < U64) (hr : it.pos.1 + len < U64)
    (hd : v.data.items.drop offset = runUnits gap len ++ rest) :
    readRun m v it offset limit =
      ok (.run (it.pos.2 + gap) len
        ⟨offset + codeLen gap + codeLen (len - 1), (it.pos.1 + len, it.pos.2 + gap + len), limit⟩) := by
  have hl' : len - 1 < 2 ^ 64 := by rw [← U64_eq]; omega
  unfold runUnits at hd
  rw [List.append_assoc] at hd
  have hd2 : v.data.items.drop (offset + codeLen gap) = encodeUnits 23 (len - 1) ++ rest := by
    rw [← List.drop_drop, hd, ← encodeUnits_length gap hg, List.drop_left]
  unfold readRun
  rw [RL.decode_encode m v offset gap _ hg hd]
  simp only [bind_ok, offsetBits]
  rw [addM_ok (by omega)]
  simp only [bind_ok]
  rw [RL.decode_encode m v _ (len - 1) _ hl' hd2]
  simp only [bind_ok]
  rw [addM_ok (by omega), bind_ok, show len - 1 + 1 = len by omega, addM_ok (by omega), bind_ok,
    addM_ok (by omega), bind_ok]
  rfl

theorem peek_atEnd (m : Mode) (v : RL) (it : RunIter) (h : v.data.len ≤ it.offset) :
    peek m v it = ok .atEnd := by
  unfold peek; rw [if_pos h]

/-- inside a block (`rank < limit`): the next run is decoded at the current offset -/
theorem peek_inBlock (m : Mode) (v : RL) (it : RunIter) (h : it.offset < v.data.len)
    (hr : it.pos.1 < it.limit) : peek m v it = readRun m v it it.offset it.limit := by
  unfold peek readRun
  rw [if_neg (by omega)]
  simp only [rank, if_neg (show ¬ it.pos.1 ≥ it.limit by omega), pure_eq, bind_ok]
  rfl

/-- at the end of a block (`rank ≥ limit`) with a following block: skip the padding, load the new limit -/
theorem peek_nextBlock (m : Mode) (v : RL) (it : RunIter) (h : it.offset < v.data.len)
    (hr : it.limit ≤ it.pos.1) (hb : (it.offset + 63) / 64 < v.blocks) (l : Nat)
    (hl : v.onesAfter ((it.offset + 63) / 64) = ok l) :
    peek m v it = readRun m v it ((it.offset + 63) / 64 * 64) l := by
  unfold peek readRun
  rw [if_neg (by omega)]
  simp only [rank, if_pos (show it.pos.1 ≥ it.limit from hr), if_neg (show ¬ (it.offset + 63) / 64 ≥ v.blocks by omega),
    hl, pure_eq, bind_ok]
  rfl

theorem peek_noMoreBlocks (m : Mode) (v : RL) (it : RunIter) (h : it.offset < v.data.len)
    (hr : it.limit ≤ it.pos.1) (hb : v.blocks ≤ (it.offset + 63) / 64) :
    peek m v it = ok (.noMoreBlocks ((it.offset + 63) / 64 * 64)) := by
  unfold peek
  rw [if_neg (by omega)]
  simp only [rank, if_pos (show it.pos.1 ≥ it.limit from hr), if_pos (show (it.offset + 63) / 64 ≥ v.blocks from hb),
    pure_eq, bind_ok]
  rfl

theorem nextQ_of_peek_run (m : Mode) (v : RL) (it : RunIter) (s l : Nat) (adv : RunIter)
    (h : peek m v it = ok (.run s l adv)) : nextQ m v it = ok (some (s, l), adv) := by
  unfold nextQ; rw [h]; rfl

theorem nextQ_atEnd (m : Mode) (v : RL) (it : RunIter) (h : v.data.len ≤ it.offset) :
    nextQ m v it = ok (none, it) := by
  unfold nextQ; rw [peek_atEnd m v it h]; rfl

/-- one step inside a block -/
theorem nextQ_inBlock (m : Mode) (v : RL) (it : RunIter) (gap len : Nat) (rest : List Nat)
    (hr : it.pos.1 < it.limit)
    (hg : gap < 2 ^ 64) (hl : 1 ≤ len) (he : it.pos.2 + gap + len < U64) (hr' : it.pos.1 + len < U64)
    (hd : v.data.items.drop it.offset = runUnits gap len ++ rest) :
    nextQ m v it = ok (some (it.pos.2 + gap, len),
      ⟨it.offset + codeLen gap + codeLen (len - 1), (it.pos.1 + len, it.pos.2 + gap + len), it.limit⟩) := by
  have hlt : it.offset < v.data.len := by
    rcases Nat.lt_or_ge it.offset v.data.len with h | h
    · exact h
    · rw [List.drop_eq_nil_of_le (by rw [IntVec.items_length_rl]; exact h)] at hd
      have h1 := congrArg List.length hd
      have h2 := codeLen_pos gap
      rw [runUnits, List.length_append, List.length_append, encodeUnits_length gap hg, List.length_nil] at h1
      omega
  apply nextQ_of_peek_run
  rw [peek_inBlock m v it hlt hr, readRun_ok m v it _ _ gap len rest hg hl he hr' hd]

/-- one step across a block boundary -/
theorem nextQ_nextBlock (m : Mode) (v : RL) (it : RunIter) (gap len l : Nat) (rest : List Nat)
    (h : it.offset < v.data.len) (hr : it.limit ≤ it.pos.1) (hb : (it.offset + 63) / 64 < v.blocks)
    (hl : v.onesAfter ((it.offset + 63) / 64) = ok l)
    (hg : gap < 2 ^ 64) (hl1 : 1 ≤ len) (he : it.pos.2 + gap + len < U64) (hr' : it.pos.1 + len < U64)
    (hd : v.data.items.drop ((it.offset + 63) / 64 * 64) = runUnits gap len ++ rest) :
    nextQ m v it = ok (some (it.pos.2 + gap, len),
      ⟨(it.offset + 63) / 64 * 64 + codeLen gap + codeLen (len - 1),
        (it.pos.1 + len, it.pos.2 + gap + len), l⟩) := by
  apply nextQ_of_peek_run
  rw [peek_nextBlock m v it h hr hb l hl, readRun_ok m v it _ _ gap len rest hg hl1 he hr' hd]

/-! ### iterating over a whole vector with a given block layout -/

/-- all runs produced by repeated `next()`, each with the iterator position `(rank, index)` right after
it, and the iterator after the final `None` -/
def collect (m : Mode) (v : RL) : Nat → RunIter → Outcome (List ((Nat × Nat) × (Nat × Nat)) × RunIter)
  | 0, _ => fault .fuel
  | fuel + 1, it => do
    let (o, it') ← it.nextQ m v
    match o with
    | none => return ([], it')
    | some r => do
      let (rs, e) ← collect m v fuel it'
      return ((r, it'.pos) :: rs, e)

theorem collect_none (m : Mode) (v : RL) (fuel : Nat) (it it' : RunIter)
    (h : nextQ m v it = ok (none, it')) : collect m v (fuel + 1) it = ok ([], it') := by
  rw [collect, h]; rfl

theorem collect_some (m : Mode) (v : RL) (fuel : Nat) (it it' e : RunIter) (r : Nat × Nat)
    (out : List ((Nat × Nat) × (Nat × Nat))) (h : nextQ m v it = ok (some r, it'))
    (hc : collect m v fuel it' = ok (out, e)) :
    collect m v (fuel + 1) it = ok ((r, it'.pos) :: out, e) := by
  rw [collect, h]; simp only [bind_ok]; rw [hc]; rfl

/-- runs are described relative to their predecessor: `(gap, len)` -/
def lens : List (Nat × Nat) → Nat
  | [] => 0
  | p :: rs => p.2 + lens rs

def span : List (Nat × Nat) → Nat
  | [] => 0
  | p :: rs => p.1 + p.2 + span rs

def unitsOf : List (Nat × Nat) → List Nat
  | [] => []
  | p :: rs => runUnits p.1 p.2 ++ unitsOf rs

/-- absolute `(start, len)` of relative runs, the previous run ending at `pos` -/
def absRuns : Nat → List (Nat × Nat) → List (Nat × Nat)
  | _, [] => []
  | pos, p :: rs => (pos + p.1, p.2) :: absRuns (pos + p.1 + p.2) rs

theorem lens_append (a b : List (Nat × Nat)) : lens (a ++ b) = lens a + lens b := by
  induction a with
  | nil => simp [lens]
  | cons p a ih => simp [lens, ih]; omega

theorem span_append (a b : List (Nat × Nat)) : span (a ++ b) = span a + span b := by
  induction a with
  | nil => simp [span]
  | cons p a ih => simp [span, ih]; omega

theorem absRuns_append (pos : Nat) (a b : List (Nat × Nat)) :
    absRuns pos (a ++ b) = absRuns pos a ++ absRuns (pos + span a) b := by
  induction a generalizing pos with
  | nil => simp [absRuns, span]
  | cons p a ih =>
    simp only [List.cons_append, absRuns, span, ih]
    rw [show pos + p.1 + p.2 + span a = pos + (p.1 + p.2 + span a) by omega]

/-- absolute runs `(start, len)` annotated with the expected iterator position after each:
(ones up to and including the run, end of the run) -/
def withPos : Nat → List (Nat × Nat) → List ((Nat × Nat) × (Nat × Nat))
  | _, [] => []
  | rank, r :: rs => (r, (rank + r.2, r.1 + r.2)) :: withPos (rank + r.2) rs

def lensAbs : List (Nat × Nat) → Nat
  | [] => 0
  | r :: rs => r.2 + lensAbs rs

theorem withPos_append (rank : Nat) (a b : List (Nat × Nat)) :
    withPos rank (a ++ b) = withPos rank a ++ withPos (rank + lensAbs a) b := by
  induction a generalizing rank with
  | nil => simp [withPos, lensAbs]
  | cons r a ih =>
    simp only [List.cons_append, withPos, lensAbs, ih]
    rw [show rank + r.2 + lensAbs a = rank + (r.2 + lensAbs a) by omega]

theorem lensAbs_absRuns (pos : Nat) (rs : List (Nat × Nat)) : lensAbs (absRuns pos rs) = lens rs := by
  induction rs generalizing pos with
  | nil => rfl
  | cons p rs ih => simp only [absRuns, lensAbs, lens, ih]

theorem withPos_map_fst (rank : Nat) (rs : List (Nat × Nat)) : (withPos rank rs).map (·.1) = rs := by
  induction rs generalizing rank with
  | nil => rfl
  | cons r rs ih => simp [withPos, ih]

theorem runUnits_length_pos (g l : Nat) (hg : g < 2 ^ 64) : 1 ≤ (runUnits g l).length := by
  have := codeLen_pos g
  rw [runUnits, List.length_append, encodeUnits_length g hg]; omega

theorem collect_inBlock (m : Mode) (v : RL) (limit : Nat) (hlim : limit < U64) (fuel : Nat)
    (out : List ((Nat × Nat) × (Nat × Nat))) (e : RunIter) :
    ∀ (rs : List (Nat × Nat)) (off rank pos : Nat) (tail : List Nat),
      (∀ p ∈ rs, p.1 < 2 ^ 64 ∧ 1 ≤ p.2) →
      v.data.items.drop off = unitsOf rs ++ tail →
      rank + lens rs ≤ limit → pos + span rs < U64 →
      collect m v fuel ⟨off + (unitsOf rs).length, (rank + lens rs, pos + span rs), limit⟩ = ok (out, e) →
      collect m v (rs.length + fuel) ⟨off, (rank, pos), limit⟩ =
        ok (withPos rank (absRuns pos rs) ++ out, e) := by
  intro rs
  induction rs with
  | nil =>
    intro off rank pos tail _ _ _ _ hc
    simpa [unitsOf, lens, span, absRuns, withPos] using hc
  | cons p rs ih =>
    intro off rank pos tail hp hd hr hs hc
    obtain ⟨hg, hl⟩ := hp p (by simp)
    simp only [unitsOf, lens, span] at hd hr hs hc
    rw [List.append_assoc] at hd
    have hstep := nextQ_inBlock m v ⟨off, (rank, pos), limit⟩ p.1 p.2 _ (by show rank < limit; omega) hg hl
      (by show pos + p.1 + p.2 < U64; omega) (by show rank + p.2 < U64; omega) hd
    have hd' : v.data.items.drop (off + codeLen p.1 + codeLen (p.2 - 1)) = unitsOf rs ++ tail := by
      have hlen : (runUnits p.1 p.2).length = codeLen p.1 + codeLen (p.2 - 1) := by
        rw [runUnits, List.length_append, encodeUnits_length _ hg,
          encodeUnits_length _ (by rw [← U64_eq]; omega)]
      rw [Nat.add_assoc, ← hlen, ← List.drop_drop, hd, List.drop_left]
    have hlen : (runUnits p.1 p.2).length = codeLen p.1 + codeLen (p.2 - 1) := by
      rw [runUnits, List.length_append, encodeUnits_length _ hg,
        encodeUnits_length _ (by rw [← U64_eq]; omega)]
    have := ih (off + codeLen p.1 + codeLen (p.2 - 1)) (rank + p.2) (pos + p.1 + p.2) tail
      (fun q hq => hp q (by simp [hq])) hd' (by omega) (by omega) (by
        rw [← hc]; congr 2
        · rw [List.length_append, hlen]; omega
        · congr 1 <;> omega)
    rw [show (p :: rs).length + fuel = (rs.length + fuel) + 1 by simp; omega]
    exact collect_some m v _ _ _ e _ _ hstep this

theorem nextQ_noMoreBlocks (m : Mode) (v : RL) (it : RunIter) (h : it.offset < v.data.len)
    (hr : it.limit ≤ it.pos.1) (hb : v.blocks ≤ (it.offset + 63) / 64) :
    nextQ m v it = ok (none, { it with offset := (it.offset + 63) / 64 * 64 }) := by
  unfold nextQ; rw [peek_noMoreBlocks m v it h hr hb]; rfl

/-- `Layout v b rank bl`: the blocks `b, b+1, …` of `v` are exactly `bl` (runs as `(gap, len)` relative to
their predecessor), `rank` ones precede block `b`.  Each block is non-empty, fits in 64 units, starts at
unit `64 * b` (whatever follows its codes inside the block is never read), and `onesAfter` reports
the number of ones up to its end. -/
def Layout (v : RL) : Nat → Nat → List (List (Nat × Nat)) → Prop
  | b, rank, [] => v.blocks = b ∧ v.ones = rank ∧ v.data.len ≤ 64 * b
  | b, rank, blk :: more =>
      blk ≠ [] ∧ (∀ p ∈ blk, p.1 < 2 ^ 64 ∧ 1 ≤ p.2) ∧ (unitsOf blk).length ≤ 64 ∧
      (∃ tail, v.data.items.drop (64 * b) = unitsOf blk ++ tail) ∧
      v.onesAfter b = ok (rank + lens blk) ∧ Layout v (b + 1) (rank + lens blk) more

theorem Layout.blocks_eq {v : RL} : ∀ {bl : List (List (Nat × Nat))} {b rank : Nat},
    Layout v b rank bl → v.blocks = b + bl.length := by
  intro bl
  induction bl with
  | nil => intro b rank h; exact h.1
  | cons blk more ih =>
    intro b rank h
    have := ih h.2.2.2.2.2
    rw [this, List.length_cons]; omega

theorem unitsOf_length_pos {blk : List (Nat × Nat)} (hne : blk ≠ [])
    (hp : ∀ p ∈ blk, p.1 < 2 ^ 64 ∧ 1 ≤ p.2) : 1 ≤ (unitsOf blk).length := by
  cases blk with
  | nil => exact absurd rfl hne
  | cons p rs =>
    have := runUnits_length_pos p.1 p.2 (hp p (by simp)).1
    rw [unitsOf, List.length_append]; omega

theorem Layout.data_len_gt {v : RL} {blk : List (Nat × Nat)} {more : List (List (Nat × Nat))} {b rank : Nat}
    (h : Layout v b rank (blk :: more)) : 64 * b + (unitsOf blk).length ≤ v.data.len := by
  obtain ⟨h1, h2, h3, ⟨tail, h4⟩, _⟩ := h
  have := congrArg List.length h4
  rw [List.length_drop, IntVec.items_length_rl, List.length_append] at this
  have := unitsOf_length_pos h1 h2
  omega

/-- how the iterator stands before block `b`: its next `peek` reads the first run of that block (either
because it is the initial iterator, or because it sits at the end of block `b - 1`), or — after the last
block — its next `next()` returns `None` -/
def Entry (m : Mode) (v : RL) (it : RunIter) (b rank : Nat) : List (List (Nat × Nat)) → Prop
  | [] => ∃ it', nextQ m v it = ok (none, it') ∧ it'.pos = it.pos
  | blk :: _ => peek m v it = readRun m v it (64 * b) (rank + lens blk)

theorem collect_layout (m : Mode) (v : RL) :
    ∀ (bl : List (List (Nat × Nat))) (b rank pos : Nat) (it : RunIter),
      Layout v b rank bl → it.pos = (rank, pos) → Entry m v it b rank bl →
      rank + lens bl.flatten < U64 → pos + span bl.flatten < U64 →
      ∃ e, collect m v (bl.flatten.length + 1) it = ok (withPos rank (absRuns pos bl.flatten), e) ∧
        e.pos = (rank + lens bl.flatten, pos + span bl.flatten) := by
  intro bl
  induction bl with
  | nil =>
    intro b rank pos it _ hpos hE _ _
    obtain ⟨it', h1, h2⟩ := hE
    refine ⟨it', ?_, ?_⟩
    · simpa [absRuns, withPos] using collect_none m v 0 it it' h1
    · rw [h2, hpos]; simp [lens, span]
  | cons blk more ih =>
    intro b rank pos it hL hpos hE hrk hsp
    obtain ⟨off, ⟨rank', pos'⟩, lim⟩ := it
    simp only [Prod.mk.injEq] at hpos
    obtain ⟨rfl, rfl⟩ := hpos
    have hLen := Layout.data_len_gt hL
    obtain ⟨hne, hp, h64, ⟨tail, hd⟩, hones, hmore⟩ := hL
    have hupos := unitsOf_length_pos hne hp
    cases blk with
    | nil => exact absurd rfl hne
    | cons p rs =>
    simp only [List.flatten_cons, lens_append, span_append, lens, span] at hrk hsp
    obtain ⟨hg, hl⟩ := hp p (by simp)
    have hl' : p.2 - 1 < 2 ^ 64 := by rw [← U64_eq]; omega
    simp only [unitsOf, List.append_assoc] at hd
    have hrlen : (runUnits p.1 p.2).length = codeLen p.1 + codeLen (p.2 - 1) := by
      rw [runUnits, List.length_append, encodeUnits_length _ hg, encodeUnits_length _ hl']
    -- first run of the block
    have hstep : nextQ m v ⟨off, (rank', pos'), lim⟩ = ok (some (pos' + p.1, p.2),
        ⟨64 * b + codeLen p.1 + codeLen (p.2 - 1), (rank' + p.2, pos' + p.1 + p.2), rank' + lens (p :: rs)⟩) := by
      apply nextQ_of_peek_run
      rw [show peek m v ⟨off, (rank', pos'), lim⟩ = _ from hE]
      exact readRun_ok m v _ _ _ p.1 p.2 _ hg hl (by show pos' + p.1 + p.2 < U64; omega)
        (by show rank' + p.2 < U64; omega) hd
    have hd' : v.data.items.drop (64 * b + codeLen p.1 + codeLen (p.2 - 1)) = unitsOf rs ++ tail := by
      rw [Nat.add_assoc, ← hrlen, ← List.drop_drop, hd, List.drop_left]
    -- the iterator at the end of the block
    have hulen : (unitsOf (p :: rs)).length = codeLen p.1 + codeLen (p.2 - 1) + (unitsOf rs).length := by
      rw [unitsOf, List.length_append, hrlen]
    generalize hoe : 64 * b + codeLen p.1 + codeLen (p.2 - 1) + (unitsOf rs).length = oe at *
    have hoe1 : 64 * b < oe := by have := codeLen_pos p.1; omega
    have hoe2 : oe ≤ 64 * (b + 1) := by omega
    have hblk : (oe + 63) / 64 = b + 1 := by omega
    have hEnd : Entry m v ⟨oe, (rank' + p.2 + lens rs, pos' + p.1 + p.2 + span rs), rank' + lens (p :: rs)⟩
        (b + 1) (rank' + lens (p :: rs)) more := by
      cases more with
      | nil =>
        obtain ⟨k1, k2, k3⟩ := hmore
        rcases Nat.lt_or_ge oe v.data.len with hlt | hge
        · exact ⟨_, nextQ_noMoreBlocks m v _ hlt (by show rank' + lens (p :: rs) ≤ rank' + p.2 + lens rs; simp [lens]; omega)
            (by show v.blocks ≤ (oe + 63) / 64; omega), rfl⟩
        · exact ⟨_, nextQ_atEnd m v _ hge, rfl⟩
      | cons blk' more' =>
        have hb := Layout.blocks_eq hmore
        have hgt := Layout.data_len_gt hmore
        have hup := unitsOf_length_pos hmore.1 hmore.2.1
        have := peek_nextBlock m v ⟨oe, (rank' + p.2 + lens rs, pos' + p.1 + p.2 + span rs), rank' + lens (p :: rs)⟩
          (by show oe < v.data.len; omega)
          (by show rank' + lens (p :: rs) ≤ rank' + p.2 + lens rs; simp [lens]; omega)
          (by show (oe + 63) / 64 < v.blocks; rw [hb, hblk, List.length_cons]; omega)
          (rank' + lens (p :: rs) + lens blk')
          (by show v.onesAfter ((oe + 63) / 64) = _; rw [hblk]; exact hmore.2.2.2.2.1)
        show peek m v _ = readRun m v _ (64 * (b + 1)) _
        rw [this]
        show readRun m v _ ((oe + 63) / 64 * 64) _ = _
        rw [hblk, Nat.mul_comm]
    obtain ⟨e, he, hepos⟩ := ih (b + 1) (rank' + lens (p :: rs)) (pos' + p.1 + p.2 + span rs)
      ⟨oe, (rank' + p.2 + lens rs, pos' + p.1 + p.2 + span rs), rank' + lens (p :: rs)⟩ hmore
      (by simp [lens]; omega) hEnd (by simp only [lens]; omega) (by omega)
    have hin := collect_inBlock m v (rank' + lens (p :: rs)) (by simp only [lens]; omega) (more.flatten.length + 1)
      (withPos (rank' + lens (p :: rs)) (absRuns (pos' + p.1 + p.2 + span rs) more.flatten)) e rs
      (64 * b + codeLen p.1 + codeLen (p.2 - 1)) (rank' + p.2) (pos' + p.1 + p.2) tail
      (fun q hq => hp q (by simp [hq])) hd' (by simp only [lens]; omega) (by omega)
      (by rw [hoe]; exact he)
    refine ⟨e, ?_, ?_⟩
    · rw [show ((p :: rs) :: more).flatten.length + 1 = (rs.length + (more.flatten.length + 1)) + 1 by
        simp; omega]
      have := collect_some m v _ _ _ e _ _ hstep hin
      rw [this]
      simp only [List.flatten_cons, List.cons_append, absRuns, withPos]
      rw [absRuns_append, withPos_append, lensAbs_absRuns]
      simp only [lens]
      rw [show rank' + p.2 + lens rs = rank' + (p.2 + lens rs) by omega]
    · rw [hepos]
      simp only [List.flatten_cons, lens_append, span_append, lens, span]
      congr 1 <;> omega

theorem lens_pos {blk : List (Nat × Nat)} (hne : blk ≠ []) (hp : ∀ p ∈ blk, p.1 < 2 ^ 64 ∧ 1 ≤ p.2) :
    1 ≤ lens blk := by
  cases blk with
  | nil => exact absurd rfl hne
  | cons p rs => have := (hp p (by simp)).2; simp only [lens]; omega

/-- **iteration theorem**: on a vector with block layout `bl`, `run_iter()` followed by `next()` until
`None` yields exactly the runs of `bl` (as absolute `(start, len)`), in both arithmetic modes, and the
iterator ends at `pos = (ones, end of the last run)` -/
theorem runIter_collect (m : Mode) (v : RL) (bl : List (List (Nat × Nat)))
    (hL : Layout v 0 0 bl) (hrk : lens bl.flatten < U64) (hsp : span bl.flatten < U64) :
    ∃ it0 e, v.runIter = ok it0 ∧
      collect m v (bl.flatten.length + 1) it0 = ok (withPos 0 (absRuns 0 bl.flatten), e) ∧
      e.pos = (lens bl.flatten, span bl.flatten) := by
  cases bl with
  | nil =>
    obtain ⟨k1, k2, k3⟩ := hL
    have hr : v.runIter = ok ⟨0, (0, 0), v.ones⟩ := by
      unfold RL.runIter RL.onesAfter; rw [if_neg (by omega)]; rfl
    obtain ⟨e, h1, h2⟩ := collect_layout m v [] 0 0 0 ⟨0, (0, 0), v.ones⟩ ⟨k1, k2, k3⟩ rfl
      ⟨_, nextQ_atEnd m v _ (by show v.data.len ≤ 0; omega), rfl⟩ (by simpa using hrk) (by simpa using hsp)
    exact ⟨_, e, hr, h1, by simpa using h2⟩
  | cons blk more =>
    have hgt := Layout.data_len_gt hL
    have hup := unitsOf_length_pos hL.1 hL.2.1
    have hlp := lens_pos hL.1 hL.2.1
    have hr : v.runIter = ok ⟨0, (0, 0), 0 + lens blk⟩ := by
      unfold RL.runIter; rw [hL.2.2.2.2.1]; rfl
    obtain ⟨e, h1, h2⟩ := collect_layout m v (blk :: more) 0 0 0 ⟨0, (0, 0), 0 + lens blk⟩ hL rfl
      (by
        show peek m v _ = readRun m v _ (64 * 0) (0 + lens blk)
        rw [peek_inBlock m v _ (by show 0 < v.data.len; omega) (by show 0 < 0 + lens blk; omega)])
      (by simpa using hrk) (by simpa using hsp)
    exact ⟨_, e, hr, h1, by simpa using h2⟩

end RunIter

/-! ### runs of a bit sequence built by appending zeros and ones -/

theorem runsOf_false_none (k : Nat) (bs : List Bool) (i : Nat) :
    runsOf (List.replicate k false ++ bs) i none = runsOf bs (i + k) none := by
  induction k generalizing i with
  | zero => rfl
  | succ k ih =>
    rw [List.replicate_succ, List.cons_append, runsOf, ih]; congr 1; omega

theorem runsOf_false_some (k : Nat) (hk : 1 ≤ k) (bs : List Bool) (i : Nat) (r : Nat × Nat) :
    runsOf (List.replicate k false ++ bs) i (some r) = r :: runsOf bs (i + k) none := by
  obtain ⟨k, rfl⟩ : ∃ j, k = j + 1 := ⟨k - 1, by omega⟩
  rw [List.replicate_succ, List.cons_append, runsOf, runsOf_false_none]; congr 2; omega

theorem runsOf_true_some (k : Nat) (bs : List Bool) (i s l : Nat) :
    runsOf (List.replicate k true ++ bs) i (some (s, l)) = runsOf bs (i + k) (some (s, l + k)) := by
  induction k generalizing i l with
  | zero => rfl
  | succ k ih =>
    rw [List.replicate_succ, List.cons_append, runsOf, ih,
      show i + 1 + k = i + (k + 1) by omega, show l + 1 + k = l + (k + 1) by omega]

theorem runsOf_true_none (k : Nat) (hk : 1 ≤ k) (bs : List Bool) (i : Nat) :
    runsOf (List.replicate k true ++ bs) i none = runsOf bs (i + k) (some (i, k)) := by
  obtain ⟨k, rfl⟩ : ∃ j, k = j + 1 := ⟨k - 1, by omega⟩
  rw [List.replicate_succ, List.cons_append, runsOf, runsOf_true_some,
    show i + 1 + k = i + (k + 1) by omega, show 1 + k = k + 1 by omega]

/-! ## 7b. what the builder writes -/

namespace RunIter

theorem unitsOf_append (a b : List (Nat × Nat)) : unitsOf (a ++ b) = unitsOf a ++ unitsOf b := by
  induction a with
  | nil => rfl
  | cons p a ih => simp [unitsOf, ih]

theorem lens_le_span (a : List (Nat × Nat)) : lens a ≤ span a := by
  induction a with
  | nil => simp [lens, span]
  | cons p a ih => simp only [lens, span]; omega

end RunIter

namespace RLBuilder
open RunIter

/-- the two shapes of a non-trivial `flush`, with the data spelled out -/
theorem flush_eq (m : Mode) {b : RLBuilder} (h : b.Inv) (hr : b.run.2 ≠ 0) :
    ∃ b', b.flush m = ok b' ∧ b'.len = b.len ∧ b'.ones = b.ones ∧ b'.run = (b.len, 0) ∧
      b'.tail = b.run.1 + b.run.2 ∧ b'.data.WF ∧
      ((b.data.len + (runUnits (b.run.1 - b.tail) b.run.2).length ≤ b.samples.size * 64 ∧
          b'.samples = b.samples ∧
          b'.data.items = b.data.items ++ runUnits (b.run.1 - b.tail) b.run.2) ∨
       (b.samples.size * 64 < b.data.len + (runUnits (b.run.1 - b.tail) b.run.2).length ∧
          b'.samples = b.samples.push (b.ones - b.run.2, b.tail) ∧
          b'.data.items = b.data.items ++ List.replicate (b.samples.size * 64 - b.data.len) 0 ++
            runUnits (b.run.1 - b.tail) b.run.2)) := by
  have hol := h.ones_le
  obtain ⟨h1, h2, h3, h4, h5, h6, h7, h8⟩ := h
  have hg : b.run.1 - b.tail < 2 ^ 64 := by rw [← U64_eq]; omega
  have hl : b.run.2 - 1 < 2 ^ 64 := by rw [← U64_eq]; omega
  have hul : (runUnits (b.run.1 - b.tail) b.run.2).length = codeLen (b.run.1 - b.tail) + codeLen (b.run.2 - 1) := by
    rw [runUnits, List.length_append, encodeUnits_length _ hg, encodeUnits_length _ hl]
  unfold flush
  rw [if_neg hr, subM_ok h1]
  simp only [bind_ok, pure_eq]
  rw [hul]
  by_cases hfit : b.data.len + (codeLen (b.run.1 - b.tail) + codeLen (b.run.2 - 1)) > b.samples.size * 64
  · rw [if_pos hfit]
    obtain ⟨a1, a2, a3, a4⟩ := IntVec.resize_grow_spec h7 (b.samples.size * 64) 0 (by omega)
    obtain ⟨e1, e2, e3, e4⟩ := encode_spec a1 (by rw [a2]; exact h8) _ hg
    obtain ⟨f1, f2, f3, f4⟩ := encode_spec e1 e2 _ hl
    refine ⟨_, rfl, rfl, rfl, rfl, rfl, f1, Or.inr ⟨by omega, rfl, ?_⟩⟩
    show (encode (encode (b.data.resize (b.samples.size * 64) 0) _) _).items = _
    rw [f4, e4, a4, runUnits, h8]
    simp [List.append_assoc]
  · rw [if_neg hfit]
    obtain ⟨e1, e2, e3, e4⟩ := encode_spec h7 h8 _ hg
    obtain ⟨f1, f2, f3, f4⟩ := encode_spec e1 e2 _ hl
    refine ⟨_, rfl, rfl, rfl, rfl, rfl, f1, Or.inl ⟨by omega, rfl, ?_⟩⟩
    show (encode (encode b.data _) _).items = _
    rw [f4, e4, runUnits, List.append_assoc]

/-- validity of a block: every run has a 64-bit gap and a positive length, the codes fit in 64 units -/
def BlockOK (blk : List (Nat × Nat)) : Prop :=
  (∀ p ∈ blk, p.1 < 2 ^ 64 ∧ 1 ≤ p.2) ∧ (unitsOf blk).length ≤ 64

/-- data-level invariant with ghost state: `done` = the completed (padded) blocks, `cur` = the runs of the
block being filled (empty only before the first flush); runs are `(gap, len)` -/
structure DInv (b : RLBuilder) (done : List (List (Nat × Nat))) (cur : List (Nat × Nat)) : Prop where
  valid_done : ∀ blk ∈ done, blk ≠ [] ∧ BlockOK blk
  valid_cur : BlockOK cur
  start : cur = [] → done = []
  size : b.samples.size = done.length + (if cur = [] then 0 else 1)
  done_units : ∀ i (h : i < done.length), ∃ tail, b.data.items.drop (64 * i) = unitsOf done[i] ++ tail
  cur_units : b.data.items.drop (64 * done.length) = unitsOf cur
  data_len : b.data.len = 64 * done.length + (unitsOf cur).length
  samples : ∀ i (h : i < b.samples.size),
    b.samples[i] = (lens (done.take i).flatten, span (done.take i).flatten)
  ones : b.ones - b.run.2 = lens done.flatten + lens cur
  tail : b.tail = span done.flatten + span cur

theorem dinv_empty : DInv {} [] [] := by
  refine ⟨by simp, ⟨by simp, by simp [unitsOf]⟩, fun _ => rfl, rfl, by simp, rfl, rfl, ?_, rfl, rfl⟩
  intro i h; exact absurd h (Nat.not_lt_zero _)

theorem unitsOf_single (p : Nat × Nat) : unitsOf [p] = runUnits p.1 p.2 := by simp [unitsOf]

theorem flush_dinv (m : Mode) {b : RLBuilder} {done : List (List (Nat × Nat))} {cur : List (Nat × Nat)}
    (h : b.Inv) (hd : DInv b done cur) :
    ∃ b' done' cur', b.flush m = ok b' ∧ DInv b' done' cur' ∧
      b'.len = b.len ∧ b'.ones = b.ones ∧ b'.run = (b.len, 0) ∧
      done'.flatten ++ cur' = done.flatten ++ cur ++
        (if b.run.2 = 0 then [] else [(b.run.1 - b.tail, b.run.2)]) := by
  have hol := h.ones_le
  by_cases hr : b.run.2 = 0
  · refine ⟨b, done, cur, by unfold flush; rw [if_pos hr], hd, rfl, rfl, ?_, by simp [hr]⟩
    have := h.run_end
    apply Prod.ext <;> simp <;> omega
  obtain ⟨b', e, l1, l2, l3, l4, wf, hcase⟩ := flush_eq m h hr
  obtain ⟨i1, i2, i3, i4, i5, i6, i7, i8⟩ := h
  obtain ⟨d1, d2, d3, d4, d5, d6, d7, d8, d9, d10⟩ := hd
  have hg : b.run.1 - b.tail < 2 ^ 64 := by rw [← U64_eq]; omega
  have hrup := runUnits_length_pos (b.run.1 - b.tail) b.run.2 hg
  have hrule : (runUnits (b.run.1 - b.tail) b.run.2).length ≤ 64 := by
    have := codeLen_le (b.run.1 - b.tail); have := codeLen_le (b.run.2 - 1)
    rw [runUnits, List.length_append, encodeUnits_length _ hg, encodeUnits_length _ (by rw [← U64_eq]; omega)]
    omega
  have hlen : b.data.items.length = b.data.len := IntVec.items_length_rl _
  have hr2 : b'.run.2 = 0 := by rw [l3]
  generalize hp : (b.run.1 - b.tail, b.run.2) = p at *
  have hp1 : p.1 = b.run.1 - b.tail := by rw [← hp]
  have hp2 : p.2 = b.run.2 := by rw [← hp]
  rw [← hp1, ← hp2] at hcase hrup hrule
  rw [if_neg hr]
  have hpv : p.1 < 2 ^ 64 ∧ 1 ≤ p.2 := ⟨by omega, by omega⟩
  have hsingle : BlockOK [p] := by
    refine ⟨?_, by rw [unitsOf_single]; exact hrule⟩
    intro q hq
    have : q = p := by simpa using hq
    rw [this]; exact hpv
  rcases hcase with ⟨c1, c2, c3⟩ | ⟨c1, c2, c3⟩
  · -- the run fits into the current block
    have hcur : cur ≠ [] := by
      intro hc; rw [if_pos hc] at d4; rw [hc] at d7; simp [unitsOf] at d7; omega
    rw [if_neg hcur] at d4
    have hcne : cur ++ [p] ≠ [] := by simp
    refine ⟨b', done, cur ++ [p], e, ⟨d1, ?_, fun hc => absurd hc hcne, ?_, ?_, ?_, ?_, ?_, ?_, ?_⟩,
      l1, l2, l3, by rw [List.append_assoc]⟩
    · refine ⟨?_, ?_⟩
      · intro q hq
        rcases List.mem_append.1 hq with hq | hq
        · exact d2.1 q hq
        · have : q = p := by simpa using hq
          rw [this]; exact hpv
      · rw [unitsOf_append, unitsOf_single, List.length_append]; omega
    · rw [c2, if_neg hcne]; exact d4
    · intro i hi
      obtain ⟨tail, ht⟩ := d5 i hi
      refine ⟨tail ++ runUnits p.1 p.2, ?_⟩
      rw [c3, List.drop_append_of_le_length (by omega), ht, List.append_assoc]
    · rw [c3, List.drop_append_of_le_length (by omega), d6, unitsOf_append, unitsOf_single]
    · rw [← IntVec.items_length_rl, c3, List.length_append, hlen, d7, unitsOf_append, unitsOf_single,
        List.length_append]; omega
    · intro i hi
      have hi' : i < b.samples.size := by rw [← c2]; exact hi
      have := d8 i hi'
      rw [← this]; simp [c2]
    · rw [hr2, l2, lens_append]; simp only [lens]; omega
    · rw [l4, span_append]; simp only [span]; omega
  · -- a new block is started
    by_cases hcur : cur = []
    · have hdn := d3 hcur
      subst hcur; subst hdn
      simp only [if_true, List.length_nil, Nat.add_zero] at d4
      simp only [unitsOf, List.length_nil, Nat.mul_zero, Nat.add_zero] at d7
      have hitems : b.data.items = [] := List.eq_nil_of_length_eq_zero (by omega)
      rw [d4, d7, hitems] at c3
      simp only [Nat.zero_mul, Nat.sub_zero, List.replicate_zero, List.nil_append] at c3
      refine ⟨b', [], [p], e, ⟨by simp, hsingle, fun hc => by simp at hc, ?_, by simp, ?_, ?_, ?_, ?_, ?_⟩,
        l1, l2, l3, by simp⟩
      · rw [c2, Array.size_push, d4]; simp
      · rw [c3, unitsOf_single]; rfl
      · rw [← IntVec.items_length_rl, c3, unitsOf_single]; simp
      · intro i hi
        have hi0 : i = 0 := by rw [c2, Array.size_push, d4] at hi; omega
        subst hi0
        simp only [c2]
        rw [Array.getElem_push, dif_neg (by omega)]
        simp only [lens, span, List.flatten_nil, Nat.add_zero] at d9 d10
        rw [hp2, d9, d10]; rfl
      · rw [hr2, l2]; simp only [lens, List.flatten_nil] at d9 ⊢; omega
      · rw [l4]; simp only [span, List.flatten_nil] at d10 ⊢; omega
    · rw [if_neg hcur] at d4
      have hzl : b.samples.size * 64 - b.data.len = 64 - (unitsOf cur).length := by omega
      have hpre : (b.data.items ++ List.replicate (b.samples.size * 64 - b.data.len) 0).length =
          64 * (done.length + 1) := by
        rw [List.length_append, List.length_replicate, hlen]; have := d2.2; omega
      refine ⟨b', done ++ [cur], [p], e, ⟨?_, hsingle, fun hc => by simp at hc, ?_, ?_, ?_, ?_, ?_, ?_, ?_⟩,
        l1, l2, l3, by simp [List.flatten_append]⟩
      · intro blk hb
        rcases List.mem_append.1 hb with hb | hb
        · exact d1 blk hb
        · have : blk = cur := by simpa using hb
          rw [this]; exact ⟨hcur, d2⟩
      · rw [c2, Array.size_push, d4]; simp
      · intro i hi
        rw [List.length_append, List.length_singleton] at hi
        by_cases hid : i < done.length
        · obtain ⟨tail, ht⟩ := d5 i hid
          refine ⟨tail ++ List.replicate (b.samples.size * 64 - b.data.len) 0 ++ runUnits p.1 p.2, ?_⟩
          rw [List.getElem_append_left hid, c3, List.append_assoc,
            List.drop_append_of_le_length (by omega), ht]
          simp [List.append_assoc]
        · have hie : i = done.length := by omega
          subst hie
          refine ⟨List.replicate (b.samples.size * 64 - b.data.len) 0 ++ runUnits p.1 p.2, ?_⟩
          rw [List.getElem_concat_length rfl, c3, List.append_assoc,
            List.drop_append_of_le_length (by omega), d6]
      · rw [c3, List.length_append, List.length_singleton, List.drop_left' hpre, unitsOf_single]
      · rw [← IntVec.items_length_rl, c3, List.length_append, hpre, unitsOf_single, List.length_append,
          List.length_singleton]
      · intro i hi
        have hi' : i < b.samples.size + 1 := by rw [c2, Array.size_push] at hi; exact hi
        simp only [c2]
        rw [Array.getElem_push]
        by_cases hlt : i < b.samples.size
        · rw [dif_pos hlt, d8 i hlt, List.take_append_of_le_length (by omega)]
        · rw [dif_neg hlt]
          have hie : i = done.length + 1 := by omega
          subst hie
          rw [List.take_of_length_le (by simp), List.flatten_append, lens_append, span_append]
          simp only [List.flatten_cons, List.flatten_nil, List.append_nil]
          congr 1 <;> omega
      · rw [hr2, l2, List.flatten_append, lens_append]
        simp only [List.flatten_cons, List.flatten_nil, List.append_nil, lens]; omega
      · rw [l4, List.flatten_append, span_append]
        simp only [List.flatten_cons, List.flatten_nil, List.append_nil, span]; omega

theorem dinv_congr {b b' : RLBuilder} {done : List (List (Nat × Nat))} {cur : List (Nat × Nat)}
    (h : DInv b done cur) (h1 : b'.samples = b.samples) (h2 : b'.data = b.data)
    (h3 : b'.ones - b'.run.2 = b.ones - b.run.2) (h4 : b'.tail = b.tail) : DInv b' done cur := by
  obtain ⟨d1, d2, d3, d4, d5, d6, d7, d8, d9, d10⟩ := h
  refine ⟨d1, d2, d3, by rw [h1]; exact d4, by rw [h2]; exact d5, by rw [h2]; exact d6,
    by rw [h2]; exact d7, ?_, by rw [h3]; exact d9, by rw [h4]; exact d10⟩
  intro i hi
  have hi' : i < b.samples.size := by rw [← h1]; exact hi
  rw [← d8 i hi']; simp [h1]

/-- the pending run as the open run of `runsOf` -/
def pend (b : RLBuilder) : Option (Nat × Nat) := if b.run.2 = 0 then none else some b.run

/-- full abstraction: `B` is the bit sequence described so far (`|B| = len`), its maximal runs are the
flushed runs (`done`, `cur`, relative encoding) followed by the pending run, which is still open -/
structure Abs (b : RLBuilder) (B : List Bool) (done : List (List (Nat × Nat))) (cur : List (Nat × Nat)) :
    Prop where
  inv : b.Inv
  dinv : DInv b done cur
  len : B.length = b.len
  ones : B.count true = b.ones
  runs : ∀ bs, runsOf (B ++ bs) 0 none = absRuns 0 (done.flatten ++ cur) ++ runsOf bs b.len (pend b)

theorem abs_empty : Abs {} [] [] [] :=
  ⟨inv_empty, dinv_empty, rfl, rfl, fun bs => by simp [absRuns, pend]⟩

/-- the bits appended by an accepted `try_set(start, len)` -/
def setBits (b : RLBuilder) (start len : Nat) : List Bool :=
  if len = 0 then [] else List.replicate (start - b.len) false ++ List.replicate len true

theorem trySet_abs (m : Mode) {b b' : RLBuilder} {B : List Bool} {done : List (List (Nat × Nat))}
    {cur : List (Nat × Nat)} (h : Abs b B done cur) (start len : Nat) (hlen : len < U64)
    (hs : b.trySet m start len = ok b') :
    ∃ done' cur', Abs b' (B ++ setBits b start len) done' cur' := by
  obtain ⟨hi, hd, hl, hcnt, hrn⟩ := h
  have hinv' := trySet_inv m hi start len hlen hs
  have hol := hi.ones_le
  unfold trySet at hs
  by_cases c1 : start < b.len
  · rw [if_pos c1] at hs; cases hs
  rw [if_neg c1] at hs
  by_cases c2 : U64 - 1 - len < start
  · rw [if_pos c2] at hs; cases hs
  rw [if_neg c2] at hs
  unfold setRunUnchecked at hs
  by_cases hz : len = 0
  · rw [if_pos hz] at hs; injection hs with hs; subst hs
    refine ⟨done, cur, hi, hd, by simp [setBits, hz, hl], by simp [setBits, hz, hcnt], ?_⟩
    intro bs; simpa [setBits, hz] using hrn bs
  rw [if_neg hz] at hs
  by_cases hst : start = b.len
  · -- the run extends the pending run
    rw [if_pos hst] at hs
    have i1 := hi.run_end; have i2 := hi.run_le_ones
    rw [addM_ok (by omega), bind_ok, addM_ok (by omega), bind_ok, addM_ok (by omega), bind_ok] at hs
    injection hs with hs; subst hs
    refine ⟨done, cur, hinv', dinv_congr hd rfl rfl (by show b.ones + len - (b.run.2 + len) = _; omega) rfl,
      by simp [setBits, hz, hl, hst],
      by simp [setBits, hz, List.count_append, List.count_replicate, hcnt], ?_⟩
    intro bs
    have hB : (B ++ setBits b start len) ++ bs = B ++ (List.replicate len true ++ bs) := by
      simp [setBits, hz, hst]
    rw [hB, hrn]
    congr 1
    show _ = runsOf bs (b.len + len) _
    unfold pend
    by_cases hr0 : b.run.2 = 0
    · rw [if_pos hr0, runsOf_true_none len (by omega)]
      have hr1 : b.run.1 = b.len := by omega
      simp only [hr0, Nat.zero_add, if_neg hz, hr1]
    · rw [if_neg hr0, show b.run = (b.run.1, b.run.2) from rfl, runsOf_true_some]
      simp only [if_neg (show ¬ b.run.2 + len = 0 by omega)]
  · -- a gap: the pending run is flushed first
    rw [if_neg hst] at hs
    obtain ⟨b1, done', cur', e, hd1, l1, l2, l3, hfl⟩ := flush_dinv m hi hd
    have hr2 : b1.run.2 = 0 := by rw [l3]
    rw [e, bind_ok, addM_ok (by omega), bind_ok, addM_ok (by omega), bind_ok] at hs
    injection hs with hs; subst hs
    refine ⟨done', cur', hinv', dinv_congr hd1 rfl rfl (by show b1.ones + len - len = _; omega) rfl,
      by simp [setBits, hz, hl]; omega,
      by simp [setBits, hz, List.count_append, List.count_replicate, hcnt, l2], ?_⟩
    intro bs
    have hB : (B ++ setBits b start len) ++ bs =
        B ++ (List.replicate (start - b.len) false ++ (List.replicate len true ++ bs)) := by
      simp [setBits, hz]
    have i1 := hi.tail_le
    rw [hB, hrn, hfl]
    have hpend : pend { b1 with len := start + len, ones := b1.ones + len, run := (start, len) } =
        some (start, len) := by unfold pend; rw [if_neg hz]
    rw [hpend]
    show _ = _ ++ runsOf bs (start + len) (some (start, len))
    unfold pend
    by_cases hr0 : b.run.2 = 0
    · rw [if_pos hr0, if_pos hr0, List.append_nil, runsOf_false_none, runsOf_true_none len (by omega),
        show b.len + (start - b.len) = start by omega]
    · have ht : span (done.flatten ++ cur) = b.tail := by rw [span_append, hd.tail]
      have hF : absRuns 0 (done.flatten ++ cur ++ [(b.run.1 - b.tail, b.run.2)]) =
          absRuns 0 (done.flatten ++ cur) ++ [b.run] := by
        rw [absRuns_append, ht]
        simp only [absRuns]
        rw [show 0 + b.tail + (b.run.1 - b.tail) = b.run.1 by omega]
      rw [if_neg hr0, if_neg hr0, runsOf_false_some _ (by omega), runsOf_true_none len (by omega),
        show b.len + (start - b.len) = start by omega, hF, List.append_assoc]
      rfl

/-- the bits appended by `set_len(n)`: zeros up to the new length (nothing when `n ≤ len`) -/
def setLenBits (b : RLBuilder) (n : Nat) : List Bool := List.replicate (n - b.len) false

/-- the repaired `set_len` keeps the full abstraction: it appends zeros to the described bit sequence, the
pending run (if any) is closed -/
theorem setLen_abs (m : Mode) {b b' : RLBuilder} {B : List Bool} {done : List (List (Nat × Nat))}
    {cur : List (Nat × Nat)} (h : Abs b B done cur) (n : Nat) (hn : n < U64)
    (hs : b.setLen m n = ok b') :
    ∃ done' cur', Abs b' (B ++ setLenBits b n) done' cur' := by
  obtain ⟨hi, hd, hl, hcnt, hrn⟩ := h
  have hinv' := setLen_inv m hi n hn hs
  unfold setLen at hs
  by_cases hc : n > b.len
  · rw [if_pos hc] at hs
    obtain ⟨b1, done', cur', e, hd1, l1, l2, l3, hfl⟩ := flush_dinv m hi hd
    have hr2 : b1.run.2 = 0 := by rw [l3]
    rw [e, bind_ok] at hs
    injection hs with hs; subst hs
    refine ⟨done', cur', hinv', dinv_congr hd1 rfl rfl (by show b1.ones - 0 = b1.ones - b1.run.2; omega) rfl,
      by simp [setLenBits, hl]; omega,
      by simp [setLenBits, List.count_append, List.count_replicate, hcnt, l2], ?_⟩
    intro bs
    have hB : (B ++ setLenBits b n) ++ bs = B ++ (List.replicate (n - b.len) false ++ bs) := by
      simp [setLenBits]
    have i1 := hi.tail_le
    rw [hB, hrn, hfl]
    have hpend : pend { b1 with len := n, run := (n, 0) } = none := by unfold pend; rw [if_pos rfl]
    rw [hpend]
    show _ = _ ++ runsOf bs n none
    unfold pend
    by_cases hr0 : b.run.2 = 0
    · rw [if_pos hr0, if_pos hr0, List.append_nil, runsOf_false_none,
        show b.len + (n - b.len) = n by omega]
    · have ht : span (done.flatten ++ cur) = b.tail := by rw [span_append, hd.tail]
      have hF : absRuns 0 (done.flatten ++ cur ++ [(b.run.1 - b.tail, b.run.2)]) =
          absRuns 0 (done.flatten ++ cur) ++ [b.run] := by
        rw [absRuns_append, ht]
        simp only [absRuns]
        rw [show 0 + b.tail + (b.run.1 - b.tail) = b.run.1 by omega]
      rw [if_neg hr0, if_neg hr0, runsOf_false_some _ (by omega),
        show b.len + (n - b.len) = n by omega, hF, List.append_assoc]
      rfl
  · rw [if_neg hc] at hs; injection hs with hs; subst hs
    have hz : n - b.len = 0 := by omega
    refine ⟨done, cur, hi, hd, by simp [setLenBits, hz, hl], by simp [setLenBits, hz, hcnt], ?_⟩
    intro bs; simpa [setLenBits, hz] using hrn bs

end RLBuilder

/-! ## 7c. `From<RLBuilder>` and the layout of the result -/

theorem Outcome.bind_eq_ok {α β} {x : Outcome α} {f : α → Outcome β} {v : β} (h : (x >>= f) = ok v) :
    ∃ a, x = ok a ∧ f a = ok v := by
  cases x with
  | ok a => exact ⟨a, rfl, h⟩
  | fault e => cases h

namespace IntVec

/-- flattened (ones, bits) samples as stored (`w` = item width) -/
def pairsFlat (w : Nat) : List (Nat × Nat) → List Nat
  | [] => []
  | p :: r => (BitVec.ofNat 64 p.1).toNat % 2 ^ w :: (BitVec.ofNat 64 p.2).toNat % 2 ^ w :: pairsFlat w r

theorem push2_spec (sl : List (Nat × Nat)) : ∀ {s0 : IntVec}, s0.WF →
    let s := sl.foldl (fun s p => (s.push (BitVec.ofNat 64 p.1)).push (BitVec.ofNat 64 p.2)) s0
    s.WF ∧ s.width = s0.width ∧ s.len = s0.len + 2 * sl.length ∧
      s.items = s0.items ++ pairsFlat s0.width sl := by
  induction sl with
  | nil => intro s0 h; simp [h, pairsFlat]
  | cons p r ih =>
    intro s0 h
    have h1 := push_WF_rl h (BitVec.ofNat 64 p.1)
    have h2 := push_WF_rl h1 (BitVec.ofNat 64 p.2)
    obtain ⟨a, b, c, e⟩ := ih h2
    simp only [List.foldl_cons]
    refine ⟨a, by rw [b]; rfl, by rw [c]; simp; omega, ?_⟩
    rw [e, items_push_rl h1, items_push_rl h]
    simp [pairsFlat]

theorem pairsFlat_getElem? (w : Nat) : ∀ (sl : List (Nat × Nat)) (i : Nat) (h : i < sl.length),
    (pairsFlat w sl)[2 * i]? = some ((BitVec.ofNat 64 sl[i].1).toNat % 2 ^ w) ∧
    (pairsFlat w sl)[2 * i + 1]? = some ((BitVec.ofNat 64 sl[i].2).toNat % 2 ^ w) := by
  intro sl
  induction sl with
  | nil => intro i h; simp at h
  | cons p r ih =>
    intro i h
    cases i with
    | zero => simp [pairsFlat]
    | succ i =>
      have := ih i (by simpa using h)
      simp only [pairsFlat, show 2 * (i + 1) = 2 * i + 1 + 1 by omega, List.getElem?_cons_succ,
        List.getElem_cons_succ]
      exact this

end IntVec

namespace RL
open RunIter RLBuilder

/-- the fields of the vector produced by `From<RLBuilder>` whenever the conversion succeeds -/
theorem ofBuilder_fields (m : Mode) {b : RLBuilder} {v : RL} (h : ofBuilder m b = ok v) :
    ∃ b' w, b.flush m = ok b' ∧ v.len = b'.len ∧ v.ones = b'.ones ∧ v.data = b'.data ∧
      1 ≤ w ∧ w ≤ 64 ∧
      w = bitLen (BitVec.ofNat 64 ((b'.samples.toList.getLast?.map (·.2)).getD 0)) ∧
      v.samples = b'.samples.toList.foldl
        (fun s p => (s.push (BitVec.ofNat 64 p.1)).push (BitVec.ofNat 64 p.2)) ⟨0, w, RawVec.empty⟩ := by
  unfold ofBuilder at h
  obtain ⟨b', hb', h⟩ := Outcome.bind_eq_ok h
  obtain ⟨ri, _, h⟩ := Outcome.bind_eq_ok h
  obtain ⟨si, _, h⟩ := Outcome.bind_eq_ok h
  obtain ⟨zeros, _, h⟩ := Outcome.bind_eq_ok h
  obtain ⟨zs, _, h⟩ := Outcome.bind_eq_ok h
  obtain ⟨zi, _, h⟩ := Outcome.bind_eq_ok h
  obtain ⟨smp0, h0, h⟩ := Outcome.bind_eq_ok h
  unfold IntVec.withCapacity IntVec.new at h0
  cases hgl : b'.samples.toList.getLast? with
  | none =>
    simp only [hgl] at h0 h
    by_cases hw : bitLen (BitVec.ofNat 64 0) = 0 ∨ bitLen (BitVec.ofNat 64 0) > 64
    · rw [if_pos hw] at h0; cases h0
    · rw [if_neg hw] at h0
      injection h0 with h0; subst h0
      injection h with h; subst h
      exact ⟨b', _, hb', rfl, rfl, rfl, by omega, by omega, by rw [hgl]; rfl, rfl⟩
  | some p =>
    simp only [hgl] at h0 h
    by_cases hw : bitLen (BitVec.ofNat 64 p.2) = 0 ∨ bitLen (BitVec.ofNat 64 p.2) > 64
    · rw [if_pos hw] at h0; cases h0
    · rw [if_neg hw] at h0
      injection h0 with h0; subst h0
      injection h with h; subst h
      exact ⟨b', _, hb', rfl, rfl, rfl, by omega, by omega, by rw [hgl]; rfl, rfl⟩

theorem cum_succ (bl : List (List (Nat × Nat))) (i : Nat) (h : i < bl.length) :
    lens (bl.take (i + 1)).flatten = lens (bl.take i).flatten + lens bl[i] := by
  rw [List.take_add_one, List.getElem?_eq_getElem h]
  rw [Option.toList_some, List.flatten_append, lens_append]
  simp only [List.flatten_cons, List.flatten_nil, List.append_nil]

theorem span_take_mono (L : List (List (Nat × Nat))) (j k : Nat) (h : j ≤ k) :
    span (L.take j).flatten ≤ span (L.take k).flatten := by
  have : L.take k = L.take j ++ (L.take k).drop j := by
    have := List.take_append_drop j (L.take k)
    rw [List.take_take, Nat.min_eq_left h] at this
    exact this.symm
  rw [this, List.flatten_append, span_append]; omega

/-- reading the ones-sample of block `j` back from the packed sample vector -/
theorem samples_read {sl : List (Nat × Nat)} {w : Nat} (h1 : 1 ≤ w) (h2 : w ≤ 64) :
    let s := sl.foldl (fun s p => (s.push (BitVec.ofNat 64 p.1)).push (BitVec.ofNat 64 p.2))
      (⟨0, w, RawVec.empty⟩ : IntVec)
    s.len = 2 * sl.length ∧
    ∀ j (h : j < sl.length), sl[j].1 < 2 ^ w →
      s.get (2 * j) = ok (s.getRaw (2 * j)) ∧ (s.getRaw (2 * j)).toNat = sl[j].1 := by
  have h0 : (⟨0, w, RawVec.empty⟩ : IntVec).WF := ⟨h1, h2, by simp [RawVec.empty], RawVec.empty_WF⟩
  obtain ⟨a, b, c, e⟩ := IntVec.push2_spec sl h0
  intro s
  have c' : s.len = 2 * sl.length := by rw [c]; simp
  refine ⟨c', ?_⟩
  intro j hj hlt
  have hidx : 2 * j < s.len := by omega
  refine ⟨IntVec.get_ok_rl hidx, ?_⟩
  have hl : 2 * j < s.items.length := by rw [IntVec.items_length_rl]; exact hidx
  rw [← IntVec.items_getElem_rl s (2 * j) hl]
  have he : s.items = IntVec.pairsFlat w sl := by rw [e]; simp [IntVec.items]
  have := (IntVec.pairsFlat_getElem? w sl j hj).1
  rw [← he, List.getElem?_eq_getElem hl] at this
  injection this with this
  rw [this, BitVec.toNat_ofNat]
  have hpw : 2 ^ w ≤ 2 ^ 64 := Nat.pow_le_pow_right (by omega) h2
  rw [Nat.mod_eq_of_lt (show sl[j].1 < 2 ^ 64 by omega), Nat.mod_eq_of_lt hlt]

theorem layout_of_blocks (v : RL) (bl : List (List (Nat × Nat))) (cum : Nat → Nat)
    (hb : v.blocks = bl.length) (hones : v.ones = cum bl.length) (hlen : v.data.len ≤ 64 * bl.length)
    (hblk : ∀ i (h : i < bl.length), bl[i] ≠ [] ∧ BlockOK bl[i] ∧
      (∃ tail, v.data.items.drop (64 * i) = unitsOf bl[i] ++ tail) ∧
      v.onesAfter i = ok (cum i + lens bl[i]) ∧ cum (i + 1) = cum i + lens bl[i]) :
    ∀ k, k ≤ bl.length → Layout v (bl.length - k) (cum (bl.length - k)) (bl.drop (bl.length - k)) := by
  intro k
  induction k with
  | zero =>
    intro _
    rw [Nat.sub_zero, List.drop_length]
    exact ⟨hb, hones, hlen⟩
  | succ k ih =>
    intro hk
    have hi : bl.length - (k + 1) < bl.length := by omega
    obtain ⟨a1, a2, a3, a4, a5⟩ := hblk _ hi
    rw [List.drop_eq_getElem_cons hi]
    refine ⟨a1, a2.1, a2.2, a3, a4, ?_⟩
    rw [← a5, show bl.length - (k + 1) + 1 = bl.length - k by omega]
    exact ih (by omega)

/-- **what `From<RLBuilder>` produces**: whenever the conversion succeeds, the vector has the block layout
`bl` whose runs are the flushed runs followed by the pending run -/
theorem ofBuilder_layout (m : Mode) {b : RLBuilder} {v : RL} {done : List (List (Nat × Nat))}
    {cur : List (Nat × Nat)} (hi : b.Inv) (hd : DInv b done cur) (h : ofBuilder m b = ok v) :
    ∃ bl, Layout v 0 0 bl ∧
      bl.flatten = done.flatten ++ cur ++ (if b.run.2 = 0 then [] else [(b.run.1 - b.tail, b.run.2)]) ∧
      v.len = b.len ∧ v.ones = b.ones ∧ lens bl.flatten = b.ones ∧ span bl.flatten ≤ b.len := by
  obtain ⟨b', w, e', f1, f2, f3, w1, w2, wdef, f4⟩ := ofBuilder_fields m h
  obtain ⟨b1, done', cur', e, hd1, l1, l2, l3, hfl⟩ := flush_dinv m hi hd
  rw [e] at e'; injection e' with e'; subst e'
  have hi1 := flush_inv m hi e
  have hr2 : b1.run.2 = 0 := by rw [l3]
  have hr1 : b1.run.1 = b.len := by rw [l3]
  obtain ⟨d1, d2, d3, d4, d5, d6, d7, d8, d9, d10⟩ := hd1
  obtain ⟨sl1, sl2⟩ := samples_read (sl := b1.samples.toList) w1 w2
  rw [← f4] at sl1 sl2
  have hslen : b1.samples.toList.length = b1.samples.size := Array.length_toList
  have hones : b1.ones = lens done'.flatten + lens cur' := by rw [hr2] at d9; omega
  have htl := hi1.tail_le
  have hlt := hi1.len_lt
  have hsp : span (done'.flatten ++ cur') ≤ b.len := by rw [span_append, ← d10]; omega
  by_cases hcur : cur' = []
  · have hdn := d3 hcur
    subst hcur; subst hdn
    simp only [if_true, List.length_nil, Nat.add_zero] at d4
    refine ⟨[], ⟨?_, ?_, ?_⟩, by rw [← hfl]; rfl, by rw [f1, l1], by rw [f2, l2], ?_, by simp [span]⟩
    · show v.samples.len / 2 = 0; rw [sl1, hslen, d4]
    · rw [f2, hones]; rfl
    · rw [f3, d7]; simp [unitsOf]
    · rw [← l2, hones]; rfl
  · rw [if_neg hcur] at d4
    -- all blocks uniformly
    have hbl : (done' ++ [cur']).length = done'.length + 1 := by simp
    have htake : ∀ j, j ≤ done'.length → (done' ++ [cur']).take j = done'.take j :=
      fun j hj => List.take_append_of_le_length hj
    have hmv : (b1.samples.toList.getLast?.map (·.2)).getD 0 = span done'.flatten := by
      rw [List.getLast?_eq_getElem?, hslen, d4, Nat.add_sub_cancel,
        List.getElem?_eq_getElem (by rw [hslen, d4]; omega), Array.getElem_toList]
      rw [d8 _ (by omega)]
      simp [List.take_length]
    have hmvlt : span done'.flatten < 2 ^ 64 := by
      rw [← U64_eq]; rw [span_append] at hsp; rw [l1] at hlt; omega
    obtain ⟨_, _, hmvw, _⟩ := bitLen_spec_rl _ hmvlt
    rw [← hmv, ← wdef] at hmvw
    have hsval : ∀ j (hj : j < done'.length + 1),
        v.samples.get (2 * j) = ok (v.samples.getRaw (2 * j)) ∧
        (v.samples.getRaw (2 * j)).toNat = lens (done'.take j).flatten := by
      intro j hj
      have hj' : j < b1.samples.toList.length := by rw [hslen, d4]; exact hj
      have hv : b1.samples.toList[j] = (lens (done'.take j).flatten, span (done'.take j).flatten) := by
        rw [Array.getElem_toList, d8 j (by omega)]
      have hbound : b1.samples.toList[j].1 < 2 ^ w := by
        rw [hv]
        have a := lens_le_span (done'.take j).flatten
        have c := span_take_mono done' j done'.length (by omega)
        rw [List.take_length] at c
        rw [hmv] at hmvw
        show lens (done'.take j).flatten < 2 ^ w
        omega
      obtain ⟨g1, g2⟩ := sl2 j hj' hbound
      exact ⟨g1, by rw [g2, hv]⟩
    have hblocks : v.blocks = done'.length + 1 := by
      show v.samples.len / 2 = _; rw [sl1, hslen, d4]; omega
    have hL := layout_of_blocks v (done' ++ [cur']) (fun i => lens ((done' ++ [cur']).take i).flatten)
      (by rw [hblocks, hbl])
      (by
        show v.ones = lens ((done' ++ [cur']).take (done' ++ [cur']).length).flatten
        rw [List.take_length, List.flatten_append, lens_append, f2, hones]; simp)
      (by rw [f3, d7, hbl]; have := d2.2; omega)
      (by
        intro i hib
        rw [hbl] at hib
        have hcs := cum_succ (done' ++ [cur']) i (by rw [hbl]; exact hib)
        have hona : v.onesAfter i = ok (lens ((done' ++ [cur']).take (i + 1)).flatten) := by
          unfold onesAfter
          by_cases hlast : i + 1 < v.blocks
          · rw [if_pos hlast]
            obtain ⟨g1, g2⟩ := hsval (i + 1) (by omega)
            rw [g1]; simp only [bind_ok, pure_eq]
            rw [g2, htake (i + 1) (by omega)]
          · rw [if_neg hlast]
            have hie : i = done'.length := by omega
            rw [hie, ← hbl, List.take_length, List.flatten_append, lens_append, f2, hones]; simp
        by_cases hid : i < done'.length
        · obtain ⟨tail, ht⟩ := d5 i hid
          have hget : (done' ++ [cur'])[i]'(by rw [hbl]; exact hib) = done'[i] := List.getElem_append_left hid
          refine ⟨by rw [hget]; exact (d1 _ (List.getElem_mem hid)).1,
            by rw [hget]; exact (d1 _ (List.getElem_mem hid)).2,
            ⟨tail, by rw [hget, f3]; exact ht⟩, by rw [hona, hcs], hcs⟩
        · have hie : i = done'.length := by omega
          subst hie
          have hget : (done' ++ [cur'])[done'.length]'(by rw [hbl]; exact hib) = cur' :=
            List.getElem_concat_length rfl _
          refine ⟨by rw [hget]; exact hcur, by rw [hget]; exact d2,
            ⟨[], by rw [hget, f3, d6, List.append_nil]⟩, by rw [hona, hcs], hcs⟩)
      (done' ++ [cur']).length (Nat.le_refl _)
    rw [Nat.sub_self, List.drop_zero] at hL
    refine ⟨done' ++ [cur'], by simpa [lens] using hL, by rw [← hfl]; simp [List.flatten_append],
      by rw [f1, l1], by rw [f2, l2], ?_, ?_⟩
    · rw [List.flatten_append, lens_append, ← l2, hones]; simp
    · have : (done' ++ [cur']).flatten = done'.flatten ++ cur' := by simp [List.flatten_append]
      rw [this]; exact hsp

theorem absRuns_length (pos : Nat) (l : List (Nat × Nat)) : (absRuns pos l).length = l.length := by
  induction l generalizing pos with
  | nil => rfl
  | cons p l ih => simp [absRuns, ih]

/-- **round trip, one builder state**: if `B` is the bit sequence described by the builder (`Abs`) and
`From<RLBuilder>` succeeds, then `run_iter()` + `next()` until `None` yields exactly the maximal runs of
`B`, each with the iterator position `(ones up to and including the run, end of the run)` right after it
(`withPos`), the final position is (number of ones, end of the last run), and `len`/`ones` are those of `B` -/
theorem ofBuilder_runs (m : Mode) {b : RLBuilder} {v : RL} {B : List Bool}
    {done : List (List (Nat × Nat))} {cur : List (Nat × Nat)}
    (ha : Abs b B done cur) (h : ofBuilder m b = ok v) :
    v.len = B.length ∧ v.ones = B.count true ∧
    ∃ it0 e endPos, v.runIter = ok it0 ∧
      collect m v ((maximalRuns B).length + 1) it0 = ok (withPos 0 (maximalRuns B), e) ∧
      e.pos = (B.count true, endPos) ∧ endPos ≤ B.length := by
  obtain ⟨hi, hd, hl, hcnt, hrn⟩ := ha
  obtain ⟨bl, hL, hfl, g1, g2, g3, g4⟩ := ofBuilder_layout m hi hd h
  have hlt := hi.len_lt
  have hol := hi.ones_le
  have htl := hi.tail_le
  have hruns : absRuns 0 bl.flatten = maximalRuns B := by
    have := hrn []
    rw [List.append_nil] at this
    unfold maximalRuns
    rw [this, hfl]
    unfold pend
    by_cases hr0 : b.run.2 = 0
    · rw [if_pos hr0, if_pos hr0, List.append_nil]; simp [runsOf]
    · have ht : span (done.flatten ++ cur) = b.tail := by rw [span_append, hd.tail]
      rw [if_neg hr0, if_neg hr0, absRuns_append, ht]
      simp only [absRuns, runsOf]
      rw [show 0 + b.tail + (b.run.1 - b.tail) = b.run.1 by omega]
  obtain ⟨it0, e, r1, r2, r3⟩ := runIter_collect m v bl hL (by omega) (by omega)
  refine ⟨by rw [g1, hl], by rw [g2, hcnt], it0, e, span bl.flatten, r1, ?_, by rw [r3, g3, hcnt], by omega⟩
  rw [← hruns, absRuns_length]; exact r2

/-- the bits described by a sequence of accepted `try_set(start, len)` calls -/
def specStep (B : List Bool) (c : Nat × Nat) : List Bool :=
  B ++ (if c.2 = 0 then [] else List.replicate (c.1 - B.length) false ++ List.replicate c.2 true)

def runCalls (m : Mode) : List (Nat × Nat) → RLBuilder → Outcome RLBuilder
  | [], b => ok b
  | c :: cs, b => do let b ← b.trySet m c.1 c.2; runCalls m cs b

theorem runCalls_abs (m : Mode) : ∀ (calls : List (Nat × Nat)) (b b' : RLBuilder) (B : List Bool)
    (done : List (List (Nat × Nat))) (cur : List (Nat × Nat)),
    (∀ c ∈ calls, c.2 < U64) → Abs b B done cur → runCalls m calls b = ok b' →
    ∃ done' cur', Abs b' (calls.foldl specStep B) done' cur' := by
  intro calls
  induction calls with
  | nil =>
    intro b b' B done cur _ ha h
    injection h with h; subst h; exact ⟨done, cur, ha⟩
  | cons c cs ih =>
    intro b b' B done cur hc ha h
    obtain ⟨b1, h1, h2⟩ := Outcome.bind_eq_ok h
    obtain ⟨done1, cur1, ha1⟩ := trySet_abs m ha c.1 c.2 (hc c (by simp)) h1
    have : B ++ setBits b c.1 c.2 = specStep B c := by
      unfold setBits specStep; rw [ha.len]
    rw [this] at ha1
    exact ih b1 b' _ done1 cur1 (fun c' hc' => hc c' (by simp [hc'])) ha1 h2

/-- **round trip (item 7)**: build with any sequence of `try_set` calls (see `build_iterate_calls` for
histories with `set_len`), convert, iterate:
the iterator yields exactly `maximalRuns` of the described bit sequence, in both arithmetic modes, with
`pos = (ones so far, end of run)` after every run; `len`, `ones` and the final position agree with it.
The success of the conversion is a hypothesis (with the code as first written it could fail on a valid
builder: see `zeroIdx_*` below). -/
theorem build_iterate (m : Mode) (calls : List (Nat × Nat)) (hc : ∀ c ∈ calls, c.2 < U64)
    (b : RLBuilder) (hb : runCalls m calls {} = ok b) (v : RL) (hv : ofBuilder m b = ok v) :
    let B := calls.foldl specStep []
    v.len = B.length ∧ v.ones = B.count true ∧
    ∃ it0 e endPos, v.runIter = ok it0 ∧
      collect m v ((maximalRuns B).length + 1) it0 = ok (withPos 0 (maximalRuns B), e) ∧
      e.pos = (B.count true, endPos) ∧ endPos ≤ B.length := by
  obtain ⟨done, cur, ha⟩ := runCalls_abs m calls {} b [] [] [] hc abs_empty hb
  exact ofBuilder_runs m ha hv

/-! ### the same with `set_len` and `set_bit` calls

`runCalls` / `build_iterate` were stated for `try_set` calls only because `set_len` as first written broke the
builder invariant (F9).  With the repaired `set_len` the round trip holds for all three kinds of calls. -/

/-- one builder call under the model's current definitions (`bit i` is `try_set(i, 1)`) -/
def applyCall (m : Mode) (b : RLBuilder) : BCall → Outcome RLBuilder
  | .set start len => b.trySet m start len
  | .setLen n => b.setLen m n
  | .bit i => b.trySet m i 1

/-- the bits described after an accepted call: `try_set(start, len)` appends zeros up to `start` and `len`
ones, `set_len(n)` appends zeros up to `n`, `set_bit(i)` appends zeros up to `i` and a one -/
def specCall (B : List Bool) : BCall → List Bool
  | .set start len => specStep B (start, len)
  | .setLen n => B ++ List.replicate (n - B.length) false
  | .bit i => specStep B (i, 1)

/-- the arguments are `usize` values -/
def callArgsOk : BCall → Prop
  | .set _ len => len < U64
  | .setLen n => n < U64
  | .bit _ => True

def runBCalls (m : Mode) : List BCall → RLBuilder → Outcome RLBuilder
  | [], b => ok b
  | c :: cs, b => do let b ← applyCall m b c; runBCalls m cs b

theorem applyCall_abs (m : Mode) {b b' : RLBuilder} {B : List Bool} {done : List (List (Nat × Nat))}
    {cur : List (Nat × Nat)} (ha : Abs b B done cur) (c : BCall) (hc : callArgsOk c)
    (h : applyCall m b c = ok b') : ∃ done' cur', Abs b' (specCall B c) done' cur' := by
  cases c with
  | set start len =>
    obtain ⟨done1, cur1, ha1⟩ := trySet_abs m ha start len hc h
    have : B ++ setBits b start len = specCall B (.set start len) := by
      unfold setBits specCall specStep; rw [ha.len]
    rw [this] at ha1; exact ⟨done1, cur1, ha1⟩
  | setLen n =>
    obtain ⟨done1, cur1, ha1⟩ := setLen_abs m ha n hc h
    have : B ++ setLenBits b n = specCall B (.setLen n) := by
      unfold setLenBits specCall; rw [ha.len]
    rw [this] at ha1; exact ⟨done1, cur1, ha1⟩
  | bit i =>
    obtain ⟨done1, cur1, ha1⟩ := trySet_abs m ha i 1 (by decide) h
    have : B ++ setBits b i 1 = specCall B (.bit i) := by
      unfold setBits specCall specStep; rw [ha.len]
    rw [this] at ha1; exact ⟨done1, cur1, ha1⟩

theorem runBCalls_abs (m : Mode) : ∀ (calls : List BCall) (b b' : RLBuilder) (B : List Bool)
    (done : List (List (Nat × Nat))) (cur : List (Nat × Nat)),
    (∀ c ∈ calls, callArgsOk c) → Abs b B done cur → runBCalls m calls b = ok b' →
    ∃ done' cur', Abs b' (calls.foldl specCall B) done' cur' := by
  intro calls
  induction calls with
  | nil =>
    intro b b' B done cur _ ha h
    injection h with h; subst h; exact ⟨done, cur, ha⟩
  | cons c cs ih =>
    intro b b' B done cur hc ha h
    obtain ⟨b1, h1, h2⟩ := Outcome.bind_eq_ok h
    obtain ⟨done1, cur1, ha1⟩ := applyCall_abs m ha c (hc c (by simp)) h1
    exact ih b1 b' _ done1 cur1 (fun c' hc' => hc c' (by simp [hc'])) ha1 h2

/-- **round trip with `set_len`**: build with any sequence of accepted `try_set` / `set_len` / `set_bit`
calls, convert, iterate: the iterator yields exactly `maximalRuns` of the described bit sequence, in both
arithmetic modes; `len`, `ones` and the final position agree with it -/
theorem build_iterate_calls (m : Mode) (calls : List BCall) (hc : ∀ c ∈ calls, callArgsOk c)
    (b : RLBuilder) (hb : runBCalls m calls {} = ok b) (v : RL) (hv : ofBuilder m b = ok v) :
    let B := calls.foldl specCall []
    v.len = B.length ∧ v.ones = B.count true ∧
    ∃ it0 e endPos, v.runIter = ok it0 ∧
      collect m v ((maximalRuns B).length + 1) it0 = ok (withPos 0 (maximalRuns B), e) ∧
      e.pos = (B.count true, endPos) ∧ endPos ≤ B.length := by
  obtain ⟨done, cur, ha⟩ := runBCalls_abs m calls {} b [] [] [] hc abs_empty hb
  exact ofBuilder_runs m ha hv

/-- F9 end to end: `set_len(10)`, `try_set(10, 5)`, convert, iterate.  With the repaired `set_len` the
vector has length 15 and its only run is `(10, 5)` (the old code produced the run `(0, 5)`) -/
theorem F9_fixed_roundtrip :
    (do let b ← runBCalls .checked [.setLen 10, .set 10 5] {}
        let v ← ofBuilder .checked b
        let it ← v.runIter
        let (rs, _) ← collect .checked v 2 it
        return (v.len, v.ones, rs.map (·.1))) = ok (15, 5, [(10, 5)]) := by decide +kernel

/-! ### a former finding (F10): `From<RLBuilder>` used to panic on a valid builder

`build_iterate` has to *assume* that the conversion succeeds.  With the code as first written it did not
always: the select-zero index is built from `bits - ones` at the start of each block, and `SampleIndex::new`
asserted that its input is *strictly* increasing (`consumeOld`).  Block 0 always has 0 zeros before it;
block 1 also has 0 zeros before it when block 0 holds nothing but a run starting at bit 0.  That needs a
second run whose two codes do not fit into the remaining 42 units (gap ≥ 2^63: 22 units, length > 2^60:
21 units), and the assertion is only evaluated when there are at least 9 blocks (so that `parameters` asks
for 2 samples).  All calls below are accepted, every quantity fits in 64 bits (`len < 2^64`), and the rank
and select indexes are built without complaint.  The repaired `SampleIndex::new` asserts non-decreasing
values (`consume`), and the same builder now converts successfully. -/

def zeroIdxCalls : List (Nat × Nat) :=
  (0, 2 ^ 60 + 1) :: (2 ^ 60 + 1 + 2 ^ 63, 2 ^ 60 + 1) ::
    (List.range 203).map fun i => (2 ^ 60 + 1 + 2 ^ 63 + 2 ^ 60 + 1 + 1 + 2 * i, 1)

/-- the builder accepts all 205 runs; it ends with 9 blocks, and blocks 0 and 1 both start with 0 zeros -/
theorem zeroIdx_builder_ok :
    (do let b ← runCalls .checked zeroIdxCalls {}
        let b ← b.flush .checked
        return (b.len < U64, b.samples.size, (b.samples.toList.map (fun p => p.2 - p.1)).take 3)) =
      ok (true, 9, [0, 0, 2 ^ 63 + 10]) := by decide +kernel

/-- … and with the repaired `SampleIndex::new` the conversion now **succeeds**, in both modes (it used to
panic on the strict-monotonicity assertion): the vector has the builder's `len` and `ones`, 9 blocks, and a
select-zero index with two samples -/
theorem zeroIdx_ofBuilder_ok :
    (do let b ← runCalls .checked zeroIdxCalls {}
        let v ← ofBuilder .checked b
        return (v.len, v.ones, v.blocks, v.selectZeroIndex.divisor, v.selectZeroIndex.samples.items)) =
      ok (2 ^ 63 + 2 ^ 61 + 408, 2 ^ 61 + 205, 9, 2 ^ 62 + 102, [0, 1]) ∧
    (do let b ← runCalls .wrapping zeroIdxCalls {}
        let v ← ofBuilder .wrapping b
        return (v.len, v.ones, v.blocks, v.selectZeroIndex.divisor, v.selectZeroIndex.samples.items)) =
      ok (2 ^ 63 + 2 ^ 61 + 408, 2 ^ 61 + 205, 9, 2 ^ 62 + 102, [0, 1]) := by
  constructor
  · decide +kernel
  · decide +kernel

/-- all three sample indexes are built now -/
theorem zeroIdx_which :
    (do let b ← runCalls .checked zeroIdxCalls {}
        let b ← b.flush .checked
        let sl := b.samples.toList
        let zs ← sl.mapM (fun p => subM .checked p.2 p.1)
        let z ← b.countZeros .checked
        return ((SampleIndex.new .checked (sl.map (·.2)) b.len).isOk,
                (SampleIndex.new .checked (sl.map (·.1)) b.ones).isOk,
                (SampleIndex.new .checked zs z).isOk)) = ok (true, true, true) := by decide +kernel

/-- what went wrong with the code as first written, on the very same data: the zero counts at the block
starts are `0, 0, 2^63 + 10, …` (non-decreasing, not strictly increasing); `parameters` asks for 2 samples
with divisor `2^62 + 102`; the inner loop of `new` for sample 1 meets the duplicate `0` below the threshold:
the old loop (`consumeOld`, strict assertion) panics, the repaired loop consumes it and stops at index 1 -/
theorem zeroIdx_old_loop_panics :
    (do let b ← runCalls .checked zeroIdxCalls {}
        let b ← b.flush .checked
        let zs ← b.samples.toList.mapM (fun p => subM .checked p.2 p.1)
        let z ← b.countZeros .checked
        let (ns, d) ← SampleIndex.parameters .checked zs.length z
        return (zs.take 3, ns, d)) = ok ([0, 0, 2 ^ 63 + 10], 2, 2 ^ 62 + 102) ∧
    (do let b ← runCalls .checked zeroIdxCalls {}
        let b ← b.flush .checked
        let zs ← b.samples.toList.mapM (fun p => subM .checked p.2 p.1)
        let r ← SampleIndex.consumeOld (2 ^ 62 + 102) zs.length 0 0 (zs.drop 1)
        return r.1) = fault (.panic .assert) ∧
    (do let b ← runCalls .checked zeroIdxCalls {}
        let b ← b.flush .checked
        let zs ← b.samples.toList.mapM (fun p => subM .checked p.2 p.1)
        let r ← SampleIndex.consume (2 ^ 62 + 102) zs.length 0 0 (zs.drop 1)
        return (r.1, r.2.1, r.2.2.length)) = ok (1, 0, 7) := by
  refine ⟨?_, ?_, ?_⟩
  · decide +kernel
  · decide +kernel
  · decide +kernel

end RL

end Sds
