/-
Proofs/GenEqLoop4: the level loops of `wavelet_matrix/wm_core.rs` (`map_down`, `map_down_with`,
`map_down_with_two_positions`, `map_up_with`) as TRANSLATED statement by statement from the source
(Generated/FnsLoop.lean; `for level in 0..width` / `(0..width).rev()` are `loopM fuel step init` over a counter and
the control type `Ctl`) are equal to the hand-written model definitions of Model/WM.lean (`List.range width` folds).

Method: `for_loop` (forward) and `rev_loop` (backward, with `?` in the body) relate `loopM` over the counter to
`List.foldlM` over `List.range' i k` resp. `(List.range i).reverse`, for ANY `step` that satisfies the one-step
equations below the bound.

Hypotheses:
* `c.width ≤ 64` (`bit_value` is `1 << (width - 1 - level)`; the loader enforces it).
* `hs : ∀ l i b r, c.level l = ok b → b.rankQ i = ok r → b.countZeros + r < U64` (the hypothesis of
  `wm_map_down_one_eq_model` at every level: `map_down_one` adds `count_zeros() + rank(index)` with the mode's
  arithmetic, the model in `Nat`; only a level of length ≥ 2^64 violates it, `wm_map_down_one_ne`).
* NO hypothesis on `value`: `value & bit_value(level) != 0` on the word `value mod 2^64` is the model's
  `(value / 2^(width-1-level)) % 2 = 1` for every `value : Nat`, because `width - 1 - level < 64`
  (`and_two_pow_ne_zero_iff`).
* `map_down`: `value += bit_value(level)` is a `u64` addition (`addW m`), the model adds in `Nat`.  The invariant
  `acc + 2^(width - level) ≤ 2^width` shows that the partial sums never overflow (`map_down_fold`).
* `map_down_with_two_positions`: the code advances `first` and `second` level by level, the sequential composition
  of two `mapDownWith` runs all levels for `first` and then all levels for `second`.  The RESULTS agree, but the
  FAULT can differ when BOTH runs fault, with different faults, the second one at an earlier level
  (`wm_map_down_two_ne`).  `wm_map_down_two_eq` therefore carries `hf` ("if both runs fault they fault alike"), which
  holds in particular when either run succeeds (`wm_map_down_two_eq_of_ok_left / _right`);
  `wm_map_down_two_cases` is the unconditional statement, `wm_map_down_two_ok_iff` the success case.
* Sharpness: `wm_map_down_with_width_ne` (65 levels), `wm_map_down_with_hs_ne` (a level of length 2^64),
  `wm_map_down_two_ne` + `twoNeEx_hs` (levels with inconsistent rank supports).  None of them is a divergence between
  the code and the model on a matrix that is loaded or built: for `c.Encodes V width` all hypotheses hold
  (`hs_of_encodes`, `wm_*_eq_of_encodes`).
-/
import Sds.Generated.FnsLoop
import Sds.Proofs.GenFns
import Sds.Proofs.GenEqIdx
import Sds.Proofs.WM

namespace Sds.GenEq
open Sds Outcome Generated

/-! ### vocabulary -/

private theorem loopM_succ' {σ ρ : Type} (n : Nat) (step : σ → Outcome (Ctl σ ρ)) (s : σ) :
    loopM (n + 1) step s = (step s).bind (fun c => match c with | .next s' => loopM n step s' | r => ok r) := rfl

private theorem obind_ok {α β : Type} (a : α) (f : α → Outcome β) : (ok a).bind f = f a := rfl
private theorem obind_fault {α β : Type} (e : Fault) (f : α → Outcome β) : (fault e : Outcome α).bind f = fault e := rfl

/-- the bit test of the code against the bit test of the model -/
theorem and_two_pow_ne_zero_iff (value k : Nat) (hk : k < 64) :
    ((BitVec.ofNat 64 value) &&& (BitVec.ofNat 64 (2 ^ k)) ≠ (0 : Word)) ↔ (value / 2 ^ k) % 2 = 1 := by
  have hp : 2 ^ k < 2 ^ 64 := Nat.pow_lt_pow_right (by decide) hk
  rw [BitVec.toNat_ne, BitVec.toNat_and, BitVec.toNat_ofNat, BitVec.toNat_ofNat, Nat.mod_eq_of_lt hp]
  have hb : value.testBit k = decide (value / 2 ^ k % 2 = 1) := Nat.testBit_eq_decide_div_mod_eq
  have hm : (value % 2 ^ 64).testBit k = value.testBit k := by
    rw [Nat.testBit_mod_two_pow]; simp [hk]
  constructor
  · intro h
    apply Classical.byContradiction
    intro hn
    apply h
    apply Nat.eq_of_testBit_eq
    intro i
    rw [Nat.testBit_and, Nat.testBit_two_pow]
    by_cases hi : k = i
    · subst hi; rw [hm, hb]; simp [hn]
    · simp [hi]
  · intro h he
    have h2 := congrArg (fun x => Nat.testBit x k) he
    simp only [Nat.testBit_and, hm, hb, h, Nat.testBit_two_pow] at h2
    simp at h2

/-- … at a level of a wavelet matrix of width ≤ 64 -/
theorem wm_bit_test (c : WMCore) (value l : Nat) (hl : l < c.width) (hw : c.width ≤ 64) :
    decide ((BitVec.ofNat 64 value) &&& (BitVec.ofNat 64 (c.bitValue l)) ≠ (0 : Word)) =
      decide ((value / c.bitValue l) % 2 = 1) := by
  have := and_two_pow_ne_zero_iff value (c.width - 1 - l) (by omega)
  unfold WMCore.bitValue
  exact decide_eq_decide.mpr this

/-! ### the two loop shapes -/

/-- `for i in lo..n { s = body(s, i)? }` -/
theorem for_loop {σ ρ : Type} (n : Nat) (body : σ → Nat → Outcome σ)
    (step : Nat × σ → Outcome (Ctl (Nat × σ) ρ))
    (h1 : ∀ i s, i < n → step (i, s) = (body s i).bind (fun s' => ok (Ctl.next (i + 1, s'))))
    (h2 : ∀ i s, ¬ i < n → step (i, s) = ok (Ctl.brk (i, s))) :
    ∀ k i s, i + k = n →
      loopM (k + 1) step (i, s) = ((List.range' i k).foldlM body s).bind (fun s' => ok (Ctl.brk (n, s'))) := by
  intro k
  induction k with
  | zero =>
    intro i s hi
    have : i = n := by omega
    subst this
    rw [loopM_succ', h2 i s (by omega)]; rfl
  | succ k ih =>
    intro i s hi
    rw [loopM_succ', h1 i s (by omega), List.range'_succ, List.foldlM_cons]
    simp only [Bind.bind]
    cases body s i with
    | fault f => rfl
    | ok s' => exact ih (i + 1) s' (by omega)

/-- … from `0` -/
theorem for_loop_range {σ ρ : Type} (n : Nat) (body : σ → Nat → Outcome σ)
    (step : Nat × σ → Outcome (Ctl (Nat × σ) ρ))
    (h1 : ∀ i s, i < n → step (i, s) = (body s i).bind (fun s' => ok (Ctl.next (i + 1, s'))))
    (h2 : ∀ i s, ¬ i < n → step (i, s) = ok (Ctl.brk (i, s))) (s : σ) :
    loopM (n - 0 + 1) step (0, s) = ((List.range n).foldlM body s).bind (fun s' => ok (Ctl.brk (n, s'))) := by
  rw [List.range_eq_range']
  exact for_loop n body step h1 h2 n 0 s (by omega)

private theorem foldlM_none {α : Type} (g : Option α → Nat → Outcome (Option α)) (hg : ∀ l, g none l = ok none)
    (ls : List Nat) : ls.foldlM g none = ok none := by
  induction ls with
  | nil => rfl
  | cons a t ih => rw [List.foldlM_cons, hg]; exact ih

private theorem range_succ_reverse' (n : Nat) : (List.range (n + 1)).reverse = n :: (List.range n).reverse := by
  rw [List.range_succ, List.reverse_append]; rfl

/-- a body that may produce `None` (`?` on an `Option`), lifted to the accumulator of a fold -/
def optStep {σ : Type} (body : σ → Nat → Outcome (Option σ)) (acc : Option σ) (l : Nat) : Outcome (Option σ) :=
  match acc with | none => ok none | some j => body j l

/-- `for i in (0..n).rev() { s = body(s, i)?? }` : the body may fault and may leave the function with `None` -/
theorem rev_loop {σ : Type} (n : Nat) (body : σ → Nat → Outcome (Option σ))
    (step : Nat × σ → Outcome (Ctl (Nat × σ) (Option σ)))
    (h1 : ∀ i s, 0 < i → i ≤ n → step (i, s) = (body s (i - 1)).bind (fun o =>
      match o with | none => ok (Ctl.ret none) | some s' => ok (Ctl.next (i - 1, s'))))
    (h2 : ∀ s, step (0, s) = ok (Ctl.brk (0, s))) :
    ∀ i s, i ≤ n →
      loopM (i + 1) step (i, s) =
        ((List.range i).reverse.foldlM (optStep body) (some s)).bind (fun o =>
          match o with | none => ok (Ctl.ret none) | some j => ok (Ctl.brk (0, j))) := by
  intro i
  induction i with
  | zero => intro s _; rw [loopM_succ', h2]; rfl
  | succ i ih =>
    intro s hi
    rw [loopM_succ', h1 (i + 1) s (by omega) hi, range_succ_reverse', List.foldlM_cons]
    simp only [Bind.bind, Nat.add_sub_cancel, optStep]
    cases body s i with
    | fault f => rfl
    | ok o =>
      cases o with
      | none =>
        simp only [Outcome.bind]
        rw [foldlM_none _ (fun _ => rfl)]
      | some s' => exact ih s' (by omega)

/-! ### `map_down_with` -/

/-- one level of `map_down_with` in the model -/
def downStep (m : Mode) (c : WMCore) (value : Nat) (i l : Nat) : Outcome Nat :=
  if (value / c.bitValue l) % 2 = 1 then c.mapDownOne i l else c.mapDownZero m i l

/-- `WMCore::map_down_with` -/
theorem wm_map_down_with_eq (m : Mode) (c : WMCore) (index value : Nat) (hw : c.width ≤ 64)
    (hs : ∀ l i b r, c.level l = ok b → b.rankQ i = ok r → b.countZeros + r < U64) :
    gen_WMCore_map_down_with m c index (BitVec.ofNat 64 value) = c.mapDownWith m index value := by
  unfold gen_WMCore_map_down_with WMCore.mapDownWith
  simp only [Bind.bind]
  cases hl : c.len with
  | fault f => rfl
  | ok n =>
    simp only [Outcome.bind]
    rw [for_loop_range (ρ := Nat) c.width (downStep m c value) _ (fun i s hi => by
        simp only [hi, decide_true, if_true, wm_bit_value_eq m c i hi hw, Outcome.bind,
          wm_bit_test c value i hi hw, wm_map_down_one_eq_model m c s i (hs i s), wm_map_down_zero_eq, downStep]
        by_cases hb : (value / c.bitValue i) % 2 = 1
        · simp only [hb, decide_true, if_true]; cases c.mapDownOne s i <;> rfl
        · simp only [hb, decide_false, Bool.false_eq_true, if_false]; cases c.mapDownZero m s i <;> rfl)
      (fun i s hi => by simp only [hi, decide_false, Bool.false_eq_true, if_false]; rfl)]
    show Outcome.bind (Outcome.bind (List.foldlM (downStep m c value) (min index n) (List.range c.width)) _) _ = _
    unfold downStep
    cases List.foldlM (fun i l => if (value / c.bitValue l) % 2 = 1 then c.mapDownOne i l else c.mapDownZero m i l)
      (min index n) (List.range c.width) <;> rfl

/-! ### `map_up_with` -/

/-- one level of `map_up_with` in the model -/
def upStep (m : Mode) (c : WMCore) (value : Nat) (i l : Nat) : Outcome (Option Nat) :=
  if (value / c.bitValue l) % 2 = 1 then c.mapUpOne m i l else c.mapUpZero m i l

/-- `WMCore::map_up_with` -/
theorem wm_map_up_with_eq (m : Mode) (c : WMCore) (index value : Nat) (hw : c.width ≤ 64) :
    gen_WMCore_map_up_with m c index (BitVec.ofNat 64 value) = c.mapUpWith m index value := by
  unfold gen_WMCore_map_up_with
  simp only [Bind.bind]
  rw [show c.width - 0 + 1 = c.width + 1 from rfl,
    rev_loop c.width (upStep m c value) _ (fun i s hi hn => by
        have hl : i - 1 < c.width := by omega
        simp only [hi, decide_true, if_true, wm_bit_value_eq m c (i - 1) hl hw, Outcome.bind,
          wm_bit_test c value (i - 1) hl hw, wm_map_up_one_eq, wm_map_up_zero_eq, upStep]
        by_cases hb : (value / c.bitValue (i - 1)) % 2 = 1
        · simp only [hb, decide_true, if_true]
          cases c.mapUpOne m s (i - 1) with
          | fault f => rfl
          | ok o => cases o <;> rfl
        · simp only [hb, decide_false, Bool.false_eq_true, if_false]
          cases c.mapUpZero m s (i - 1) with
          | fault f => rfl
          | ok o => cases o <;> rfl)
      (fun s => by simp only [Nat.lt_irrefl, decide_false, Bool.false_eq_true, if_false]; rfl)
      c.width index (Nat.le_refl _)]
  have hfold : (List.range c.width).reverse.foldlM (optStep (upStep m c value)) (some index) =
      c.mapUpWith m index value := by
    unfold WMCore.mapUpWith
    congr 1
    funext acc l
    cases acc <;> rfl
  rw [hfold]
  cases c.mapUpWith m index value with
  | fault f => rfl
  | ok o => cases o <;> rfl

/-! ### `map_down` -/

/-- one level of `map_down` in the model -/
def downAcc (m : Mode) (c : WMCore) (acc : Nat × Nat) (l : Nat) : Outcome (Nat × Nat) := do
  let b ← c.level l
  let bit ← b.get acc.1
  if bit then do
    let i ← c.mapDownOne acc.1 l
    return (i, acc.2 + c.bitValue l)
  else do
    let i ← c.mapDownZero m acc.1 l
    return (i, acc.2)

/-- one level of `map_down` in the code: the value is a `u64`, accumulated with the mode's addition -/
def downAccW (m : Mode) (c : WMCore) (acc : Nat × Word) (l : Nat) : Outcome (Nat × Word) :=
  (c.level l).bind (fun b => (b.get acc.1).bind (fun bit =>
    if bit then
      (c.mapDownOne acc.1 l).bind (fun i =>
        (addW m acc.2 (BitVec.ofNat 64 (c.bitValue l))).bind (fun v => ok (i, v)))
    else
      (c.mapDownZero m acc.1 l).bind (fun i => ok (i, acc.2))))

/-- the `u64` accumulation of `map_down` never overflows: before level `l` the accumulated value `v` satisfies
`v + 2^(width - l) ≤ 2^width` (it only has bits above `width - l`) -/
theorem map_down_fold (m : Mode) (c : WMCore) (hw : c.width ≤ 64) :
    ∀ k l i v, l + k = c.width → v + 2 ^ (c.width - l) ≤ 2 ^ c.width →
      (List.range' l k).foldlM (downAccW m c) (i, BitVec.ofNat 64 v) =
        ((List.range' l k).foldlM (downAcc m c) (i, v)).bind (fun p => ok (p.1, BitVec.ofNat 64 p.2)) := by
  intro k
  induction k with
  | zero => intro l i v _ _; rfl
  | succ k ih =>
    intro l i v hl hv
    have hpw : 2 ^ c.width ≤ 2 ^ 64 := Nat.pow_le_pow_right (by decide) hw
    have he : c.width - l = (c.width - 1 - l) + 1 := by omega
    have hp : 2 ^ (c.width - l) = 2 ^ (c.width - 1 - l) * 2 := by rw [he, Nat.pow_succ]
    have he' : c.width - (l + 1) = c.width - 1 - l := by omega
    have hpos : 0 < 2 ^ (c.width - 1 - l) := Nat.pow_pos (by decide)
    rw [List.range'_succ, List.foldlM_cons, List.foldlM_cons]
    simp only [Bind.bind, downAccW, downAcc, Pure.pure]
    cases c.level l with
    | fault f => rfl
    | ok b =>
      simp only [Outcome.bind]
      cases b.get i with
      | fault f => rfl
      | ok bit =>
        cases bit with
        | true =>
          simp only [if_true]
          cases c.mapDownOne i l with
          | fault f => rfl
          | ok i' =>
            have hadd : addW m (BitVec.ofNat 64 v) (BitVec.ofNat 64 (c.bitValue l)) =
                ok (BitVec.ofNat 64 (v + c.bitValue l)) := by
              unfold addW WMCore.bitValue
              rw [BitVec.toNat_ofNat, BitVec.toNat_ofNat, Nat.mod_eq_of_lt (by omega), Nat.mod_eq_of_lt (by omega),
                addM_ok (by rw [U64_eq]; omega)]
              rfl
            simp only [hadd]
            exact ih (l + 1) i' (v + c.bitValue l) (by omega) (by
              rw [he']; unfold WMCore.bitValue; omega)
        | false =>
          simp only [Bool.false_eq_true, if_false]
          cases c.mapDownZero m i l with
          | fault f => rfl
          | ok i' =>
            exact ih (l + 1) i' v (by omega) (by rw [he']; omega)

/-- `WMCore::map_down`: the same position, and the value as a word -/
theorem wm_map_down_eq (m : Mode) (c : WMCore) (index : Nat) (hw : c.width ≤ 64)
    (hs : ∀ l i b r, c.level l = ok b → b.rankQ i = ok r → b.countZeros + r < U64) :
    gen_WMCore_map_down m c index =
      (c.mapDown m index).bind (fun r => ok (r.map (fun p => (p.1, BitVec.ofNat 64 p.2)))) := by
  unfold gen_WMCore_map_down WMCore.mapDown
  simp only [Bind.bind]
  cases hl : c.len with
  | fault f => rfl
  | ok n =>
    simp only [obind_ok]
    by_cases hi : index ≥ n
    · simp only [hi, decide_true, if_true]; rfl
    · simp only [hi, decide_false, Bool.false_eq_true, if_false]
      rw [for_loop_range (ρ := Option (Nat × Word)) c.width (downAccW m c) _ (fun i s hi => by
          obtain ⟨idx, v⟩ := s
          simp only [hi, decide_true, if_true, wm_bit_value_eq m c i hi hw,
            wm_map_down_one_eq_model m c idx i (hs i idx), wm_map_down_zero_eq, downAccW]
          cases c.level i with
          | fault f => rfl
          | ok b =>
            simp only [Outcome.bind]
            cases b.get idx with
            | fault f => rfl
            | ok bit =>
              cases bit with
              | true =>
                simp only [if_true]
                cases c.mapDownOne idx i with
                | fault f => rfl
                | ok i' =>
                  simp only []
                  cases addW m v (BitVec.ofNat 64 (c.bitValue i)) <;> rfl
              | false =>
                simp only [Bool.false_eq_true, if_false]
                cases c.mapDownZero m idx i <;> rfl)
        (fun i s hi => by
          obtain ⟨idx, v⟩ := s
          simp only [hi, decide_false, Bool.false_eq_true, if_false]; rfl)]
      rw [List.range_eq_range', show (0 : Word) = BitVec.ofNat 64 0 from rfl,
        map_down_fold m c hw c.width 0 index 0 (by omega) (by rw [Nat.sub_zero]; omega)]
      show Outcome.bind (Outcome.bind (Outcome.bind (List.foldlM (downAcc m c) (index, 0) (List.range' 0 c.width)) _) _) _ =
        Outcome.bind (Outcome.bind (List.foldlM (downAcc m c) (index, 0) (List.range' 0 c.width)) _) _
      cases List.foldlM (downAcc m c) (index, 0) (List.range' 0 c.width) <;> rfl

/-! ### `map_down_with_two_positions` -/

/-- two accumulators advanced in lockstep by the same body -/
def pairStep {σ : Type} (f : σ → Nat → Outcome σ) (p : σ × σ) (l : Nat) : Outcome (σ × σ) :=
  (f p.1 l).bind (fun a => (f p.2 l).bind (fun b => ok (a, b)))

/-- two folds one after the other -/
def seqPair {σ : Type} (x y : Outcome σ) : Outcome (σ × σ) := x.bind (fun a => y.bind (fun b => ok (a, b)))

/-- the lockstep fold is the sequential composition of the two folds, except that when BOTH folds fault the
lockstep fold may report the fault of the second one (namely when it occurs at an earlier list element) -/
theorem pair_fold {σ : Type} (f : σ → Nat → Outcome σ) (ls : List Nat) :
    ∀ a b, ls.foldlM (pairStep f) (a, b) = seqPair (ls.foldlM f a) (ls.foldlM f b) ∨
      ∃ e e', ls.foldlM f a = fault e ∧ ls.foldlM f b = fault e' ∧ ls.foldlM (pairStep f) (a, b) = fault e' := by
  induction ls with
  | nil => intro a b; exact Or.inl rfl
  | cons l t ih =>
    intro a b
    rw [List.foldlM_cons, List.foldlM_cons, List.foldlM_cons]
    simp only [Bind.bind, pairStep]
    cases hfa : f a l with
    | fault e => exact Or.inl rfl
    | ok a' =>
      cases hfb : f b l with
      | fault e' =>
        simp only [obind_ok, obind_fault]
        cases hta : t.foldlM f a' with
        | fault e => exact Or.inr ⟨e, e', rfl, rfl, rfl⟩
        | ok a'' => exact Or.inl rfl
      | ok b' =>
        simp only [obind_ok]
        exact ih a' b'

theorem pair_fold_eq {σ : Type} (f : σ → Nat → Outcome σ) (ls : List Nat) (a b : σ)
    (hf : ∀ e e', ls.foldlM f a = fault e → ls.foldlM f b = fault e' → e = e') :
    ls.foldlM (pairStep f) (a, b) = seqPair (ls.foldlM f a) (ls.foldlM f b) := by
  cases pair_fold f ls a b with
  | inl h => exact h
  | inr h =>
    obtain ⟨e, e', h1, h2, h3⟩ := h
    rw [h3, h1, h2, hf e e' h1 h2]; rfl

/-- the loop of `map_down_with_two_positions` is the lockstep fold of the model step -/
theorem wm_map_down_two_fold (m : Mode) (c : WMCore) (first second value : Nat) (hw : c.width ≤ 64)
    (hs : ∀ l i b r, c.level l = ok b → b.rankQ i = ok r → b.countZeros + r < U64) :
    gen_WMCore_map_down_with_two_positions m c first second (BitVec.ofNat 64 value) =
      c.len.bind (fun n => (List.range c.width).foldlM (pairStep (downStep m c value)) (min first n, min second n)) := by
  unfold gen_WMCore_map_down_with_two_positions
  simp only [Bind.bind]
  cases hl : c.len with
  | fault f => rfl
  | ok n =>
    simp only [obind_ok]
    rw [for_loop_range (ρ := Nat × Nat) c.width (pairStep (downStep m c value)) _ (fun i s hi => by
        obtain ⟨a, b⟩ := s
        simp only [hi, decide_true, if_true, wm_bit_value_eq m c i hi hw, obind_ok,
          wm_bit_test c value i hi hw, wm_map_down_one_eq_model m c a i (hs i a),
          wm_map_down_one_eq_model m c b i (hs i b), wm_map_down_zero_eq, downStep, pairStep]
        by_cases hb : (value / c.bitValue i) % 2 = 1
        · simp only [hb, decide_true, if_true]
          cases c.mapDownOne a i with
          | fault f => rfl
          | ok a' => cases c.mapDownOne b i <;> rfl
        · simp only [hb, decide_false, Bool.false_eq_true, if_false]
          cases c.mapDownZero m a i with
          | fault f => rfl
          | ok a' => cases c.mapDownZero m b i <;> rfl)
      (fun i s hi => by
        obtain ⟨a, b⟩ := s
        simp only [hi, decide_false, Bool.false_eq_true, if_false]; rfl)]
    cases List.foldlM (pairStep (downStep m c value)) (min first n, min second n) (List.range c.width) with
    | fault f => rfl
    | ok p => obtain ⟨a, b⟩ := p; rfl

private theorem mapDownWith_unfold (m : Mode) (c : WMCore) (index value n : Nat) (hl : c.len = ok n) :
    c.mapDownWith m index value = (List.range c.width).foldlM (downStep m c value) (min index n) := by
  unfold WMCore.mapDownWith
  simp only [Bind.bind, hl, obind_ok]
  rfl

/-- `WMCore::map_down_with_two_positions`, unconditionally: the two `map_down_with` in sequence, or both of them fault
and the code reports the fault of the second -/
theorem wm_map_down_two_cases (m : Mode) (c : WMCore) (first second value : Nat) (hw : c.width ≤ 64)
    (hs : ∀ l i b r, c.level l = ok b → b.rankQ i = ok r → b.countZeros + r < U64) :
    gen_WMCore_map_down_with_two_positions m c first second (BitVec.ofNat 64 value) =
        (do let a ← c.mapDownWith m first value; let b ← c.mapDownWith m second value; pure (a, b)) ∨
      ∃ e e', c.mapDownWith m first value = fault e ∧ c.mapDownWith m second value = fault e' ∧
        gen_WMCore_map_down_with_two_positions m c first second (BitVec.ofNat 64 value) = fault e' := by
  rw [wm_map_down_two_fold m c first second value hw hs]
  cases hl : c.len with
  | fault f =>
    left
    unfold WMCore.mapDownWith
    simp only [Bind.bind, hl, obind_fault]
  | ok n =>
    rw [mapDownWith_unfold m c first value n hl, mapDownWith_unfold m c second value n hl, obind_ok]
    exact pair_fold (downStep m c value) (List.range c.width) (min first n) (min second n)

/-- `WMCore::map_down_with_two_positions` is the two `map_down_with` in sequence, provided that they fault alike if
they both fault (`wm_map_down_two_ne`: otherwise the FAULT of the code can be that of the second) -/
theorem wm_map_down_two_eq (m : Mode) (c : WMCore) (first second value : Nat) (hw : c.width ≤ 64)
    (hs : ∀ l i b r, c.level l = ok b → b.rankQ i = ok r → b.countZeros + r < U64)
    (hf : ∀ e e', c.mapDownWith m first value = fault e → c.mapDownWith m second value = fault e' → e = e') :
    gen_WMCore_map_down_with_two_positions m c first second (BitVec.ofNat 64 value) =
      (do let a ← c.mapDownWith m first value; let b ← c.mapDownWith m second value; pure (a, b)) := by
  cases wm_map_down_two_cases m c first second value hw hs with
  | inl h => exact h
  | inr h =>
    obtain ⟨e, e', h1, h2, h3⟩ := h
    rw [h3, h1, h2, hf e e' h1 h2]; rfl

/-- … in particular when the first one succeeds -/
theorem wm_map_down_two_eq_of_ok_left (m : Mode) (c : WMCore) (first second value a : Nat) (hw : c.width ≤ 64)
    (hs : ∀ l i b r, c.level l = ok b → b.rankQ i = ok r → b.countZeros + r < U64)
    (ha : c.mapDownWith m first value = ok a) :
    gen_WMCore_map_down_with_two_positions m c first second (BitVec.ofNat 64 value) =
      (do let b ← c.mapDownWith m second value; pure (a, b)) := by
  rw [wm_map_down_two_eq m c first second value hw hs (fun e e' h => by rw [ha] at h; cases h), ha]; rfl

/-- … or the second one -/
theorem wm_map_down_two_eq_of_ok_right (m : Mode) (c : WMCore) (first second value b : Nat) (hw : c.width ≤ 64)
    (hs : ∀ l i b r, c.level l = ok b → b.rankQ i = ok r → b.countZeros + r < U64)
    (hb : c.mapDownWith m second value = ok b) :
    gen_WMCore_map_down_with_two_positions m c first second (BitVec.ofNat 64 value) =
      (do let a ← c.mapDownWith m first value; pure (a, b)) := by
  rw [wm_map_down_two_eq m c first second value hw hs (fun e e' _ h => by rw [hb] at h; cases h), hb]
  cases c.mapDownWith m first value <;> rfl

/-- both succeed exactly when the code succeeds, with the same pair -/
theorem wm_map_down_two_ok_iff (m : Mode) (c : WMCore) (first second value a b : Nat) (hw : c.width ≤ 64)
    (hs : ∀ l i b r, c.level l = ok b → b.rankQ i = ok r → b.countZeros + r < U64) :
    gen_WMCore_map_down_with_two_positions m c first second (BitVec.ofNat 64 value) = ok (a, b) ↔
      c.mapDownWith m first value = ok a ∧ c.mapDownWith m second value = ok b := by
  constructor
  · intro h
    cases wm_map_down_two_cases m c first second value hw hs with
    | inl h' =>
      rw [h] at h'
      cases h1 : c.mapDownWith m first value with
      | fault f => rw [h1] at h'; cases h'
      | ok a' =>
        cases h2 : c.mapDownWith m second value with
        | fault f => rw [h1, h2] at h'; cases h'
        | ok b' => rw [h1, h2] at h'; cases h'; exact ⟨rfl, rfl⟩
    | inr h' =>
      obtain ⟨e, e', _, _, h3⟩ := h'
      rw [h] at h3; cases h3
  · intro ⟨h1, h2⟩
    rw [wm_map_down_two_eq_of_ok_left m c first second value a hw hs h1, h2]; rfl

/-! ### the hypotheses are needed -/

/-- a two-level matrix (not constructible through the API): level 0 holds the bits `10` and has NO rank support,
level 1 holds `00` and has a rank support without samples -/
def twoNeEx : WMCore :=
  ⟨#[{ ones := 1, data := ⟨2, #[1]⟩ }, { ones := 0, data := ⟨2, #[0]⟩, rank := some ⟨#[]⟩ }]⟩

/-- `hf` of `wm_map_down_two_eq` is needed.  On `twoNeEx` with `value = 0`, `first = 2`, `second = 0`: at level 0
`first` (= `len`, answered without the support) maps to 1 and `second` panics on the missing support (`unwrap`); at
level 1 `first` would read the missing sample (`oob`).  The code, which advances both positions level by level, reports
the fault of `second` at level 0; the two `mapDownWith` one after the other report the fault of `first` at level 1.
Only the identity of the fault differs, and only on a structure whose levels carry inconsistent supports (the other
hypotheses hold, `twoNeEx_hs`); on every matrix that encodes a sequence both runs succeed
(`wm_map_down_two_eq_of_encodes`). -/
theorem wm_map_down_two_ne :
    gen_WMCore_map_down_with_two_positions .checked twoNeEx 2 0 (BitVec.ofNat 64 0) = fault (.panic .unwrap) ∧
    twoNeEx.mapDownWith .checked 2 0 = fault .oob ∧
    twoNeEx.mapDownWith .checked 0 0 = fault (.panic .unwrap) ∧
    (do let a ← twoNeEx.mapDownWith .checked 2 0; let b ← twoNeEx.mapDownWith .checked 0 0; pure (a, b)) =
      fault .oob ∧
    twoNeEx.width ≤ 64 := by
  decide

theorem twoNeEx_hs : ∀ l i b r, twoNeEx.level l = ok b → b.rankQ i = ok r → b.countZeros + r < U64 := by
  intro l i b r hb hr
  match l with
  | 0 =>
    cases hb
    by_cases hi : i ≥ 2
    · have : r = 1 := by
        simpa [twoNeEx, BitVector.rankQ, BitVector.len, hi, BitVector.countOnes] using hr.symm
      subst this; decide
    · simp [twoNeEx, BitVector.rankQ, BitVector.len, hi] at hr
  | 1 =>
    cases hb
    by_cases hi : i ≥ 2
    · have : r = 0 := by
        simpa [twoNeEx, BitVector.rankQ, BitVector.len, hi, BitVector.countOnes] using hr.symm
      subst this; decide
    · have : i / 512 = 0 := by omega
      simp [twoNeEx, BitVector.rankQ, BitVector.len, hi, RankSup.rankU, this, Bind.bind, Outcome.bind] at hr
  | l + 2 => cases hb

/-- `c.width ≤ 64` is needed: with 65 (empty) levels `bit_value(0)` is `1 << 64`, which panics with overflow checks on;
the model tests bit 64 of the value.  No such matrix is loaded (`width > 64` is rejected) or built (`width` is a bit
length of a `u64`). -/
theorem wm_map_down_with_width_ne :
    let c : WMCore := ⟨Array.replicate 65 { ones := 0, data := ⟨0, #[]⟩ }⟩
    gen_WMCore_map_down_with .checked c 0 (BitVec.ofNat 64 0) = fault (.panic .overflow) ∧
    c.mapDownWith .checked 0 0 = ok 0 := by
  decide

/-- `hs` is needed, but only violated by a level of length ≥ 2^64 (not representable): `count_zeros() + rank(index)`
is a `usize` addition -/
theorem wm_map_down_with_hs_ne :
    let c : WMCore := ⟨#[{ ones := 0, data := ⟨2 ^ 64, #[]⟩ }]⟩
    gen_WMCore_map_down_with .checked c (2 ^ 64) (BitVec.ofNat 64 1) = fault (.panic .overflow) ∧
    c.mapDownWith .checked (2 ^ 64) 1 = ok (2 ^ 64) := by
  decide

/-! ### on a matrix that encodes a sequence all hypotheses hold -/

private theorem count_false_add_true (B : List Bool) : B.count false + B.count true = B.length := by
  induction B with
  | nil => rfl
  | cons x t ih => cases x <;> simp <;> omega

/-- the no-overflow hypothesis `hs` holds for every wavelet matrix that encodes a sequence (of length < 2^63) -/
theorem hs_of_encodes {c : WMCore} {V : List Nat} {width : Nat} (hc : c.Encodes V width) :
    ∀ l i b r, c.level l = ok b → b.rankQ i = ok r → b.countZeros + r < U64 := by
  intro l i b r hb hr
  have hl : l < width := by
    apply Classical.byContradiction
    intro hn
    have : c.levels[l]? = none := Array.getElem?_eq_none (by have := hc.width_eq; unfold WMCore.width at this; omega)
    simp [WMCore.level, this] at hb
  obtain ⟨b', hb', hok⟩ := level_ok hc hl
  rw [hb] at hb'
  cases hb'
  rw [hok.rank] at hr
  cases hr
  rw [hok.zeros]
  have h1 : rankSpec (col width V l) i ≤ (col width V l).count true :=
    List.Sublist.count_le true (List.take_sublist i _)
  have h2 := count_false_add_true (col width V l)
  have h3 : (col width V l).length = V.length := by simp only [col, List.length_map, length_S]
  have h4 := hc.len_lt
  rw [U64_eq]
  omega

section Encodes
variable {c : WMCore} {V : List Nat} {width : Nat}

theorem wm_map_down_with_eq_of_encodes (hc : c.Encodes V width) (m : Mode) (index value : Nat) :
    gen_WMCore_map_down_with m c index (BitVec.ofNat 64 value) = c.mapDownWith m index value :=
  wm_map_down_with_eq m c index value (by rw [hc.width_eq]; exact hc.width_le) (hs_of_encodes hc)

theorem wm_map_up_with_eq_of_encodes (hc : c.Encodes V width) (m : Mode) (index value : Nat) :
    gen_WMCore_map_up_with m c index (BitVec.ofNat 64 value) = c.mapUpWith m index value :=
  wm_map_up_with_eq m c index value (by rw [hc.width_eq]; exact hc.width_le)

theorem wm_map_down_eq_of_encodes (hc : c.Encodes V width) (m : Mode) (index : Nat) :
    gen_WMCore_map_down m c index =
      (c.mapDown m index).bind (fun r => ok (r.map (fun p => (p.1, BitVec.ofNat 64 p.2)))) :=
  wm_map_down_eq m c index (by rw [hc.width_eq]; exact hc.width_le) (hs_of_encodes hc)

theorem wm_map_down_two_eq_of_encodes (hc : c.Encodes V width) (m : Mode) (first second value : Nat) :
    gen_WMCore_map_down_with_two_positions m c first second (BitVec.ofNat 64 value) =
      (do let a ← c.mapDownWith m first value; let b ← c.mapDownWith m second value; pure (a, b)) :=
  wm_map_down_two_eq m c first second value (by rw [hc.width_eq]; exact hc.width_le) (hs_of_encodes hc)
    (fun e e' h => by rw [mapDownWith_ok' hc] at h; cases h)

end Encodes

end Sds.GenEq
