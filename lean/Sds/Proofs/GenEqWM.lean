/-
Proofs/GenEqWM: the query functions of `wavelet_matrix.rs` (`start`, `contains`, `rank`, `inverse_select`, `select`,
`get`, `ValueIter::next`) and the default `predecessor` / `successor` of `ops::VectorIndex`, as TRANSLATED statement by
statement from the source (Generated/FnsWM.lean), are equal to the hand-written model of Model/WM.lean.

Items are `u64` words in the code and naturals in the model: the statements are about `BitVec.ofNat 64 value` with
`hv : value < U64`; results that carry an item (`inverse_select`, `get`) are the model's result with the item as a word.

Hypotheses (beyond `hv`):
* `hw : w.data.width ≤ 64` and `hs` (no level of length ≥ 2^64) where a level loop runs, as in GenEqLoop4.
* `inverse_select` / `get`: the item returned by `map_down` is looked up in `first` as a word; it is `< 2^width ≤ 2^64`
  (`mapDown_lt`, from the invariant of the level loop), so no hypothesis on it is needed.
* `select`: `start.checked_add(rank)?` (`checkedAdd`) is exactly the model's `if s + rank ≥ U64 then none`.
* `ValueIter::next`: `self.rank += 1` is a `usize` addition (`addM`), the model counts in `Nat`: `w.len < U64`
  (precisely: `rank < w.len → rank + 1 < U64`, `wmx_value_iter_next_eq'`).
* `predecessor`: `rank - 1` under `rank > 0` never underflows.
Sharpness: `wmx_start_hv_ne`, `wmx_value_iter_next_hlen_ne`, `wmx_rank_width_ne`; none is a divergence between the
code and the model on values that exist in Rust (`value : u64`, `len : usize`, `width ≤ 64`).
-/
import Sds.Generated.FnsWM
import Sds.Proofs.GenEqLoop4

namespace Sds.GenEq
open Sds Outcome Generated

theorem toNat_ofNat_of_lt {value : Nat} (hv : value < U64) : (BitVec.ofNat 64 value).toNat = value := by
  rw [BitVec.toNat_ofNat]
  exact Nat.mod_eq_of_lt (by rw [U64_eq] at hv; exact hv)

/-! ### the values produced by `map_down` fit the width -/

theorem down_acc_bound (m : Mode) (c : WMCore) :
    ∀ k l i v p, l + k = c.width → v + 2 ^ (c.width - l) ≤ 2 ^ c.width →
      (List.range' l k).foldlM (downAcc m c) (i, v) = ok p → p.2 < 2 ^ c.width := by
  intro k
  induction k with
  | zero =>
    intro l i v p hl hv h
    have : l = c.width := by omega
    subst this
    cases h
    rw [Nat.sub_self] at hv
    show v < _
    omega
  | succ k ih =>
    intro l i v p hl hv h
    have he : c.width - l = (c.width - 1 - l) + 1 := by omega
    have hp : 2 ^ (c.width - l) = 2 ^ (c.width - 1 - l) * 2 := by rw [he, Nat.pow_succ]
    have he' : c.width - (l + 1) = c.width - 1 - l := by omega
    have hpos : 0 < 2 ^ (c.width - 1 - l) := Nat.pow_pos (by decide)
    rw [List.range'_succ, List.foldlM_cons] at h
    simp only [Bind.bind, downAcc, Pure.pure] at h
    cases hlv : c.level l with
    | fault f => rw [hlv] at h; cases h
    | ok b =>
      rw [hlv] at h
      simp only [Outcome.bind] at h
      cases hg : b.get i with
      | fault f => rw [hg] at h; cases h
      | ok bit =>
        rw [hg] at h
        cases bit with
        | true =>
          simp only [if_true] at h
          cases hd : c.mapDownOne i l with
          | fault f => rw [hd] at h; cases h
          | ok i' =>
            rw [hd] at h
            exact ih (l + 1) i' (v + c.bitValue l) p (by omega)
              (by rw [he']; unfold WMCore.bitValue; omega) h
        | false =>
          simp only [Bool.false_eq_true, if_false] at h
          cases hd : c.mapDownZero m i l with
          | fault f => rw [hd] at h; cases h
          | ok i' =>
            rw [hd] at h
            exact ih (l + 1) i' v p (by omega) (by rw [he']; omega) h

/-- `map_down` returns a value below `2^width` -/
theorem mapDown_lt (m : Mode) (c : WMCore) (index i v : Nat) (h : c.mapDown m index = ok (some (i, v))) :
    v < 2 ^ c.width := by
  unfold WMCore.mapDown at h
  simp only [Bind.bind] at h
  cases hl : c.len with
  | fault f => rw [hl] at h; cases h
  | ok n =>
    rw [hl] at h
    simp only [Outcome.bind] at h
    by_cases hi : index ≥ n
    · simp only [hi, if_true] at h; cases h
    · simp only [hi, if_false] at h
      rw [List.range_eq_range'] at h
      cases hf : List.foldlM (downAcc m c) (index, 0) (List.range' 0 c.width) with
      | fault f =>
        have h' : Outcome.bind (List.foldlM (downAcc m c) (index, 0) (List.range' 0 c.width))
            (fun r => ok (some r)) = ok (some (i, v)) := h
        rw [hf] at h'; cases h'
      | ok p =>
        have h' : Outcome.bind (List.foldlM (downAcc m c) (index, 0) (List.range' 0 c.width))
            (fun r => ok (some r)) = ok (some (i, v)) := h
        rw [hf] at h'
        cases h'
        exact down_acc_bound m c c.width 0 index 0 _ (by omega) (by rw [Nat.sub_zero]; omega) hf

theorem mapDown_lt_U64 (m : Mode) (c : WMCore) (index i v : Nat) (hw : c.width ≤ 64)
    (h : c.mapDown m index = ok (some (i, v))) : v < U64 := by
  have := mapDown_lt m c index i v h
  have hp : 2 ^ c.width ≤ 2 ^ 64 := Nat.pow_le_pow_right (by decide) hw
  rw [U64_eq]; omega

/-! ### wavelet_matrix.rs -/

theorem wmx_start_eq (m : Mode) (w : WM) (value : Nat) (hv : value < U64) :
    gen_WaveletMatrix_start m w (BitVec.ofNat 64 value) = w.start value := by
  unfold gen_WaveletMatrix_start WM.start
  rw [toNat_ofNat_of_lt hv]

theorem wmx_contains_eq (m : Mode) (w : WM) (value : Nat) (hv : value < U64) :
    gen_WaveletMatrix_contains m w (BitVec.ofNat 64 value) = w.contains value := by
  unfold gen_WaveletMatrix_contains WM.contains
  rw [wmx_start_eq m w value hv, toNat_ofNat_of_lt hv]
  by_cases h : value < w.first.len
  · simp only [h, decide_true, if_true, Bind.bind]
  · simp only [h, decide_false, Bool.false_eq_true, if_false]
    rfl

theorem wmx_rank_eq (m : Mode) (w : WM) (index value : Nat) (hv : value < U64) (hw : w.data.width ≤ 64)
    (hs : ∀ l i b r, w.data.level l = ok b → b.rankQ i = ok r → b.countZeros + r < U64) :
    gen_WaveletMatrix_rank m w index (BitVec.ofNat 64 value) = w.rank m index value := by
  unfold gen_WaveletMatrix_rank WM.rank
  rw [wmx_contains_eq m w value hv, wmx_start_eq m w value hv, wm_map_down_with_eq m w.data index value hw hs]

theorem wmx_select_eq (m : Mode) (w : WM) (rank value : Nat) (hv : value < U64) (hw : w.data.width ≤ 64) :
    gen_WaveletMatrix_select m w rank (BitVec.ofNat 64 value) = w.select m rank value := by
  unfold gen_WaveletMatrix_select WM.select
  rw [wmx_contains_eq m w value hv, wmx_start_eq m w value hv]
  simp only [Bind.bind]
  cases w.contains value with
  | fault f => rfl
  | ok b =>
    cases b with
    | false => rfl
    | true =>
      simp only [Outcome.bind, Bool.not_true, Bool.false_eq_true, if_false]
      cases w.start value with
      | fault f => rfl
      | ok s =>
        simp only [checkedAdd]
        by_cases h : s + rank < U64
        · have h' : ¬ s + rank ≥ U64 := by omega
          simp only [h, h', if_true, if_false, wm_map_up_with_eq m w.data (s + rank) value hw]
        · have h' : s + rank ≥ U64 := by omega
          simp only [h, h', if_true, if_false]

theorem wmx_inverse_select_eq (m : Mode) (w : WM) (index : Nat) (hw : w.data.width ≤ 64)
    (hs : ∀ l i b r, w.data.level l = ok b → b.rankQ i = ok r → b.countZeros + r < U64) :
    gen_WaveletMatrix_inverse_select m w index =
      (w.inverseSelect m index).bind (fun r => ok (r.map (fun p => (p.1, BitVec.ofNat 64 p.2)))) := by
  unfold gen_WaveletMatrix_inverse_select WM.inverseSelect
  rw [wm_map_down_eq m w.data index hw hs]
  simp only [Bind.bind]
  cases h : w.data.mapDown m index with
  | fault f => rfl
  | ok o =>
    cases o with
    | none => rfl
    | some p =>
      obtain ⟨i, v⟩ := p
      have hv := mapDown_lt_U64 m w.data index i v hw h
      simp only [Outcome.bind, Option.map, wmx_start_eq m w v hv]
      cases w.start v with
      | fault f => rfl
      | ok s => simp only []; cases subM m i s <;> rfl

theorem wmx_get_eq (m : Mode) (w : WM) (index : Nat) (hw : w.data.width ≤ 64)
    (hs : ∀ l i b r, w.data.level l = ok b → b.rankQ i = ok r → b.countZeros + r < U64) :
    gen_WaveletMatrix_get m w index = (w.get m index).bind (fun v => ok (BitVec.ofNat 64 v)) := by
  unfold gen_WaveletMatrix_get WM.get
  rw [wmx_inverse_select_eq m w index hw hs]
  simp only [Bind.bind]
  cases w.inverseSelect m index with
  | fault f => rfl
  | ok o => cases o <;> rfl

/-- `ValueIter::next`: `self.rank += 1` is a `usize` addition, executed only when `rank < len` -/
theorem wmx_value_iter_next_eq' (m : Mode) (w : WM) (value rank : Nat) (hv : value < U64) (hw : w.data.width ≤ 64)
    (hr : rank < w.len → rank + 1 < U64) :
    gen_ValueIter_next m w (BitVec.ofNat 64 value, rank) =
      (w.valueIterNext m value rank).bind (fun r => ok (r.1, (BitVec.ofNat 64 value, r.2))) := by
  unfold gen_ValueIter_next WM.valueIterNext
  simp only [wmx_select_eq m w rank value hv hw]
  by_cases h : rank ≥ w.len
  · simp only [h, decide_true, if_true]; rfl
  · simp only [h, decide_false, Bool.false_eq_true, if_false, Bind.bind]
    cases w.select m rank value with
    | fault f => rfl
    | ok o =>
      cases o with
      | none => rfl
      | some idx =>
        simp only [Outcome.bind, addM_ok (m := m) (a := rank) (b := 1) (hr (by omega))]
        rfl

theorem wmx_value_iter_next_eq (m : Mode) (w : WM) (value rank : Nat) (hv : value < U64) (hw : w.data.width ≤ 64)
    (hlen : w.len < U64) :
    gen_ValueIter_next m w (BitVec.ofNat 64 value, rank) =
      (w.valueIterNext m value rank).bind (fun r => ok (r.1, (BitVec.ofNat 64 value, r.2))) :=
  wmx_value_iter_next_eq' m w value rank hv hw (by omega)

/-! ### default methods of ops.rs -/

theorem wmx_predecessor_eq (m : Mode) (w : WM) (index value : Nat) (hv : value < U64) (hw : w.data.width ≤ 64)
    (hs : ∀ l i b r, w.data.level l = ok b → b.rankQ i = ok r → b.countZeros + r < U64) :
    gen_VectorIndex_predecessor m w index (BitVec.ofNat 64 value) = w.predecessor m index value := by
  unfold gen_VectorIndex_predecessor WM.predecessor
  rw [wmx_rank_eq m w _ value hv hw hs]
  simp only [Bind.bind]
  cases w.rank m (BitVector.satAdd index 1) value with
  | fault f => rfl
  | ok r =>
    simp only [Outcome.bind]
    by_cases h : r > 0
    · simp only [h, decide_true, if_true, subM_ok (m := m) (a := r) (b := 1) (by omega)]
    · simp only [h, decide_false, Bool.false_eq_true, if_false]; rfl

theorem wmx_successor_eq (m : Mode) (w : WM) (index value : Nat) (hv : value < U64) (hw : w.data.width ≤ 64)
    (hs : ∀ l i b r, w.data.level l = ok b → b.rankQ i = ok r → b.countZeros + r < U64) :
    gen_VectorIndex_successor m w index (BitVec.ofNat 64 value) = w.successor m index value := by
  unfold gen_VectorIndex_successor WM.successor
  rw [wmx_rank_eq m w index value hv hw hs]
  simp only [Bind.bind]
  cases w.rank m index value <;> rfl

/-! ### the hypotheses are needed -/

/-- `hv` is needed (the statement is about the word `value mod 2^64`): with `value = 2^64` the code looks up the
offset of the word `0`, the model the offset of `2^64`.  Not a divergence: the argument of the Rust function IS a `u64`,
every `value < 2^64` is covered. -/
theorem wmx_start_hv_ne :
    let w : WM := ⟨1, ⟨#[]⟩, ⟨1, 64, ⟨64, #[0]⟩⟩⟩
    gen_WaveletMatrix_start .checked w (BitVec.ofNat 64 (2 ^ 64)) = ok 0 ∧
    w.start (2 ^ 64) = fault (.panic .assert) := by
  decide

/-- `hlen` of `wmx_value_iter_next_eq` is needed, but only violated by a matrix of length 2^64 (not a `usize`): at the
last rank `2^64 - 1` the code's `self.rank += 1` overflows (panic with overflow checks, 0 without), the model counts in
`Nat`.  The other hypotheses hold (`value = 0`, width 0). -/
theorem wmx_value_iter_next_hlen_ne :
    let w : WM := ⟨2 ^ 64, ⟨#[]⟩, ⟨1, 64, ⟨64, #[0]⟩⟩⟩
    gen_ValueIter_next .checked w (BitVec.ofNat 64 0, 2 ^ 64 - 1) = fault (.panic .overflow) ∧
    gen_ValueIter_next .wrapping w (BitVec.ofNat 64 0, 2 ^ 64 - 1) =
      ok (some (2 ^ 64 - 1, 2 ^ 64 - 1), (BitVec.ofNat 64 0, 0)) ∧
    w.valueIterNext .checked 0 (2 ^ 64 - 1) = ok (some (2 ^ 64 - 1, 2 ^ 64 - 1), 2 ^ 64) ∧
    w.data.width ≤ 64 := by
  decide

/-- `hw` is needed (inherited from the level loops, `wm_map_down_with_width_ne`): with 65 empty levels `bit_value(0)`
is `1 << 64`.  No such matrix is loaded or built. -/
theorem wmx_rank_width_ne :
    let w : WM := ⟨1, ⟨Array.replicate 65 { ones := 0, data := ⟨0, #[]⟩ }⟩, ⟨1, 64, ⟨64, #[0]⟩⟩⟩
    gen_WaveletMatrix_rank .checked w 0 (BitVec.ofNat 64 0) = fault (.panic .overflow) ∧
    w.rank .checked 0 0 = ok 0 := by
  decide

/-! ### on a matrix that encodes a sequence the structural hypotheses hold -/

section Encodes
variable {w : WM} {V : List Nat} {width : Nat}

theorem wmx_rank_eq_of_encodes (hc : w.data.Encodes V width) (m : Mode) (index value : Nat) (hv : value < U64) :
    gen_WaveletMatrix_rank m w index (BitVec.ofNat 64 value) = w.rank m index value :=
  wmx_rank_eq m w index value hv (by rw [hc.width_eq]; exact hc.width_le) (hs_of_encodes hc)

theorem wmx_select_eq_of_encodes (hc : w.data.Encodes V width) (m : Mode) (rank value : Nat) (hv : value < U64) :
    gen_WaveletMatrix_select m w rank (BitVec.ofNat 64 value) = w.select m rank value :=
  wmx_select_eq m w rank value hv (by rw [hc.width_eq]; exact hc.width_le)

theorem wmx_inverse_select_eq_of_encodes (hc : w.data.Encodes V width) (m : Mode) (index : Nat) :
    gen_WaveletMatrix_inverse_select m w index =
      (w.inverseSelect m index).bind (fun r => ok (r.map (fun p => (p.1, BitVec.ofNat 64 p.2)))) :=
  wmx_inverse_select_eq m w index (by rw [hc.width_eq]; exact hc.width_le) (hs_of_encodes hc)

theorem wmx_get_eq_of_encodes (hc : w.data.Encodes V width) (m : Mode) (index : Nat) :
    gen_WaveletMatrix_get m w index = (w.get m index).bind (fun v => ok (BitVec.ofNat 64 v)) :=
  wmx_get_eq m w index (by rw [hc.width_eq]; exact hc.width_le) (hs_of_encodes hc)

theorem wmx_predecessor_eq_of_encodes (hc : w.data.Encodes V width) (m : Mode) (index value : Nat)
    (hv : value < U64) :
    gen_VectorIndex_predecessor m w index (BitVec.ofNat 64 value) = w.predecessor m index value :=
  wmx_predecessor_eq m w index value hv (by rw [hc.width_eq]; exact hc.width_le) (hs_of_encodes hc)

theorem wmx_successor_eq_of_encodes (hc : w.data.Encodes V width) (m : Mode) (index value : Nat)
    (hv : value < U64) :
    gen_VectorIndex_successor m w index (BitVec.ofNat 64 value) = w.successor m index value :=
  wmx_successor_eq m w index value hv (by rw [hc.width_eq]; exact hc.width_le) (hs_of_encodes hc)

end Encodes

end Sds.GenEq
