import Sds.Props.C02
#print axioms Sds.C02.build_succeeds
#print axioms Sds.C02.build_rejects
#print axioms Sds.C02.len_and_counts_exact
#print axioms Sds.C02.get_exact
#print axioms Sds.C02.rank_exact
#print axioms Sds.C02.rank_zero_exact
#print axioms Sds.C02.select_exact
#print axioms Sds.C02.select_zero_exact
#print axioms Sds.C02.predecessor_exact
#print axioms Sds.C02.successor_exact
#print axioms Sds.C02.predSet_meaning
#print axioms Sds.C02.succSet_meaning
#print axioms Sds.C02.all_queries_exact
#print axioms Sds.C02.one_iter_lists_positions
#print axioms Sds.C02.one_iter_two_ended
#print axioms Sds.C02.zero_iter_lists_zeros
#print axioms Sds.C02.bit_iter_two_ended
