import Sds.Props.C20
#print axioms Sds.C20.program_is_single_rmw
#print axioms Sds.C20.result_op_is_first
#print axioms Sds.C20.name_contains_part
#print axioms Sds.C20.names_unique_partial
#print axioms Sds.C20.no_two_calls_share_a_name_partial
#print axioms Sds.C20.no_duplicating_schedule_partial
#print axioms Sds.C20.names_strictly_increasing_partial
#print axioms Sds.C20.one_name_per_call_partial
#print axioms Sds.C20.names_contiguous_partial
#print axioms Sds.C20.counter_counts_calls_partial
#print axioms Sds.C20.single_rmw_unique
#print axioms Sds.C20.unique_whenever_obligation_holds
#print axioms Sds.C20.load_then_store_duplicates
