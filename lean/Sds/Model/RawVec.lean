/-
Model/RawVec: `raw_vector.rs` (in-memory part) over the real word representation.
State = (len, data : Array Word).  Invariant WF = word count exact ∧ tail bits of the last word zero.
-/
import Sds.Model.Bits

namespace Sds
open Outcome

structure RawVec where
  len : Nat
  data : Array Word
  deriving DecidableEq, Repr, Inhabited

/-- `Vec::resize` -/
def resizeArr (a : Array Word) (n : Nat) (x : Word) : Array Word :=
  if n ≤ a.size then a.extract 0 n else a ++ Array.replicate (n - a.size) x

namespace RawVec

def empty : RawVec := ⟨0, #[]⟩

/-- observable content -/
def bits (v : RawVec) : List Bool := (List.range v.len).map (getBit v.data)

/-- the representation invariant (decidable) -/
def WF (v : RawVec) : Prop :=
  v.data.size = (v.len + 63) / 64 ∧
  (v.len % 64 ≠ 0 → rd v.data (v.len / 64) &&& ~~~ lowSet (v.len % 64) = 0)

instance (v : RawVec) : Decidable v.WF := by unfold WF; exact inferInstance

/-- `set_unused_bits` (the index is in range whenever `len % 64 > 0` and the word count is exact) -/
def setUnusedBits (v : RawVec) (value : Bool) : RawVec :=
  let index := v.len / 64
  let width := v.len % 64
  if width > 0 then
    if value then { v with data := v.data.setIfInBounds index (rd v.data index ||| ~~~ lowSet width) }
    else { v with data := v.data.setIfInBounds index (rd v.data index &&& lowSet width) }
  else v

def withLen (len : Nat) (value : Bool) : RawVec :=
  setUnusedBits ⟨len, Array.replicate ((len + 63) / 64) (fillerValue value)⟩ false

def countOnes (v : RawVec) : Nat := v.data.foldl (fun acc w => acc + popcount w) 0

def complement (v : RawVec) : RawVec :=
  setUnusedBits { v with data := v.data.map (~~~ ·) } false

def resize (v : RawVec) (newLen : Nat) (value : Bool) : RawVec :=
  let v1 := if newLen > v.len then v.setUnusedBits value else v
  let v2 : RawVec := ⟨newLen, resizeArr v1.data ((newLen + 63) / 64) (fillerValue value)⟩
  v2.setUnusedBits false

def clear (_ : RawVec) : RawVec := empty

/-- `bit` (in range) -/
def bit (v : RawVec) (i : Nat) : Bool := getBit v.data i

/-- `int` : `width = 0` returns 0 -/
def int (v : RawVec) (off width : Nat) : Word := if width = 0 then 0 else readInt v.data off width

def setBit (v : RawVec) (i : Nat) (b : Bool) : RawVec :=
  let index := i / 64
  let offset := i % 64
  let w := rd v.data index &&& ~~~ ((1 : Word) <<< offset)
  { v with data := v.data.setIfInBounds index (w ||| ((if b then (1 : Word) else 0) <<< offset)) }

def setInt (v : RawVec) (off : Nat) (value : Word) (width : Nat) : RawVec :=
  if width = 0 then v else { v with data := writeInt v.data off value width }

def pushBit (v : RawVec) (b : Bool) : RawVec :=
  let index := v.len / 64
  let offset := v.len % 64
  let data := if index = v.data.size then v.data.push 0 else v.data
  ⟨v.len + 1, data.setIfInBounds index (rd data index ||| ((if b then (1 : Word) else 0) <<< offset))⟩

def pushInt (v : RawVec) (value : Word) (width : Nat) : RawVec :=
  if width = 0 then v else
  let data := if v.len + width > 64 * v.data.size then v.data.push 0 else v.data
  ⟨v.len + width, writeInt data v.len value width⟩

def popBit (v : RawVec) : Option Bool × RawVec :=
  if v.len = 0 then (none, v) else
    let r := v.bit (v.len - 1)
    let v1 : RawVec := ⟨v.len - 1, resizeArr v.data ((v.len - 1 + 63) / 64) 0⟩
    (some r, v1.setUnusedBits false)

def popInt (v : RawVec) (width : Nat) : Option Word × RawVec :=
  if v.len ≥ width then
    if width = 0 then (some 0, v) else
      let r := v.int (v.len - width) width
      let v1 : RawVec := ⟨v.len - width, resizeArr v.data ((v.len - width + 63) / 64) 0⟩
      (some r, v1.setUnusedBits false)
  else (none, v)

/-! guarded accessors (what the safe API does when the argument is out of range) -/

def bitM (v : RawVec) (i : Nat) : Outcome Bool :=
  if i / 64 < v.data.size then ok (v.bit i) else fault (.panic .index)

def wordM (v : RawVec) (i : Nat) : Outcome Word := getC v.data i
def wordU (v : RawVec) (i : Nat) : Outcome Word := getW v.data i

/-- build from a bit list by `push_bit` (used by `FromIterator<bool>` and by the specs) -/
def ofBits (B : List Bool) : RawVec := B.foldl pushBit empty

end RawVec
end Sds
