/-
  Rust-layout structures used by translated constructors where the hand-written model flattens a type.
-/
import Sds.Model.Sparse

namespace Sds

/-- `SparseBuilder` as laid out in the source: `data: SparseVector` (whose `high` stays empty until `try_from`), the raw
`high` being filled, and the counters.  The model's `SparseBuilder` keeps `data.len` and `data.low` only. -/
structure SparseBuilderR where
  data : Sparse
  high : RawVec
  len : Nat
  next : Nat
  increment : Nat
  deriving DecidableEq, Repr, Inhabited

def SparseBuilderR.toModel (b : SparseBuilderR) : SparseBuilder :=
  ⟨b.data.len, b.data.low, b.high, b.len, b.next, b.increment⟩

/-- a builder method translated on the model's flat layout, applied to the Rust layout: the methods of `SparseBuilder`
other than the constructors and `try_from` touch `data.low`, `high` and the counters, never `data.high` -/
def spbrLift (f : SparseBuilder → Outcome SparseBuilder) (b : SparseBuilderR) : Outcome SparseBuilderR := do
  let b' ← f b.toModel
  return ⟨⟨b'.univ, b.data.high, b'.low⟩, b'.high, b'.len, b'.next, b'.increment⟩

/-- the memory-mapped views in the Rust layout: `MappedSlice { data, offset }` with `data` = (number of items, the elements
they occupy), `RawVectorMapper { len, data }`, `IntVectorMapper { len, width, data }` -/
structure MappedSliceR where
  data : Nat × List Word
  offset : Nat
  deriving DecidableEq, Repr, Inhabited

/-- the bytes a `MappedBytes` / `MappedStr` payload denotes: the first `len` bytes of its elements -/
def payloadBytes (p : Nat × List Word) : List UInt8 := (toBytes p.2).take p.1

/-- `MappedOption { data, offset, data_len }` (the zero-sized marker dropped) -/
structure MappedOptionR where
  data : Option MappedSliceR
  offset : Nat
  dataLen : Nat
  deriving DecidableEq, Repr, Inhabited

structure RawMapperR where
  len : Nat
  data : MappedSliceR
  deriving DecidableEq, Repr, Inhabited

structure IntMapperR where
  len : Nat
  width : Nat
  data : RawMapperR
  deriving DecidableEq, Repr, Inhabited

end Sds
