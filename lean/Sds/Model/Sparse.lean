/-
Model/Sparse: `sparse_vector.rs` — Elias–Fano vector (set and multiset mode), its builder and iterators.
`high` is a concrete `BitVector` (with select / select_zero supports), `low` an `IntVec`.
The low-part width rule (an `f64` computation) is a *parameter* of the builder model.
-/
import Sds.Model.Ser

namespace Sds
open Outcome

structure Sparse where
  len : Nat
  high : BitVector
  low : IntVec
  deriving DecidableEq, Repr, Inhabited

structure Pos where
  high : Nat
  low : Nat
  deriving DecidableEq, Repr, Inhabited

/-- `Option::unwrap` -/
def unwrapM {α} : Option α → Outcome α
  | some a => ok a
  | none => fault (.panic .unwrap)

namespace Sparse

def countOnes (s : Sparse) : Nat := s.low.len
def countZeros (s : Sparse) : Nat := if s.countOnes ≥ s.len then 0 else s.len - s.countOnes
def width (s : Sparse) : Nat := s.low.width

/-- `get_buckets` -/
def getBuckets (univ lowWidth : Nat) : Nat :=
  let b := if lowWidth < 64 then univ >>> lowWidth else 0
  if univ % 2 ^ lowWidth ≠ 0 then b + 1 else b

def split (s : Sparse) (index : Nat) : Nat × Nat := (index >>> s.width, index % 2 ^ s.width)

/-- `combine` : (rank, position).
At width ≥ 64 the code skips the subtraction `pos.high - pos.low` altogether (the high part is 0), so it cannot panic there. -/
def combine (m : Mode) (s : Sparse) (p : Pos) : Outcome (Nat × Nat) := do
  let high ← (if s.width < 64 then do let d ← subM m p.high p.low; pure ((d <<< s.width) % U64) else pure 0)
  let l ← s.low.get p.low
  let v ← addM m high l.toNat
  return (p.low, v)

/-! `split` / `combine` AS FIRST WRITTEN (before the repair of F13): `index >> self.low.width()` and
`(high - low) << self.low.width()` with the width itself as shift amount.  Rust: a shift of a `usize` by ≥ 64 panics
with overflow checks on and uses the amount modulo 64 without them.  For widths 1..63 they agree with the definitions
above; at width 64 (reachable only through a file) they do not: `Proofs/SparseOld.lean`. -/
def shiftAmtOld (m : Mode) (w : Nat) : Outcome Nat :=
  if w < 64 then ok w else match m with
    | .checked => fault (.panic .overflow)
    | .wrapping => ok (w % 64)

def splitOld (m : Mode) (s : Sparse) (index : Nat) : Outcome (Nat × Nat) := do
  let a ← shiftAmtOld m s.width
  return (index >>> a, index % 2 ^ s.width)

def combineOld (m : Mode) (s : Sparse) (p : Pos) : Outcome (Nat × Nat) := do
  let d ← subM m p.high p.low
  let l ← s.low.get p.low
  let a ← shiftAmtOld m s.width
  let v ← addM m ((d <<< a) % U64) l.toNat
  return (p.low, v)

def pos (m : Mode) (s : Sparse) (rank : Nat) : Outcome Pos := do
  let h ← s.high.selectQ m rank >>= unwrapM
  return ⟨h, rank⟩

def lowerBound (m : Mode) (s : Sparse) (hp : Nat) : Outcome Pos :=
  if hp = 0 then ok ⟨0, 0⟩ else do
    let z ← s.high.selectZeroQ m (hp - 1) >>= unwrapM
    let ho ← addM m z 1
    let lo ← subM m ho hp
    return ⟨ho, lo⟩

def upperBound (m : Mode) (s : Sparse) (hp : Nat) : Outcome Pos := do
  let ho ← s.high.selectZeroQ m hp >>= unwrapM
  let lo ← subM m ho hp
  return ⟨ho, lo⟩

/-- forward bucket scan of `get` -/
def getLoop (s : Sparse) (partsLow : Nat) : Nat → Pos → Outcome Bool
  | 0, _ => fault .fuel
  | fuel + 1, p =>
    if p.high < s.high.len then do
      let b ← s.high.get p.high
      if b then do
        let l ← s.low.get p.low
        if l.toNat ≥ partsLow then return (l.toNat == partsLow)
        else getLoop s partsLow fuel ⟨p.high + 1, p.low + 1⟩
      else return false
    else return false

def get (m : Mode) (s : Sparse) (index : Nat) : Outcome Bool := do
  let parts := s.split index
  let p ← s.lowerBound m parts.1
  getLoop s parts.2 (s.high.len + 1) p

/-- backward bucket scan shared by `rank` (`strict = false`: skip values ≥ low) and
`predecessor` (`strict = true`: skip values > low); returns `none` when it runs off the front -/
def backLoop (s : Sparse) (partsLow : Nat) (strict : Bool) : Nat → Pos → Outcome (Option Pos)
  | 0, _ => fault .fuel
  | fuel + 1, p => do
    let b ← s.high.get p.high
    if b then do
      let l ← s.low.get p.low
      if (if strict then l.toNat > partsLow else l.toNat ≥ partsLow) then
        if p.low = 0 then return none
        else backLoop s partsLow strict fuel ⟨p.high - 1, p.low - 1⟩
      else return some p
    else return some p

def rank (m : Mode) (s : Sparse) (index : Nat) : Outcome Nat :=
  if index ≥ s.len then ok s.countOnes else do
    let parts := s.split index
    let p ← s.upperBound m parts.1
    if p.low = 0 then return 0 else do
      let r ← backLoop s parts.2 false (s.high.len + 1) ⟨p.high - 1, p.low - 1⟩
      match r with
      | none => return 0
      | some q => return q.low + 1

def rankZero (m : Mode) (s : Sparse) (index : Nat) : Outcome Nat := do
  let r ← s.rank m index
  subM m index r

def select (m : Mode) (s : Sparse) (rank : Nat) : Outcome (Option Nat) :=
  if rank ≥ s.countOnes then ok none else do
    let p ← s.pos m rank
    let r ← s.combine m p
    return some r.2

end Sparse

/-! ### iterator over set bits -/

structure SpOneIter where
  next : Pos
  limit : Pos
  deriving DecidableEq, Repr, Inhabited

namespace SpOneIter

def emptyIter (s : Sparse) : SpOneIter := ⟨⟨s.high.len, s.low.len⟩, ⟨s.high.len, s.low.len⟩⟩
def full (s : Sparse) : SpOneIter := ⟨⟨0, 0⟩, ⟨s.high.len, s.low.len⟩⟩

def skipFwd (s : Sparse) : Nat → Nat → Outcome Nat
  | 0, _ => fault .fuel
  | fuel + 1, h => do
    let b ← s.high.get h
    if b then return h else skipFwd s fuel (h + 1)

def skipBwd (m : Mode) (s : Sparse) : Nat → Nat → Outcome Nat
  | 0, _ => fault .fuel
  | fuel + 1, h => do
    let b ← s.high.get h
    if b then return h else do
      let h' ← subM m h 1
      skipBwd m s fuel h'

def nextQ (m : Mode) (s : Sparse) (it : SpOneIter) : Outcome (Option (Nat × Nat) × SpOneIter) :=
  if it.next.low ≥ it.limit.low then ok (none, it) else do
    let h ← skipFwd s (s.high.len + 1) it.next.high
    let r ← s.combine m ⟨h, it.next.low⟩
    return (some r, { it with next := ⟨h + 1, it.next.low + 1⟩ })

def nextBackQ (m : Mode) (s : Sparse) (it : SpOneIter) : Outcome (Option (Nat × Nat) × SpOneIter) :=
  if it.next.low ≥ it.limit.low then ok (none, it) else do
    let h0 ← subM m it.limit.high 1
    let l0 ← subM m it.limit.low 1
    let h ← skipBwd m s (s.high.len + 1) h0
    let r ← s.combine m ⟨h, l0⟩
    return (some r, { it with limit := ⟨h, l0⟩ })

def remaining (it : SpOneIter) : Nat := it.limit.low - it.next.low

end SpOneIter

namespace Sparse

def selectIter (m : Mode) (s : Sparse) (rank : Nat) : Outcome SpOneIter :=
  if rank ≥ s.countOnes then ok (SpOneIter.emptyIter s) else do
    let p ← s.pos m rank
    return ⟨p, ⟨s.high.len, s.low.len⟩⟩

/-- binary-search phase of `find_zero_run` -/
def fzrSearch (m : Mode) (s : Sparse) (rank : Nat) :
    Nat → Nat → Nat → (Nat × SpOneIter) → Outcome (Nat × SpOneIter)
  | 0, _, _, _ => fault .fuel
  | fuel + 1, low, high, result =>
    if high - low > 16 then do
      let mid := low + (high - low) / 2
      let it ← s.selectIter m mid
      let (o, it') ← SpOneIter.nextQ m s it
      let (_, midPos) ← unwrapM o
      let d ← subM m midPos mid
      if d ≤ rank then fzrSearch m s rank fuel (mid + 1) high (mid + 1, it')
      else fzrSearch m s rank fuel low mid result
    else return result

/-- linear phase of `find_zero_run` -/
def fzrScan (m : Mode) (s : Sparse) (rank : Nat) :
    Nat → SpOneIter → (Nat × SpOneIter) → Outcome (Nat × SpOneIter)
  | 0, _, _ => fault .fuel
  | fuel + 1, it, result => do
    let (o, it') ← SpOneIter.nextQ m s it
    match o with
    | none => return result
    | some (mid, midPos) =>
      let d ← subM m midPos mid
      if d ≤ rank then fzrScan m s rank fuel it' (mid + 1, it') else return result

def findZeroRun (m : Mode) (s : Sparse) (rank : Nat) : Outcome (Nat × SpOneIter) := do
  let r ← fzrSearch m s rank 70 0 s.countOnes (0, SpOneIter.full s)
  fzrScan m s rank (s.countOnes + 2) r.2 r

def selectZero (m : Mode) (s : Sparse) (rank : Nat) : Outcome (Option Nat) :=
  if rank ≥ s.countZeros then ok none else do
    let (runRank, _) ← s.findZeroRun m rank
    let r ← addM m runRank rank
    return some r

def predecessor (m : Mode) (s : Sparse) (value : Nat) : Outcome SpOneIter :=
  if s.len = 0 then ok (SpOneIter.emptyIter s) else do
    let parts := s.split (min value (s.len - 1))
    let p ← s.upperBound m parts.1
    if p.low = 0 then return SpOneIter.emptyIter s else do
      let r ← backLoop s parts.2 true (s.high.len + 1) ⟨p.high - 1, p.low - 1⟩
      match r with
      | none => return SpOneIter.emptyIter s
      | some q => do
        let h ← SpOneIter.skipBwd m s (s.high.len + 1) q.high
        return ⟨⟨h, q.low⟩, ⟨s.high.len, s.low.len⟩⟩

/-- first loop of `successor`: values with the same high part -/
def succLoop1 (s : Sparse) (partsLow : Nat) : Nat → Pos → Outcome (Bool × Pos)
  | 0, _ => fault .fuel
  | fuel + 1, p =>
    if p.high < s.high.len then do
      let b ← s.high.get p.high
      if b then do
        let l ← s.low.get p.low
        if l.toNat ≥ partsLow then return (true, p)
        else succLoop1 s partsLow fuel ⟨p.high + 1, p.low + 1⟩
      else return (false, p)
    else return (false, p)

/-- second loop: the next set bit of `high` -/
def succLoop2 (s : Sparse) : Nat → Pos → Outcome (Option Pos)
  | 0, _ => fault .fuel
  | fuel + 1, p =>
    if p.high < s.high.len then do
      let b ← s.high.get p.high
      if b then return some p else succLoop2 s fuel ⟨p.high + 1, p.low⟩
    else return none

def successor (m : Mode) (s : Sparse) (value : Nat) : Outcome SpOneIter :=
  if value ≥ s.len then ok (SpOneIter.emptyIter s) else do
    let parts := s.split value
    let p ← s.lowerBound m parts.1
    let (found, p) ← succLoop1 s parts.2 (s.high.len + 1) p
    if found then return ⟨p, ⟨s.high.len, s.low.len⟩⟩ else do
      let r ← succLoop2 s (s.high.len + 1) p
      match r with
      | some q => return ⟨q, ⟨s.high.len, s.low.len⟩⟩
      | none => return SpOneIter.emptyIter s

end Sparse

/-! ### ZeroIter -/

structure SpZeroIter where
  iter : SpOneIter
  onePos : Nat
  next : Nat × Nat
  limit : Nat × Nat
  deriving DecidableEq, Repr, Inhabited

namespace SpZeroIter

def emptyIter (s : Sparse) : SpZeroIter := ⟨SpOneIter.emptyIter s, 0, (0, 0), (0, 0)⟩

def nextRun (m : Mode) (s : Sparse) : Nat → SpZeroIter → Outcome SpZeroIter
  | 0, _ => fault .fuel
  | fuel + 1, z =>
    if z.next.2 ≥ z.onePos then do
      let n1 ← addM m z.onePos 1
      let (o, it') ← SpOneIter.nextQ m s z.iter
      let op := match o with | some (_, p) => p | none => z.limit.2
      nextRun m s fuel { z with next := (z.next.1, n1), onePos := op, iter := it' }
    else return z

def nextQ (m : Mode) (s : Sparse) (z : SpZeroIter) : Outcome (Option (Nat × Nat) × SpZeroIter) :=
  if z.next.1 ≥ z.limit.1 then ok (none, z) else do
    let z ← nextRun m s (s.countOnes + 2) z
    return (some z.next, { z with next := (z.next.1 + 1, z.next.2 + 1) })

def remaining (z : SpZeroIter) : Nat := z.limit.1 - z.next.1

end SpZeroIter

namespace Sparse

def zeroIter (m : Mode) (s : Sparse) : Outcome SpZeroIter := do
  let (o, it) ← SpOneIter.nextQ m s (SpOneIter.full s)
  let op := match o with | some (_, p) => p | none => s.len
  return ⟨it, op, (0, 0), (s.countZeros, s.len)⟩

def selectZeroIter (m : Mode) (s : Sparse) (rank : Nat) : Outcome SpZeroIter :=
  if rank ≥ s.countZeros then ok (SpZeroIter.emptyIter s) else do
    let (runRank, it) ← s.findZeroRun m rank
    let (o, it') ← SpOneIter.nextQ m s it
    let op := match o with | some (_, p) => p | none => s.len
    let r ← addM m runRank rank
    return ⟨it', op, (rank, r), (s.countZeros, s.len)⟩

end Sparse

/-! ### Iter (all bits, two-ended, duplicate-skipping) -/

structure SpIter where
  parent : SpOneIter
  next : Nat
  nextSet : Option Nat
  limit : Nat
  lastSet : Option Nat
  deriving DecidableEq, Repr, Inhabited

namespace SpIter

/-- `for (_, index) in parent.by_ref() { if index > next { … break } }` -/
def skipDupFwd (m : Mode) (s : Sparse) (cur : Nat) : Nat → SpOneIter → Option Nat → Outcome (SpOneIter × Option Nat)
  | 0, _, _ => fault .fuel
  | fuel + 1, it, ns => do
    let (o, it') ← SpOneIter.nextQ m s it
    match o with
    | none => return (it', ns)
    | some (_, index) => if index > cur then return (it', some index) else skipDupFwd m s cur fuel it' ns

def skipDupBwd (m : Mode) (s : Sparse) (cur : Nat) : Nat → SpOneIter → Option Nat → Outcome (SpOneIter × Option Nat)
  | 0, _, _ => fault .fuel
  | fuel + 1, it, ls => do
    let (o, it') ← SpOneIter.nextBackQ m s it
    match o with
    | none => return (it', ls)
    | some (_, index) => if index < cur then return (it', some index) else skipDupBwd m s cur fuel it' ls

def nextQ (m : Mode) (s : Sparse) (it : SpIter) : Outcome (Option Bool × SpIter) :=
  if it.next ≥ it.limit then ok (none, it) else
    match it.nextSet with
    | some value =>
      if value = it.next then do
        let (p, ns) ← skipDupFwd m s it.next (s.countOnes + 2) it.parent it.lastSet
        return (some true, { it with parent := p, nextSet := ns, next := it.next + 1 })
      else return (some false, { it with next := it.next + 1 })
    | none => return (some false, { it with next := it.next + 1 })

def nextBackQ (m : Mode) (s : Sparse) (it : SpIter) : Outcome (Option Bool × SpIter) :=
  if it.next ≥ it.limit then ok (none, it) else
    let limit := it.limit - 1
    match it.lastSet with
    | some value =>
      if value = limit then do
        let (p, ls) ← skipDupBwd m s limit (s.countOnes + 2) it.parent it.nextSet
        return (some true, { it with parent := p, lastSet := ls, limit := limit })
      else return (some false, { it with limit := limit })
    | none => return (some false, { it with limit := limit })

def remaining (it : SpIter) : Nat := it.limit - it.next

end SpIter

namespace Sparse

def iter (m : Mode) (s : Sparse) : Outcome SpIter := do
  let (o1, it1) ← SpOneIter.nextQ m s (SpOneIter.full s)
  let nextSet := o1.map (·.2)
  let (o2, it2) ← SpOneIter.nextBackQ m s it1
  let lastSet := match o2 with | some (_, i) => some i | none => nextSet
  return ⟨it2, 0, nextSet, s.len, lastSet⟩

end Sparse

/-! ### builder -/

structure SparseBuilder where
  univ : Nat
  low : IntVec
  high : RawVec
  len : Nat
  next : Nat
  increment : Nat
  deriving DecidableEq, Repr, Inhabited

namespace SparseBuilder

def capacity (b : SparseBuilder) : Nat := b.low.len
def isFull (b : SparseBuilder) : Bool := b.len == b.capacity

/-- `SparseBuilder::new` for a given low width `w` (chosen by the f64 rule in the code) -/
def new (w univ ones : Nat) : Outcome SparseBuilder :=
  if ones > univ then fault (.err .other) else do
    let low ← IntVec.withLen ones w 0
    return ⟨univ, low, RawVec.withLen (ones + Sparse.getBuckets univ w) false, 0, 0, 1⟩

def multiset (w univ ones : Nat) : Outcome SparseBuilder := do
  let low ← IntVec.withLen ones w 0
  return ⟨univ, low, RawVec.withLen (ones + Sparse.getBuckets univ w) false, 0, 0, 0⟩

def setUnchecked (b : SparseBuilder) (index : Nat) : Outcome SparseBuilder := do
  let hi := index >>> b.low.width
  let lo := index % 2 ^ b.low.width
  let low ← b.low.set b.len (BitVec.ofNat 64 lo)
  -- `RawVector::set_bit` uses checked word indexing
  if (hi + b.len) / 64 < b.high.data.size then
    return { b with high := b.high.setBit (hi + b.len) true, low := low, len := b.len + 1, next := index + b.increment }
  else fault (.panic .index)

def trySet (b : SparseBuilder) (index : Nat) : Outcome SparseBuilder :=
  if b.isFull then fault (.err .other)
  else if index < b.next then fault (.err .other)
  else if index ≥ b.univ then fault (.err .other)
  else b.setUnchecked index

/-- `TryFrom<SparseBuilder>` -/
def build (b : SparseBuilder) : Outcome Sparse :=
  if !b.isFull then fault (.err .other) else
    ok ⟨b.univ, (BitVector.ofRaw b.high).enableSelect.enableSelectZero, b.low⟩

end SparseBuilder

/-- build a sparse vector (set or multiset mode) from sorted values with a given low width -/
def Sparse.ofValues (w univ : Nat) (multi : Bool) (vals : List Nat) : Outcome Sparse := do
  let b ← (if multi then SparseBuilder.multiset w univ vals.length else SparseBuilder.new w univ vals.length)
  let b ← vals.foldlM (fun b v => b.trySet v) b
  b.build

def sparseC : Codec Sparse where
  ser s := BitVec.ofNat 64 s.len :: (bitVectorC.ser s.high ++ intVecC.ser s.low)
  load es := do
    let (len, r) ← usizeC.load es
    let (high, r) ← bitVectorC.load r
    let (low, r) ← intVecC.load r
    let high := high.enableSelect.enableSelectZero
    if low.len ≠ high.countOnes then fault (.err .invalid)
    else if high.len ≠ low.len + Sparse.getBuckets len low.width then fault (.err .invalid)
    else return (⟨len, high, low⟩, r)

end Sds
