/-
Model/Writer: `RawVectorWriter` / `IntVectorWriter` — buffer + carry-over (< 64 bits) + header rewrite at close.
The file is a list of elements: a fixed-size header region (rewritten at close) followed by the body,
which only ever grows by whole words.  A write budget models a failing sink (`None` = unlimited).
-/
import Sds.Model.Ser

namespace Sds
open Outcome

structure RawWriter where
  len : Nat
  bufLen : Nat
  buf : RawVec
  isOpen : Bool
  /-- elements of the user header (0 for a raw writer, 2 for an integer writer) -/
  userHeader : List Word
  /-- header region as currently on disk -/
  header : List Word
  /-- body words on disk -/
  body : List Word
  /-- remaining number of *body* elements the sink accepts (none = unlimited) -/
  budget : Option Nat := none
  deriving DecidableEq, Repr, Inhabited

namespace RawWriter

/-- `with_buf_len`: buffer length rounded up to a positive multiple of 64 -/
def withBufLen (userHeader : List Word) (bufLen : Nat) (budget : Option Nat := none) : RawWriter :=
  let bl := max (((bufLen + 63) / 64) * 64) 64
  { len := 0, bufLen := bl, buf := RawVec.empty, isOpen := true, userHeader := userHeader,
    header := userHeader ++ [0, 0], body := [], budget := budget }

/-- write words to the body, honouring the budget; `false` = the sink failed (a prefix was written) -/
def writeBody (w : RawWriter) (ws : List Word) : RawWriter × Bool :=
  match w.budget with
  | none => ({ w with body := w.body ++ ws }, true)
  | some b =>
    if ws.length ≤ b then ({ w with body := w.body ++ ws, budget := some (b - ws.length) }, true)
    else ({ w with body := w.body ++ ws.take b, budget := some 0 }, false)

/-- `flush(Safe)` : keep the carry-over beyond `buf_len` in the buffer -/
def flushSafe (w : RawWriter) : RawWriter × Bool :=
  if !w.isOpen then (w, true) else
  let (ov, ovLen, buf) :=
    if w.buf.len > w.bufLen then
      (w.buf.int w.bufLen (w.buf.len - w.bufLen), w.buf.len - w.bufLen, w.buf.resize w.bufLen false)
    else ((0 : Word), 0, w.buf)
  let (w1, okw) := w.writeBody buf.data.toList
  if !okw then ({ w1 with buf := buf }, false) else
  let nb := if ovLen > 0 then RawVec.empty.pushInt ov ovLen else RawVec.empty
  ({ w1 with buf := nb }, true)

/-- `flush(Final)` -/
def flushFinal (w : RawWriter) : RawWriter × Bool :=
  if !w.isOpen then (w, true) else
  let (w1, okw) := w.writeBody w.buf.data.toList
  if !okw then (w1, false) else ({ w1 with buf := RawVec.empty }, true)

/-- `push_bit` : a failing flush panics (`unwrap`) -/
def pushBit (w : RawWriter) (b : Bool) : Outcome RawWriter :=
  let w1 := { w with buf := w.buf.pushBit b, len := w.len + 1 }
  if w1.buf.len ≥ w1.bufLen then
    let (w2, okw) := w1.flushSafe
    if okw then ok w2 else fault (.panic .unwrap)
  else ok w1

def pushInt (w : RawWriter) (value : Word) (width : Nat) : Outcome RawWriter :=
  if width = 0 then ok w else
  let w1 := { w with buf := w.buf.pushInt value width, len := w.len + width }
  if w1.buf.len ≥ w1.bufLen then
    let (w2, okw) := w1.flushSafe
    if okw then ok w2 else fault (.panic .unwrap)
  else ok w1

/-- `close_with_header` -/
def closeWith (w : RawWriter) (userHeader : List Word) : Outcome RawWriter :=
  if !w.isOpen then ok w else
    let (w1, okw) := w.flushFinal
    if !okw then fault (.err .other) else
    ok { w1 with header := userHeader ++ [BitVec.ofNat 64 w1.len, BitVec.ofNat 64 ((w1.len + 63) / 64)],
                 isOpen := false }

def close (w : RawWriter) : Outcome RawWriter := w.closeWith w.userHeader

def file (w : RawWriter) : List Word := w.header ++ w.body

end RawWriter

structure IntWriter where
  len : Nat
  width : Nat
  writer : RawWriter
  deriving DecidableEq, Repr, Inhabited

namespace IntWriter

def withBufLen (width bufLen : Nat) (budget : Option Nat := none) : Outcome IntWriter :=
  if width = 0 ∨ width > 64 then fault (.err .other) else
    ok ⟨0, width, RawWriter.withBufLen [0, 0] (bufLen * width) budget⟩

def push (w : IntWriter) (x : Word) : Outcome IntWriter := do
  let r ← w.writer.pushInt x w.width
  return { w with writer := r, len := w.len + 1 }

def close (w : IntWriter) : Outcome IntWriter := do
  let r ← w.writer.closeWith [BitVec.ofNat 64 w.len, BitVec.ofNat 64 w.width]
  return { w with writer := r }

def file (w : IntWriter) : List Word := w.writer.file

end IntWriter
end Sds
