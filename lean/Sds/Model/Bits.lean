/-
Model/Bits: `bits.rs`.  Masks (mathematical and table-driven), bit_len, reverse_low, the two
`select` paths, rounding helpers in both arithmetic modes, read_int / write_int.
The semantics of POPCNT / LZCNT / TZCNT / PDEP / bit reversal are *definitions* here (trusted base).
-/
import Sds.Model.Basic
import Sds.Generated.Tables
import Sds.Generated.Consts

namespace Sds
open Outcome

/-! ### masks -/

def lowSet (n : Nat) : Word := BitVec.ofNat 64 (2 ^ n - 1)
def highSet (n : Nat) : Word := ~~~ (lowSet (64 - n))

/-- `LOW_SET[n]` as the code reads it: checked indexing into the generated table. -/
def tableC (t : List Nat) (i : Nat) : Outcome Word :=
  match t[i]? with
  | some v => ok (BitVec.ofNat 64 v)
  | none => fault (.panic .index)

/-- `*T.get_unchecked(n)`. -/
def tableU (t : List Nat) (i : Nat) : Outcome Word :=
  match t[i]? with
  | some v => ok (BitVec.ofNat 64 v)
  | none => fault .oob

def lowSetT (n : Nat) : Outcome Word := tableC Generated.LOW_SET n
def highSetT (n : Nat) : Outcome Word := tableC Generated.HIGH_SET n
def lowSetU (n : Nat) : Outcome Word := tableU Generated.LOW_SET n
def highSetU (n : Nat) : Outcome Word := tableU Generated.HIGH_SET n

/-! ### bit counting primitives (definitions of the machine instructions) -/

def bitsOfWord (w : Word) : List Bool := (List.range 64).map fun i => w.getLsbD i

/-- POPCNT -/
def popcount (w : Word) : Nat := (bitsOfWord w).count true

/-- index of the first set bit at or after `i`, scanning at most `fuel` positions -/
def ctzFrom (w : Word) : Nat → Nat → Nat
  | 0, i => i
  | fuel + 1, i => if w.getLsbD i then i else ctzFrom w fuel (i + 1)

/-- TZCNT (64 for the zero word) -/
def ctz (w : Word) : Nat := ctzFrom w 64 0

/-- number of clear bits directly below position `k` (scanning downwards) -/
def clzBelow (w : Word) : Nat → Nat
  | 0 => 0
  | k + 1 => if w.getLsbD k then 0 else 1 + clzBelow w k

/-- LZCNT (64 for the zero word) -/
def clz (w : Word) : Nat := clzBelow w 64

/-- `bits::bit_len` -/
def bitLen (n : Word) : Nat := 64 - clz (n ||| 1)

/-- `bits::reverse_low`; the code shifts by `64 - bits` (a shift by ≥ 64 panics in checked builds and
is masked in release builds; the documented domain is 1 ≤ bits ≤ 64). -/
def reverseLow (n : Word) (bits : Nat) : Word := n.reverse >>> (64 - bits)

/-- position of the set bit of rank `r` in a bit list (specification of in-word select) -/
def selectBits : List Bool → Nat → Option Nat
  | [], _ => none
  | true :: _, 0 => some 0
  | true :: bs, r + 1 => (selectBits bs r).map (· + 1)
  | false :: bs, r => (selectBits bs r).map (· + 1)

/-- PDEP: deposit the low bits of `src` at the positions of the set bits of `mask`. -/
def pdepAux (src mask : Word) : Nat → Nat → Nat → Word → Word
  | 0, _, _, acc => acc
  | fuel + 1, i, k, acc =>
    if mask.getLsbD i then
      pdepAux src mask fuel (i + 1) (k + 1) (if src.getLsbD k then acc ||| ((1 : Word) <<< i) else acc)
    else pdepAux src mask fuel (i + 1) k acc

def pdep (src mask : Word) : Word := pdepAux src mask 64 0 0 0

/-- BMI2 path of `bits::select` -/
def selectPdep (n : Word) (rank : Nat) : Nat := ctz (pdep ((1 : Word) <<< rank) n)

/-- Portable (SWAR) path of `bits::select`, step for step.  `rank + 1` indexes `_PS_OVERFLOW` through
`get_unchecked`, the final lookup indexes `_SELECT_IN_BYTE` through `get_unchecked`. -/
def selectPortable (m : Mode) (n : Word) (rank : Nat) : Outcome Nat := do
  let c1 := n - ((n >>> 1) &&& 0x5555555555555555#64)
  let c2 := (c1 &&& 0x3333333333333333#64) + ((c1 >>> 2) &&& 0x3333333333333333#64)
  let c3 := (c2 + (c2 >>> 4)) &&& 0x0F0F0F0F0F0F0F0F#64
  let cumulative := c3 * 0x0101010101010101#64
  let ov ← tableU Generated.PS_OVERFLOW (rank + 1)
  -- `cumulative + ov` is a plain `+`: it panics in checked builds if it overflows
  let s ← addM m cumulative.toNat ov.toNat
  let mask := (BitVec.ofNat 64 s) &&& 0x8080808080808080#64
  let offset := ((ctz mask) >>> 3) <<< 3
  -- `(cumulative << 8) >> offset`: a shift by 64 (mask = 0) panics / is masked
  if offset ≥ 64 then
    (match m with
     | .checked => fault (.panic .overflow)
     | .wrapping => fault .oob)
  else do
    let prev := (((cumulative <<< 8) >>> offset).toNat) % 256
    let rel ← subM m rank prev
    let byte := ((n >>> offset).toNat) % 256
    let e ← tableU Generated.SELECT_IN_BYTE ((rel <<< 8) + byte)
    return offset + e.toNat

/-! ### rounding helpers, with the arithmetic the code performs -/

def bytesToWords (m : Mode) (n : Nat) : Outcome Nat := do
  let a ← addM m n 7; return a / 8
def wordsToBytes (m : Mode) (n : Nat) : Outcome Nat := mulM m n 8
def bitsToWords (m : Mode) (n : Nat) : Outcome Nat := do
  let a ← addM m n 63; return a / 64

/-- the two helpers as originally coded, `(n + 64 - 1) / 64` and `(n + 8 - 1) / 8` (finding F12: they panic
in checked builds at the last value of their documented domain) -/
def bitsToWordsOld (m : Mode) (n : Nat) : Outcome Nat := do
  let a ← addM m n 64; let b ← subM m a 1; return b / 64
def bytesToWordsOld (m : Mode) (n : Nat) : Outcome Nat := do
  let a ← addM m n 8; let b ← subM m a 1; return b / 8
def wordsToBits (m : Mode) (n : Nat) : Outcome Nat := mulM m n 64
def roundUpToWordBytes (m : Mode) (n : Nat) : Outcome Nat := do
  let w ← bytesToWords m n; wordsToBytes m w
def roundUpToWordBits (m : Mode) (n : Nat) : Outcome Nat := do
  let w ← bitsToWords m n; wordsToBits m w
def divRoundUp (m : Mode) (value n : Nat) : Outcome Nat := do
  let a ← addM m value n; let b ← subM m a 1
  if n = 0 then fault (.panic .other) else return b / n
def splitOffset (bitOffset : Nat) : Nat × Nat := (bitOffset >>> 6, bitOffset &&& 63)
def bitOffset (m : Mode) (index offset : Nat) : Outcome Nat := do
  -- `index << 6` silently drops high bits in both modes
  addM m ((index <<< 6) % U64) offset
def fillerValue (b : Bool) : Word := if b then BitVec.allOnes 64 else 0

/-! ### bit-array access -/

/-- bit `j` of a word array (out of range = false; only used in statements and specs) -/
def getBit (a : Array Word) (j : Nat) : Bool := (rd a (j / 64)).getLsbD (j % 64)

/-- `bits::write_int` on in-range indices (total version; the guarded version is `writeIntM`). -/
def writeInt (a : Array Word) (bitOff : Nat) (value : Word) (width : Nat) : Array Word :=
  let value := value &&& lowSet width
  let index := bitOff / 64
  let offset := bitOff % 64
  if offset + width ≤ 64 then
    let w := rd a index
    let w := w &&& (highSet (64 - width - offset) ||| lowSet offset)
    a.setIfInBounds index (w ||| (value <<< offset))
  else
    let w0 := (rd a index &&& lowSet offset) ||| (value <<< offset)
    let a := a.setIfInBounds index w0
    let w1 := (rd a (index + 1) &&& highSet (128 - width - offset)) ||| (value >>> (64 - offset))
    a.setIfInBounds (index + 1) w1

/-- `bits::read_int` on in-range indices. -/
def readInt (a : Array Word) (bitOff : Nat) (width : Nat) : Word :=
  let index := bitOff / 64
  let offset := bitOff % 64
  let first := rd a index >>> offset
  if offset + width ≤ 64 then first &&& lowSet width
  else first ||| ((rd a (index + 1) &&& lowSet ((offset + width) % 64)) <<< (64 - offset))

/-- `bits::write_int` with the index checks of `array[index]` (panic) and the checked `low_set(width)`. -/
def writeIntM (a : Array Word) (bitOff : Nat) (value : Word) (width : Nat) : Outcome (Array Word) :=
  if width > 64 then fault (.panic .index) else
  let index := bitOff / 64
  let offset := bitOff % 64
  if offset + width ≤ 64 then
    if index < a.size then ok (writeInt a bitOff value width) else fault (.panic .index)
  else
    if index + 1 < a.size then ok (writeInt a bitOff value width) else fault (.panic .index)

def readIntM (a : Array Word) (bitOff : Nat) (width : Nat) : Outcome Word :=
  if width > 64 then fault .oob else
  let index := bitOff / 64
  let offset := bitOff % 64
  if offset + width ≤ 64 then
    if index < a.size then ok (readInt a bitOff width) else fault (.panic .index)
  else
    if index + 1 < a.size then ok (readInt a bitOff width) else fault (.panic .index)

end Sds
