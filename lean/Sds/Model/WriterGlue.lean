/-
Model/WriterGlue: the two file-touching methods of `RawVectorWriter` (`flush`, `write_header`) as the translated callers
see them — each returns the success flag of its `io::Result<()>` and the new writer state.  They are the model functions
of Model/Writer.lean repackaged; the translated `push_bit`, `push_int`, `close`, `close_with_header` call them.
-/
import Sds.Model.Writer

namespace Sds

inductive FlushMode | safe | final
  deriving DecidableEq, Repr

namespace RawWriter

/-- `flush(mode)` -/
def flushG (w : RawWriter) (mode : FlushMode) : Bool × RawWriter :=
  match mode with
  | .safe => (w.flushSafe.2, w.flushSafe.1)
  | .final => (w.flushFinal.2, w.flushFinal.1)

/-- `write_header(header)`: seek to 0, append `len` and the word count to the caller's header, write it.  (The header
region is outside the write budget of the model: the budget counts body elements.) -/
def writeHeaderG (w : RawWriter) (header : List Word) : Bool × RawWriter :=
  if w.isOpen then
    (true, { w with header := header ++ [BitVec.ofNat 64 w.len, BitVec.ofNat 64 ((w.len + 63) / 64)] })
  else (true, w)

end RawWriter
end Sds
