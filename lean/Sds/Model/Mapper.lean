/-
Model/Mapper: the `MemoryMapped` views of `serialize.rs`, `raw_vector.rs`, `int_vector.rs` over a file
given as an array of elements, with the exact bounds tests of each `new` (mode-checked arithmetic),
`map_offset` and `map_len`.  Model/OS: the address-space effect of `MemoryMap::new` / `drop`.
-/
import Sds.Model.Ser

namespace Sds
open Outcome

/-- a view: where it starts, how many elements it spans, and the elements of its payload -/
structure View where
  offset : Nat
  mapLen : Nat
  /-- declared length (items / bytes / bits, depending on the view type) -/
  len : Nat
  payload : List Word
  deriving DecidableEq, Repr, Inhabited

def fileAt (file : Array Word) (i : Nat) : Outcome Nat :=
  match file[i]? with
  | some w => ok w.toNat
  | none => fault (.panic .index)

namespace View

/-- `MappedSlice<T>::new` with `k = T::elements()` -/
def slice (m : Mode) (k : Nat) (file : Array Word) (offset : Nat) : Outcome View :=
  if offset ≥ file.size then fault (.err .eof) else do
    let len ← fileAt file offset
    let a ← addM m offset 1
    let b ← mulM m len k
    let e ← addM m a b
    if e > file.size then fault (.err .eof) else
    return ⟨offset, len * k + 1, len, (file.toList.drop (offset + 1)).take (len * k)⟩

/-- `MappedBytes::new` (and `MappedStr` up to the UTF-8 test) -/
def bytes (m : Mode) (file : Array Word) (offset : Nat) : Outcome View :=
  if offset ≥ file.size then fault (.err .eof) else do
    let len ← fileAt file offset
    let a ← addM m offset 1
    let w ← bytesToWords m len
    let e ← addM m a w
    if e > file.size then fault (.err .eof) else
    return ⟨offset, (len + 7) / 8 + 1, len, (file.toList.drop (offset + 1)).take ((len + 7) / 8)⟩

def str (m : Mode) (valid : List UInt8 → Bool) (file : Array Word) (offset : Nat) : Outcome View := do
  let v ← bytes m file offset
  if valid ((toBytes v.payload).take v.len) then return v else fault (.err .invalid)

/-- `RawVectorMapper::new` -/
def raw (m : Mode) (file : Array Word) (offset : Nat) : Outcome View :=
  if offset ≥ file.size then fault (.err .eof) else do
    let len ← fileAt file offset
    let o1 ← addM m offset 1
    let d ← slice m 1 file o1
    let mo ← subM m d.offset 1
    return ⟨mo, d.mapLen + 1, len, d.payload⟩

/-- `IntVectorMapper::new` as first coded: `offset + 1` evaluated before any range test (finding F11) -/
def intOld (m : Mode) (file : Array Word) (offset : Nat) : Outcome (View × Nat) := do
  let o1 ← addM m offset 1
  if o1 ≥ file.size then fault (.err .eof) else do
    let len ← fileAt file offset
    let width ← fileAt file (offset + 1)
    let o2 ← addM m offset 2
    let d ← raw m file o2
    let mo ← subM m d.offset 2
    return (⟨mo, d.mapLen + 2, len, d.payload⟩, width)

/-- `IntVectorMapper::new` (repaired): `offset >= len || offset + 1 >= len` -/
def int (m : Mode) (file : Array Word) (offset : Nat) : Outcome (View × Nat) :=
  if offset ≥ file.size then fault (.err .eof) else do
  let o1 ← addM m offset 1
  if o1 ≥ file.size then fault (.err .eof) else do
    let len ← fileAt file offset
    let width ← fileAt file (offset + 1)
    let o2 ← addM m offset 2
    let d ← raw m file o2
    let mo ← subM m d.offset 2
    return (⟨mo, d.mapLen + 2, len, d.payload⟩, width)

/-- `MappedOption<T>::new` for an inner constructor `inner` -/
def option (m : Mode) (inner : Array Word → Nat → Outcome View) (file : Array Word) (offset : Nat) :
    Outcome (View × Bool) :=
  if offset ≥ file.size then fault (.err .eof) else do
    let dl ← fileAt file offset
    if dl > 0 then do
      let o1 ← addM m offset 1
      let v ← inner file o1
      return (⟨offset, dl + 1, dl, v.payload⟩, true)
    else return (⟨offset, 1, 0, []⟩, false)

end View

/-! ### address space -/

def PAGE : Nat := 4096

/-- the process's mappings of the file, as (first page index, number of pages) -/
structure AddrSpace where
  mapped : List (Nat × Nat) := []
  nextPage : Nat := 16
  deriving DecidableEq, Repr, Inhabited

inductive MmapResult | failed | addr (page : Nat)
  deriving DecidableEq, Repr

/-- kernel: `mmap(NULL, len, …)` fails with MAP_FAILED (= −1, *not* NULL) for `len = 0` -/
def sysMmap (s : AddrSpace) (lenBytes : Nat) : AddrSpace × MmapResult :=
  if lenBytes = 0 then (s, .failed) else
    let pages := (lenBytes + PAGE - 1) / PAGE
    ({ mapped := (s.nextPage, pages) :: s.mapped, nextPage := s.nextPage + pages + 1 }, .addr s.nextPage)

/-- kernel: `munmap(addr, len)` releases the pages of `[addr, addr + roundup(len))`; `len = 0` is EINVAL -/
def sysMunmap (s : AddrSpace) (page : Nat) (lenBytes : Nat) : AddrSpace :=
  if lenBytes = 0 then s else
    let n := (lenBytes + PAGE - 1) / PAGE
    { s with mapped := s.mapped.flatMap fun (p, k) =>
        -- remove pages [page, page+n) from [p, p+k)
        let lo := max p page
        let hi := min (p + k) (page + n)
        if lo ≥ hi then [(p, k)] else
          (if p < lo then [(p, lo - p)] else []) ++ (if hi < p + k then [(hi, p + k - hi)] else []) }

def pagesMapped (s : AddrSpace) : Nat := (s.mapped.map (·.2)).sum

/-- a live `MemoryMap`: pointer (as a page, or the MAP_FAILED sentinel) and length in elements -/
structure MMap where
  ptr : MmapResult
  lenElems : Nat
  deriving DecidableEq, Repr

/-- `MemoryMap::new` as coded: failure is detected by comparing with NULL, which `mmap` never returns -/
def mmapNewImpl (s : AddrSpace) (fileBytes : Nat) : AddrSpace × Outcome MMap :=
  if fileBytes % 8 ≠ 0 then (s, fault (.err .other)) else
    let (s', r) := sysMmap s fileBytes
    (s', ok ⟨r, fileBytes / 8⟩)

/-- `MemoryMap::new` as specified -/
def mmapNewSpec (s : AddrSpace) (fileBytes : Nat) : AddrSpace × Outcome MMap :=
  if fileBytes % 8 ≠ 0 then (s, fault (.err .other)) else
    let (s', r) := sysMmap s fileBytes
    match r with
    | .failed => (s', fault (.err .other))
    | .addr _ => (s', ok ⟨r, fileBytes / 8⟩)

/-- `Drop` : `bytesPerElem` is what the code multiplies the element count by (the code as written uses 1) -/
def mmapDrop (bytesPerElem : Nat) (s : AddrSpace) (mm : MMap) : AddrSpace :=
  match mm.ptr with
  | .failed => s
  | .addr p => sysMunmap s p (mm.lenElems * bytesPerElem)

end Sds
