/-
Model/GenSupport: the fixed vocabulary into which tools/rs2lean.py translates Rust expressions
(Generated/Fns*.lean).  Every definition states the Rust semantics of one operator or std method on `usize` / `u64`
in the two build modes; nothing here depends on the library's source.
-/
import Sds.Model.Bits

namespace Sds.Generated
open Sds Outcome

/-- `a / b` on `usize`: division by zero panics -/
def gDiv (a b : Nat) : Outcome Nat := if b = 0 then fault (.panic .other) else ok (a / b)
/-- `a % b` on `usize`: remainder by zero panics -/
def gMod (a b : Nat) : Outcome Nat := if b = 0 then fault (.panic .other) else ok (a % b)

/-- the amount of a shift of a 64-bit value: `>= 64` panics with overflow checks on and is taken modulo 64 without -/
def shAmt (m : Mode) (k : Nat) : Outcome Nat :=
  if k < 64 then ok k else
    match m with
    | .checked => fault (.panic .overflow)
    | .wrapping => ok (k % 64)

def shlU (m : Mode) (a k : Nat) : Outcome Nat := do let s ← shAmt m k; return (a <<< s) % U64
def shrU (m : Mode) (a k : Nat) : Outcome Nat := do let s ← shAmt m k; return a >>> s
def shlW (m : Mode) (w : Word) (k : Nat) : Outcome Word := do let s ← shAmt m k; return w <<< s
def shrW (m : Mode) (w : Word) (k : Nat) : Outcome Word := do let s ← shAmt m k; return w >>> s

def addW (m : Mode) (a b : Word) : Outcome Word := do let s ← addM m a.toNat b.toNat; return BitVec.ofNat 64 s
def subW (m : Mode) (a b : Word) : Outcome Word := do let s ← subM m a.toNat b.toNat; return BitVec.ofNat 64 s
def mulW (m : Mode) (a b : Word) : Outcome Word := do let s ← mulM m a.toNat b.toNat; return BitVec.ofNat 64 s

/-- `b as u64`, `b as usize` -/
def boolW (b : Bool) : Word := if b then 1 else 0
def boolU (b : Bool) : Nat := if b then 1 else 0

/-- `assert!(c)` -/
def gAssert (c : Bool) : Outcome Unit := if c then ok () else fault (.panic .assert)

/-- `usize::checked_sub`, `usize::checked_add` -/
def checkedSub (a b : Nat) : Option Nat := if b ≤ a then some (a - b) else none
def checkedAdd (a b : Nat) : Option Nat := if a + b < U64 then some (a + b) else none

/-- `samples[i]` / `*samples.get_unchecked(i)` on a `Vec<(u64, u64)>` -/
def getPairC (a : Array (Word × Word)) (i : Nat) : Outcome (Word × Word) :=
  if h : i < a.size then ok a[i] else fault (.panic .index)
def getPairU (a : Array (Word × Word)) (i : Nat) : Outcome (Word × Word) :=
  if h : i < a.size then ok a[i] else fault .oob

/-- control outcome of one iteration of a translated loop body: iterate with a new state, leave the loop (`break`, or the
`while` condition is false), or `return` from the enclosing function -/
inductive Ctl (σ ρ : Type) | next (s : σ) | brk (s : σ) | ret (r : ρ)

/-- a `while` / `loop` with an explicit iteration bound (exhausting it is the distinct outcome `fuel`) -/
def loopM {σ ρ : Type} : Nat → (σ → Outcome (Ctl σ ρ)) → σ → Outcome (Ctl σ ρ)
  | 0, _, _ => fault .fuel
  | n + 1, step, s => do
    match ← step s with
    | .next s' => loopM n step s'
    | r => pure r

/-- `r?` / `r.unwrap()` on an `io::Result<()>` represented by its success flag -/
def gTry (okFlag : Bool) : Outcome Unit := if okFlag then ok () else fault (.err .other)
def gUnwrap (okFlag : Bool) : Outcome Unit := if okFlag then ok () else fault (.panic .unwrap)

/-- `r.unwrap()` on a `Result<T, E>`: an `Err` becomes a panic -/
def unwrapRes {α} : Outcome α → Outcome α
  | .fault (.err _) => fault (.panic .unwrap)
  | x => x

/-- `v.iter().max()` over an indexable collection of `n` items: the items are read in order (a fault at a read is the
fault of the whole), `None` on the empty collection -/
def maxByGet (n : Nat) (get : Nat → Outcome Word) : Outcome (Option Word) :=
  (List.range n).foldlM (fun (acc : Option Word) i => do
    let x ← get i
    return (match acc with
      | none => some x
      | some a => some (if a ≤ x then x else a))) none

/-- `a.iter().cloned().max()` on a `Vec<u64>` -/
def arrMaxW (a : Array Word) : Option Word :=
  a.foldl (fun (acc : Option Word) x => match acc with
    | none => some x
    | some y => some (if y ≤ x then x else y)) none

/-- `pairs[i]` on a `Vec<(u64, usize)>` -/
def getWU (a : Array (Word × Nat)) (i : Nat) : Outcome (Word × Nat) :=
  if h : i < a.size then ok a[i] else fault (.panic .index)

/-- `pairs.sort_unstable_by_key(key)`.  Rust's sort is not stable; every use in the crate sorts by a key that is distinct
for distinct items (the value itself, or its bit reversal), so the result does not depend on stability. -/
def sortByKeyWU (a : Array (Word × Nat)) (key : Word × Nat → Nat) : Array (Word × Nat) :=
  (a.toList.mergeSort (fun x y => decide (key x ≤ key y))).toArray

end Sds.Generated
