/-
Model/IntVec: `int_vector.rs` (in-memory part).  State = (len, width, raw).
-/
import Sds.Model.RawVec

namespace Sds
open Outcome

structure IntVec where
  len : Nat
  width : Nat
  data : RawVec
  deriving DecidableEq, Repr, Inhabited

namespace IntVec

def WF (v : IntVec) : Prop := 1 ≤ v.width ∧ v.width ≤ 64 ∧ v.data.len = v.len * v.width ∧ v.data.WF

instance (v : IntVec) : Decidable v.WF := by unfold WF; exact inferInstance

/-- `IntVector::new` : rejects widths outside 1..64 with an error -/
def new (width : Nat) : Outcome IntVec :=
  if width = 0 ∨ width > 64 then fault (.err .other) else ok ⟨0, width, RawVec.empty⟩

/-- `IntVector::default()` — width 64 -/
def default : IntVec := ⟨0, 64, RawVec.empty⟩

def getRaw (v : IntVec) (i : Nat) : Word := v.data.int (i * v.width) v.width

/-- observable content -/
def items (v : IntVec) : List Nat := (List.range v.len).map fun i => (v.getRaw i).toNat

def push (v : IntVec) (x : Word) : IntVec :=
  { v with len := v.len + 1, data := v.data.pushInt x v.width }

def withLen (len width : Nat) (value : Word) : Outcome IntVec :=
  if width = 0 ∨ width > 64 then fault (.err .other) else
    ok ⟨len, width, (List.range len).foldl (fun d _ => d.pushInt value width) RawVec.empty⟩

def withCapacity (_cap width : Nat) : Outcome IntVec := new width

/-- `get` asserts the index -/
def get (v : IntVec) (i : Nat) : Outcome Word :=
  if i < v.len then ok (v.getRaw i) else fault (.panic .assert)

def getOr (v : IntVec) (i : Nat) (d : Word) : Word := if i < v.len then v.getRaw i else d

def set (v : IntVec) (i : Nat) (x : Word) : Outcome IntVec :=
  if i < v.len then ok { v with data := v.data.setInt (i * v.width) x v.width } else fault (.panic .assert)

def pop (v : IntVec) : Option Word × IntVec :=
  let len' := if v.len > 0 then v.len - 1 else v.len
  let (r, d) := v.data.popInt v.width
  (r, { v with len := len', data := d })

def extend (v : IntVec) (xs : List Word) : IntVec := xs.foldl push v

def resize (v : IntVec) (newLen : Nat) (value : Word) : IntVec :=
  if newLen > v.len then (List.range (newLen - v.len)).foldl (fun u _ => u.push value) v
  else if newLen < v.len then { v with len := newLen, data := v.data.resize (newLen * v.width) false }
  else v

def clear (v : IntVec) : IntVec := { v with len := 0, data := RawVec.empty }

def maxItem (v : IntVec) : Nat := v.items.foldl max 0

/-- `pack()` : returns early on an empty vector and when the width is already minimal -/
def pack (v : IntVec) : IntVec :=
  if v.len = 0 then v else
    let nw := bitLen (BitVec.ofNat 64 v.maxItem)
    if nw = v.width then v else
      ⟨v.len, nw, v.items.foldl (fun d x => d.pushInt (BitVec.ofNat 64 x) nw) RawVec.empty⟩

def ofList (width : Nat) (xs : List Nat) : IntVec :=
  (⟨0, width, RawVec.empty⟩ : IntVec).extend (xs.map (BitVec.ofNat 64))

end IntVec
end Sds
