/-
Model/Basic: words, outcomes (faults are values), the two arithmetic modes.
Core Lean only — everything under Model/ must stay Mathlib-free so the driver links as an executable.
-/
namespace Sds

abbrev Word := BitVec 64

/-- 2^64, the number of `usize`/`u64` values on the modelled target. -/
def U64 : Nat := 18446744073709551616

theorem U64_eq : U64 = 2 ^ 64 := by decide

inductive PanicKind | overflow | index | unwrap | assert | other
  deriving DecidableEq, Repr, Inhabited

inductive ErrKind | eof | invalid | other
  deriving DecidableEq, Repr, Inhabited

/-- What a modelled operation can do instead of returning:
`oob` = an access outside a buffer through an *unchecked* accessor (undefined behaviour in the code),
`panic k` = a Rust panic, `err k` = an `io::Error` / `Err(&str)`, `fuel` = a loop bound exhausted
(never reachable when the termination lemmas hold). -/
inductive Fault | oob | panic (k : PanicKind) | err (k : ErrKind) | fuel
  deriving DecidableEq, Repr, Inhabited

inductive Outcome (α : Type) | ok (a : α) | fault (f : Fault)
  deriving DecidableEq, Repr

namespace Outcome

@[inline] def bind {α β} (x : Outcome α) (f : α → Outcome β) : Outcome β :=
  match x with
  | ok a => f a
  | fault e => fault e

instance : Monad Outcome where
  pure := ok
  bind := Outcome.bind

@[simp] theorem bind_ok {α β} (a : α) (f : α → Outcome β) : (ok a >>= f) = f a := rfl
@[simp] theorem bind_fault {α β} (e : Fault) (f : α → Outcome β) : (fault e >>= f) = fault e := rfl
@[simp] theorem pure_eq {α} (a : α) : (pure a : Outcome α) = ok a := rfl
@[simp] theorem map_ok {α β} (f : α → β) (a : α) : (f <$> (ok a : Outcome α)) = ok (f a) := rfl
@[simp] theorem map_fault {α β} (f : α → β) (e : Fault) : (f <$> (fault e : Outcome α)) = fault e := rfl

def isOk {α} : Outcome α → Bool | ok _ => true | fault _ => false
def toOption {α} : Outcome α → Option α | ok a => some a | fault _ => none

end Outcome

open Outcome

/-- `checked` = overflow checks on (the debug / test profile): overflow panics.
`wrapping` = release build without overflow checks: arithmetic wraps modulo 2^64. -/
inductive Mode | checked | wrapping
  deriving DecidableEq, Repr, Inhabited

def addM (m : Mode) (a b : Nat) : Outcome Nat :=
  if a + b < U64 then ok (a + b) else
    match m with
    | .checked => fault (.panic .overflow)
    | .wrapping => ok ((a + b) % U64)

def subM (m : Mode) (a b : Nat) : Outcome Nat :=
  if b ≤ a then ok (a - b) else
    match m with
    | .checked => fault (.panic .overflow)
    | .wrapping => ok ((a + U64 - b) % U64)

def mulM (m : Mode) (a b : Nat) : Outcome Nat :=
  if a * b < U64 then ok (a * b) else
    match m with
    | .checked => fault (.panic .overflow)
    | .wrapping => ok ((a * b) % U64)

theorem addM_ok {m a b} (h : a + b < U64) : addM m a b = ok (a + b) := by simp [addM, h]
theorem subM_ok {m a b} (h : b ≤ a) : subM m a b = ok (a - b) := by simp [subM, h]
theorem mulM_ok {m a b} (h : a * b < U64) : mulM m a b = ok (a * b) := by simp [mulM, h]

/-- Array read through an *unchecked* accessor (`get_unchecked`): out of range is `oob`, never a default. -/
def getW (a : Array Word) (i : Nat) : Outcome Word :=
  if h : i < a.size then ok a[i] else fault .oob

/-- Array read through a *checked* accessor (`a[i]`): out of range is an index panic. -/
def getC (a : Array Word) (i : Nat) : Outcome Word :=
  if h : i < a.size then ok a[i] else fault (.panic .index)

/-- Total reader used in statements and in the proofs about in-range accesses. -/
def rd (a : Array Word) (k : Nat) : Word := a[k]?.getD 0

theorem getW_ok {a : Array Word} {i : Nat} (h : i < a.size) : getW a i = ok (rd a i) := by
  simp [getW, rd, h]

theorem getC_ok {a : Array Word} {i : Nat} (h : i < a.size) : getC a i = ok (rd a i) := by
  simp [getC, rd, h]

theorem rd_set (a : Array Word) (i k : Nat) (x : Word) (h : i < a.size) :
    rd (a.setIfInBounds i x) k = if k = i then x else rd a k := by
  unfold rd
  by_cases hk : k = i
  · subst hk; simp [h]
  · simp [hk, Array.getElem?_setIfInBounds_ne (Ne.symm hk)]

theorem rd_push (a : Array Word) (k : Nat) (x : Word) :
    rd (a.push x) k = if k = a.size then x else rd a k := by
  unfold rd
  by_cases hk : k = a.size
  · subst hk; simp
  · by_cases hlt : k < a.size
    · simp [hk, Array.getElem?_push_lt hlt, hlt]
    · have : a.size < k := by omega
      simp [hk, Array.getElem?_push]

theorem rd_of_ge (a : Array Word) (k : Nat) (h : a.size ≤ k) : rd a k = 0 := by
  unfold rd; simp [Array.getElem?_eq_none h]

end Sds
