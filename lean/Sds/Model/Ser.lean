/-
Model/Ser: `serialize.rs` — the Serialize trait as codecs over 8-byte elements.
A file is a list of elements (`Word`s); `toBytes`/`ofBytes` give the little-endian byte view.  All reads
in the code are `read_exact` of whole elements (byte vectors: content then padding, which together need
exactly ⌈n/8⌉ complete elements), so a byte stream behaves like the list of its *complete* elements.
-/
import Sds.Model.BitVector

namespace Sds
open Outcome

abbrev Elems := List Word

structure Codec (α : Type) where
  ser : α → Elems
  load : Elems → Outcome (α × Elems)

def Codec.size {α} (c : Codec α) (x : α) : Nat := (c.ser x).length

/-! ### byte view -/

def wordToBytes (w : Word) : List UInt8 := (List.range 8).map fun i => UInt8.ofNat ((w.toNat >>> (8 * i)) % 256)

def bytesToNat : List UInt8 → Nat
  | [] => 0
  | b :: bs => b.toNat + 256 * bytesToNat bs

def toBytes (es : Elems) : List UInt8 := es.flatMap wordToBytes

/-- complete 8-byte groups only (an incomplete tail can never be consumed by a `read_exact`) -/
def ofBytes : List UInt8 → Elems
  | b0 :: b1 :: b2 :: b3 :: b4 :: b5 :: b6 :: b7 :: rest =>
      BitVec.ofNat 64 (bytesToNat [b0, b1, b2, b3, b4, b5, b6, b7]) :: ofBytes rest
  | _ => []

/-! ### primitive readers -/

def readElem : Elems → Outcome (Word × Elems)
  | [] => fault (.err .eof)
  | w :: r => ok (w, r)

/-- `read_exact` of `n` elements -/
def readN (n : Nat) (es : Elems) : Outcome (List Word × Elems) :=
  if n ≤ es.length then ok (es.take n, es.drop n) else fault (.err .eof)

/-! ### Serializable items and vectors of them -/

def u64C : Codec Word where
  ser w := [w]
  load := readElem

/-- `usize` (64-bit target) -/
def usizeC : Codec Nat where
  ser n := [BitVec.ofNat 64 n]
  load es := do let (w, r) ← readElem es; return (w.toNat, r)

def pairC : Codec (Word × Word) where
  ser p := [p.1, p.2]
  load es := do let (a, r) ← readElem es; let (b, r) ← readElem r; return ((a, b), r)

def vecU64C : Codec (Array Word) where
  ser a := BitVec.ofNat 64 a.size :: a.toList
  load es := do
    let (n, r) ← readElem es
    let (ws, r) ← readN n.toNat r
    return (ws.toArray, r)

def pairsOf : List Word → List (Word × Word)
  | a :: b :: r => (a, b) :: pairsOf r
  | _ => []

def vecPairC : Codec (Array (Word × Word)) where
  ser a := BitVec.ofNat 64 a.size :: a.toList.flatMap fun p => [p.1, p.2]
  load es := do
    let (n, r) ← readElem es
    let (ws, r) ← readN (2 * n.toNat) r
    return ((pairsOf ws).toArray, r)

/-! ### byte vectors and strings (zero padded to a multiple of 8) -/

def packBytesAux : Nat → List UInt8 → Elems
  | 0, _ => []
  | _, [] => []
  | fuel + 1, bs => BitVec.ofNat 64 (bytesToNat (bs.take 8)) :: packBytesAux fuel (bs.drop 8)

/-- little-endian packing, zero padded (fuel = length suffices) -/
def packBytes (bs : List UInt8) : Elems := packBytesAux bs.length bs

def bytesC : Codec (List UInt8) where
  ser bs := BitVec.ofNat 64 bs.length :: packBytes bs
  load es := do
    let (n, r) ← readElem es
    let (ws, r) ← readN ((n.toNat + 7) / 8) r
    return ((toBytes ws).take n.toNat, r)

/-- `String`: bytes plus a UTF-8 validity test on load (`valid` abstracts `String::from_utf8`) -/
def stringC (valid : List UInt8 → Bool) : Codec (List UInt8) where
  ser := bytesC.ser
  load es := do
    let (bs, r) ← bytesC.load es
    if valid bs then return (bs, r) else fault (.err .invalid)

/-! ### Option: length prefix (in elements), 0 = absent -/

def optionC {α} (c : Codec α) : Codec (Option α) where
  ser
    | none => [0]
    | some x => BitVec.ofNat 64 (c.ser x).length :: c.ser x
  load es := do
    let (n, r) ← readElem es
    if n.toNat = 0 then return (none, r) else do
      let (x, r) ← c.load r
      return (some x, r)

/-- `skip_option` as coded: `io::copy(take(n*8))` stops silently at end of input -/
def skipOptionImpl (es : Elems) : Outcome Elems := do
  let (n, r) ← readElem es
  return r.drop n.toNat

/-- `skip_option` as specified: a short stream is an error -/
def skipOptionSpec (es : Elems) : Outcome Elems := do
  let (n, r) ← readElem es
  if n.toNat ≤ r.length then return r.drop n.toNat else fault (.err .eof)

/-- `io::copy(&mut reader.by_ref().take(bytes), &mut io::sink())` on a stream of whole elements, for a byte count that is
a multiple of 8 (the only ones `skip_option` forms: `elements * 8`, wrapped or not): up to `bytes / 8` elements are consumed
— fewer when the stream ends first, silently — and the number of bytes consumed is reported -/
def copyTakeSink (es : Elems) (bytes : Word) : Outcome (Word × Elems) :=
  let k := min (bytes.toNat / 8) es.length
  ok (BitVec.ofNat 64 (8 * k), es.drop k)

/-! ### structures -/

def rawVecC : Codec RawVec where
  ser v := BitVec.ofNat 64 v.len :: vecU64C.ser v.data
  load es := do
    let (len, r) ← usizeC.load es
    let (data, r) ← vecU64C.load r
    if (len + 63) / 64 ≠ data.size then fault (.err .invalid) else return (⟨len, data⟩, r)

def intVecC : Codec IntVec where
  ser v := BitVec.ofNat 64 v.len :: BitVec.ofNat 64 v.width :: rawVecC.ser v.data
  load es := do
    let (len, r) ← usizeC.load es
    let (width, r) ← usizeC.load r
    let (data, r) ← rawVecC.load r
    if len * width ≠ data.len then fault (.err .invalid) else return (⟨len, width, data⟩, r)

def rankSupC : Codec RankSup where
  ser s := vecPairC.ser s.samples
  load es := do let (a, r) ← vecPairC.load es; return (⟨a⟩, r)

def selSupC : Codec SelSup where
  ser s := intVecC.ser s.samples ++ intVecC.ser s.long ++ intVecC.ser s.short
  load es := do
    let (samples, r) ← intVecC.load es
    let (long, r) ← intVecC.load r
    let (short, r) ← intVecC.load r
    let s : SelSup := ⟨samples, long, short⟩
    if s.superblocks ≠ s.longSuperblocks + s.shortSuperblocks then fault (.err .invalid) else return (s, r)

def bitVectorC : Codec BitVector where
  ser b := BitVec.ofNat 64 b.ones :: (rawVecC.ser b.data ++ (optionC rankSupC).ser b.rank ++
            (optionC selSupC).ser b.select ++ (optionC selSupC).ser b.selectZero)
  load es := do
    let (ones, r) ← usizeC.load es
    let (data, r) ← rawVecC.load r
    if ones > data.len then fault (.err .invalid) else
    let (rank, r) ← (optionC rankSupC).load r
    if (match rank with | some s => decide (s.samples.size ≠ (data.len + 511) / 512) | none => false)
    then fault (.err .invalid) else
    let (sel, r) ← (optionC selSupC).load r
    if (match sel with | some s => decide (s.superblocks ≠ (ones + 4095) / 4096) | none => false)
    then fault (.err .invalid) else
    let (selz, r) ← (optionC selSupC).load r
    if (match selz with | some s => decide (s.superblocks ≠ (data.len - ones + 4095) / 4096) | none => false)
    then fault (.err .invalid) else
    return ({ ones := ones, data := data, rank := rank, select := sel, selectZero := selz }, r)

end Sds
