/-
Model/Iter: the two-cursor iterators `ops::AccessIter`, `bit_vector::Iter`, `int_vector::IntoIter`
(state = (next, limit) over an indexable parent), and the reference deque with the same call alphabet.
-/
import Sds.Model.BitVector

namespace Sds
open Outcome

/-- the iterator call alphabet used by the correspondence check -/
inductive ICall | next | nextBack | nth (k : Nat) | nthBack (k : Nat) | len
  deriving DecidableEq, Repr, Inhabited

/-- what a call returns: an item, `none`, or the remaining length -/
inductive IOut (α : Type) | item (a : α) | none | len (n : Nat)
  deriving DecidableEq, Repr

/-- reference semantics: a double-ended queue over the reference sequence -/
def dequeStep {α} (xs : List α) : ICall → IOut α × List α
  | .next => (match xs with | [] => (.none, []) | x :: r => (.item x, r))
  | .nextBack => (match xs.getLast? with | none => (.none, []) | some x => (.item x, xs.dropLast))
  | .nth k => (match xs.drop k with | [] => (.none, []) | x :: r => (.item x, r))
  | .nthBack k =>
    let r := xs.take (xs.length - k)
    (match r.getLast? with | none => (.none, []) | some x => (.item x, r.dropLast))
  | .len => (.len xs.length, xs)

def dequeRunM {α} (xs : List α) : List ICall → List (IOut α)
  | [] => []
  | c :: cs => let (o, r) := dequeStep xs c; o :: dequeRunM r cs

/-- `(next, limit)` cursor pair -/
structure Cursor where
  next : Nat
  limit : Nat
  deriving DecidableEq, Repr, Inhabited

/-- one call of `AccessIter` / `bit_vector::Iter` over a parent with item function `get`
(`get` is only ever called below `limit ≤ len`): `nth`/`nth_back` clamp with `min`, then step. -/
def cursorStep {α} (get : Nat → α) (c : Cursor) : ICall → IOut α × Cursor
  | .next => if c.next ≥ c.limit then (.none, c) else (.item (get c.next), { c with next := c.next + 1 })
  | .nextBack => if c.next ≥ c.limit then (.none, c) else (.item (get (c.limit - 1)), { c with limit := c.limit - 1 })
  | .nth k =>
    let n := c.next + min k (c.limit - c.next)
    if n ≥ c.limit then (.none, { c with next := n }) else (.item (get n), { c with next := n + 1 })
  | .nthBack k =>
    let l := c.limit - min k (c.limit - c.next)
    if c.next ≥ l then (.none, { c with limit := l }) else (.item (get (l - 1)), { c with limit := l - 1 })
  | .len => (.len (c.limit - c.next), c)

def cursorRun {α} (get : Nat → α) (c : Cursor) : List ICall → List (IOut α)
  | [] => []
  | k :: ks => let (o, c') := cursorStep get c k; o :: cursorRun get c' ks

/-- `IntoIter` (forward only, index cursor) -/
def intoIterStep {α} (get : Nat → α) (len : Nat) (i : Nat) : IOut α × Nat :=
  if i ≥ len then (.none, i) else (.item (get i), i + 1)

end Sds
