/-
Model/Atomic: sequentially consistent interleaving semantics for the straight-line sequence of
operations that `temp_file_name` performs on `TEMP_FILE_COUNTER` (the op list itself is generated
from the source on every run: Generated/TempName.lean).
-/
namespace Sds

/-- One access to the shared counter.  `reg` is the thread-local value most recently obtained. -/
inductive AOp
  | fetchAdd (k : Nat)      -- reg := c; c := c + k        (one atomic read-modify-write)
  | fetchSub (k : Nat)      -- reg := c; c := c - k
  | load                    -- reg := c
  | storeRegPlus (k : Nat)  -- c := reg + k
  | storeOther              -- c := (something else)
  | swapOther
  | other
  deriving DecidableEq, Repr, Inhabited

/-- Per-thread state: index of the next op of the call in progress, register, and the value that
will be formatted into the name (set when the designated op executes). -/
structure ThreadSt where
  pc : Nat := 0
  reg : Nat := 0
  res : Nat := 0
  deriving DecidableEq, Repr, Inhabited

structure AtomSt where
  counter : Nat := 0
  threads : List ThreadSt := []
  /-- counter values handed out as names, in completion order, with the thread that got them -/
  out : List (Nat × Nat) := []
  deriving Repr

def execOp (op : AOp) (c reg : Nat) : Nat × Nat :=   -- (new counter, new reg)
  match op with
  | .fetchAdd k => (c + k, c)
  | .fetchSub k => (c - k, c)
  | .load => (c, c)
  | .storeRegPlus k => (reg + k, reg)
  | .storeOther => (0, reg)
  | .swapOther => (0, c)
  | .other => (c, reg)

/-- One scheduler step: thread `t` executes the next op of its current call (starting a new call
when the previous one has completed). -/
def stepThread (prog : List AOp) (resOp : Nat) (s : AtomSt) (t : Nat) : AtomSt :=
  match s.threads[t]? with
  | none => s
  | some th =>
    match prog[th.pc]? with
    | none => s
    | some op =>
      let (c', reg') := execOp op s.counter th.reg
      let res' := if th.pc = resOp then reg' else th.res
      let done := th.pc + 1 = prog.length
      let th' : ThreadSt := { pc := if done then 0 else th.pc + 1, reg := reg', res := res' }
      { counter := c'
        threads := s.threads.set t th'
        out := if done then s.out ++ [(t, res')] else s.out }

def initAtom (nthreads : Nat) : AtomSt := { threads := List.replicate nthreads {} }

def runSchedule (prog : List AOp) (resOp : Nat) (nthreads : Nat) (sched : List Nat) : AtomSt :=
  sched.foldl (stepThread prog resOp) (initAtom nthreads)

/-- names handed out along a schedule -/
def namesOf (prog : List AOp) (resOp : Nat) (nthreads : Nat) (sched : List Nat) : List Nat :=
  (runSchedule prog resOp nthreads sched).out.map (·.2)

/-- the program is exactly one atomic fetch-and-add of a positive constant whose result names the file -/
def isSingleRMW (prog : List AOp) (resOp : Option Nat) : Bool :=
  match prog, resOp with
  | [.fetchAdd k], some 0 => decide (0 < k)
  | _, _ => false

/-! ### the formatted name

`format!("{}_{}_{}", name_part, process::id(), count)`: the format string (as characters) and the list of its
arguments are generated from the source; `renderFmt` substitutes the arguments for the `{}` placeholders in
order (the only placeholder form the translator accepts).  Numbers are printed in decimal without leading
zeros (`Display for u32 / usize`). -/

inductive NameArg
  | part      -- the caller's `name_part`
  | pid       -- `process::id()`
  | counter   -- the value obtained from TEMP_FILE_COUNTER
  | other
  deriving DecidableEq, Repr, Inhabited

/-- decimal digits, most significant first, no leading zeros (`0` is "0") -/
def decDigitsAux : Nat → Nat → List Char → List Char
  | 0, _, acc => acc
  | fuel + 1, n, acc =>
    let acc' := Char.ofNat (48 + n % 10) :: acc
    if n / 10 = 0 then acc' else decDigitsAux fuel (n / 10) acc'
def decDigits (n : Nat) : List Char := decDigitsAux (n + 1) n []

def renderFmt : List Char → List (List Char) → List Char
  | '{' :: '}' :: rest, a :: as => a ++ renderFmt rest as
  | c :: rest, as => c :: renderFmt rest as
  | [], _ => []

def nameArgText (part : List Char) (pid count : Nat) : NameArg → List Char
  | .part => part
  | .pid => decDigits pid
  | .counter => decDigits count
  | .other => []

/-- the file name component built by `temp_file_name` -/
def tempFileNameText (fmt : List Char) (args : List NameArg) (part : List Char) (pid count : Nat) : List Char :=
  renderFmt fmt (args.map (nameArgText part pid count))

/-- exhaustive search for a duplicating schedule up to a given length (used only to produce a
replay when the obligation `isSingleRMW` fails; never part of a proof) -/
def allSchedules (nthreads : Nat) : Nat → List (List Nat)
  | 0 => [[]]
  | n + 1 => (allSchedules nthreads n).flatMap fun s => (List.range nthreads).map fun t => t :: s

def hasDup : List Nat → Bool
  | [] => false
  | x :: xs => xs.contains x || hasDup xs

def findDuplicatingSchedule (prog : List AOp) (resOp : Nat) (nthreads len : Nat) : Option (List Nat) :=
  (allSchedules nthreads len).find? fun s => hasDup (namesOf prog resOp nthreads s)

end Sds
