/-
Model/WM: `wavelet_matrix.rs`, `wm_core.rs`, and the default methods of `ops::VectorIndex`.
-/
import Sds.Model.Ser
import Sds.Model.Sparse

namespace Sds
open Outcome

structure WMCore where
  levels : Array BitVector
  deriving DecidableEq, Repr, Inhabited

namespace WMCore

def width (c : WMCore) : Nat := c.levels.size

/-- `self.levels[0].len()` -/
def len (c : WMCore) : Outcome Nat :=
  match c.levels[0]? with
  | some b => ok b.len
  | none => fault (.panic .index)

def level (c : WMCore) (l : Nat) : Outcome BitVector :=
  match c.levels[l]? with
  | some b => ok b
  | none => fault (.panic .index)

def bitValue (c : WMCore) (l : Nat) : Nat := 2 ^ (c.width - 1 - l)

def mapDownOne (c : WMCore) (index l : Nat) : Outcome Nat := do
  let b ← c.level l
  let r ← b.rankQ index
  return b.countZeros + r

def mapDownZero (m : Mode) (c : WMCore) (index l : Nat) : Outcome Nat := do
  let b ← c.level l
  b.rankZeroQ m index

/-- `map_up_one` as first coded: unchecked `index - zeros` (finding F4) -/
def mapUpOneOld (m : Mode) (c : WMCore) (index l : Nat) : Outcome (Option Nat) := do
  let b ← c.level l
  let i ← subM m index b.countZeros
  b.selectQ m i

/-- `map_up_one` (repaired): `index.checked_sub(zeros)?` -/
def mapUpOne (m : Mode) (c : WMCore) (index l : Nat) : Outcome (Option Nat) := do
  let b ← c.level l
  if index < b.countZeros then return none else b.selectQ m (index - b.countZeros)

def mapUpZero (m : Mode) (c : WMCore) (index l : Nat) : Outcome (Option Nat) := do
  let b ← c.level l
  b.selectZeroQ m index

def mapDown (m : Mode) (c : WMCore) (index : Nat) : Outcome (Option (Nat × Nat)) := do
  let n ← c.len
  if index ≥ n then return none else do
  let r ← (List.range c.width).foldlM (fun (acc : Nat × Nat) l => do
      let b ← c.level l
      let bit ← b.get acc.1
      if bit then do
        let i ← c.mapDownOne acc.1 l
        return (i, acc.2 + c.bitValue l)
      else do
        let i ← c.mapDownZero m acc.1 l
        return (i, acc.2)) (index, 0)
  return some r

def mapDownWith (m : Mode) (c : WMCore) (index value : Nat) : Outcome Nat := do
  let n ← c.len
  (List.range c.width).foldlM (fun i l =>
      if (value / c.bitValue l) % 2 = 1 then c.mapDownOne i l else c.mapDownZero m i l) (min index n)

def mapUpWith (m : Mode) (c : WMCore) (index value : Nat) : Outcome (Option Nat) :=
  (List.range c.width).reverse.foldlM (fun (acc : Option Nat) l =>
      match acc with
      | none => return none
      | some i => if (value / c.bitValue l) % 2 = 1 then c.mapUpOne m i l else c.mapUpZero m i l) (some index)

def initSupport (c : WMCore) : WMCore := ⟨c.levels.map BitVector.enableAll⟩

/-- `From<Vec<T>>` : stable partition per bit, most significant bit first -/
def ofValues (vals : List Nat) : WMCore :=
  let maxv := vals.foldl max 0
  let width := bitLen (BitVec.ofNat 64 maxv)
  let (levels, _) := (List.range width).foldl (fun (acc : Array BitVector × List Nat) l =>
      let bv := 2 ^ (width - 1 - l)
      let isOne := fun v => (v / bv) % 2 = 1
      let raw := RawVec.ofBits (acc.2.map (fun v => decide (isOne v)))
      (acc.1.push (BitVector.ofRaw raw), acc.2.filter (fun v => !decide (isOne v)) ++ acc.2.filter (fun v => decide (isOne v))))
    (#[], vals)
  initSupport ⟨levels⟩

end WMCore

structure WM where
  len : Nat
  data : WMCore
  first : IntVec
  deriving DecidableEq, Repr, Inhabited

/-- 64-bit bit reversal on naturals (`u64::reverse_bits`) -/
def rev64 (v : Nat) : Nat := (BitVec.ofNat 64 v).reverse.toNat

namespace WM

/-- `start_offsets` -/
def startOffsets (vals : List Nat) (len maxv : Nat) : IntVec :=
  let counts : Array Nat := vals.foldl (fun a v => a.modify v (· + 1)) (Array.replicate (maxv + 1) 0)
  let order := (List.range (maxv + 1)).mergeSort (fun a b => rev64 a ≤ rev64 b)
  let (offs, _) := order.foldl (fun (acc : Array Nat × Nat) v =>
      let c := counts[v]?.getD 0
      if c = 0 then (acc.1.setIfInBounds v len, acc.2) else (acc.1.setIfInBounds v acc.2, acc.2 + c))
    (Array.replicate (maxv + 1) 0, 0)
  (IntVec.ofList 64 offs.toList).pack

def ofValues (vals : List Nat) : WM :=
  let maxv := vals.foldl max 0
  ⟨vals.length, WMCore.ofValues vals, startOffsets vals vals.length maxv⟩

def start (w : WM) (value : Nat) : Outcome Nat := do let x ← w.first.get value; return x.toNat

def contains (w : WM) (value : Nat) : Outcome Bool :=
  if value < w.first.len then do let s ← w.start value; return decide (s < w.len) else ok false

def rank (m : Mode) (w : WM) (index value : Nat) : Outcome Nat := do
  if !(← w.contains value) then return 0 else do
  let d ← w.data.mapDownWith m index value
  let s ← w.start value
  subM m d s

def inverseSelect (m : Mode) (w : WM) (index : Nat) : Outcome (Option (Nat × Nat)) := do
  match ← w.data.mapDown m index with
  | none => return none
  | some (i, v) => do
    let s ← w.start v
    let r ← subM m i s
    return some (r, v)

def get (m : Mode) (w : WM) (index : Nat) : Outcome Nat := do
  let r ← w.inverseSelect m index >>= unwrapM
  return r.2

/-- `select` as first coded: unchecked `start + rank` (finding F4) -/
def selectOld (m : Mode) (w : WM) (rank value : Nat) : Outcome (Option Nat) := do
  if !(← w.contains value) then return none else do
  let s ← w.start value
  let i ← addM m s rank
  w.data.mapUpWith m i value

/-- `select` (repaired): `start.checked_add(rank)?` -/
def select (m : Mode) (w : WM) (rank value : Nat) : Outcome (Option Nat) := do
  if !(← w.contains value) then return none else do
  let s ← w.start value
  if s + rank ≥ U64 then return none else
  w.data.mapUpWith m (s + rank) value

/-- `ValueIter::next` : state is the next rank -/
def valueIterNext (m : Mode) (w : WM) (value rank : Nat) : Outcome (Option (Nat × Nat) × Nat) :=
  if rank ≥ w.len then ok (none, rank) else do
    match ← w.select m rank value with
    | some index => return (some (rank, index), rank + 1)
    | none => return (none, w.len)

/-- default `VectorIndex::predecessor` as first coded (returns the starting rank of the value iterator): unclamped `index + 1` (finding F3) -/
def predecessorOld (m : Mode) (w : WM) (index value : Nat) : Outcome Nat := do
  let i1 ← addM m index 1
  let r ← w.rank m i1 value
  return if r > 0 then r - 1 else w.len

/-- default `predecessor` (repaired): `index.saturating_add(1)` -/
def predecessor (m : Mode) (w : WM) (index value : Nat) : Outcome Nat := do
  let r ← w.rank m (BitVector.satAdd index 1) value
  return if r > 0 then r - 1 else w.len

def successor (m : Mode) (w : WM) (index value : Nat) : Outcome Nat := w.rank m index value

end WM

def wmCoreC : Codec WMCore where
  ser c := BitVec.ofNat 64 c.width :: c.levels.toList.flatMap bitVectorC.ser
  load es := do
    let (width, r) ← usizeC.load es
    if width = 0 ∨ width > 64 then fault (.err .invalid) else do
    let (levels, r) ← (List.range width).foldlM (fun (acc : Array BitVector × Elems) _ => do
        let (b, r) ← bitVectorC.load acc.2
        match acc.1[0]? with
        | some b0 => if b.len ≠ b0.len then fault (.err .invalid) else return (acc.1.push b, r)
        | none => return (acc.1.push b, r)) (#[], r)
    return (WMCore.initSupport ⟨levels⟩, r)

def wmC : Codec WM where
  ser w := BitVec.ofNat 64 w.len :: (wmCoreC.ser w.data ++ intVecC.ser w.first)
  load es := do
    let (len, r) ← usizeC.load es
    let (data, r) ← wmCoreC.load r
    let n ← data.len
    if n ≠ len then fault (.err .invalid) else do
    let (first, r) ← intVecC.load r
    return (⟨len, data, first⟩, r)

end Sds
