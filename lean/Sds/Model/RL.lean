/-
Model/RL: `rl_vector.rs` and `rl_vector/index.rs` — run-length encoded bitvector, its builder,
sample indexes, run iterator and queries.
-/
import Sds.Model.Ser
import Sds.Model.Sparse

namespace Sds
open Outcome

/-! ### SampleIndex -/

structure SampleIndex where
  numValues : Nat
  divisor : Nat
  samples : IntVec
  deriving DecidableEq, Repr, Inhabited

namespace SampleIndex

/-- `parameters` — the two roundings use `bits::div_round_up`, i.e. `(value + n - 1) / n` -/
def parametersOld (m : Mode) (values univ : Nat) : Outcome (Nat × Nat) := do
  let ns ← divRoundUp m values 8
  let divisor ← divRoundUp m univ ns
  let ns ← divRoundUp m univ divisor
  return (ns, divisor)

/-- overflow-free rounding `value / n + (value % n != 0)`; division by zero panics -/
def divRoundUpSafe (value n : Nat) : Outcome Nat :=
  if n = 0 then fault (.panic .other) else ok (value / n + (if value % n ≠ 0 then 1 else 0))

/-- `parameters` (repaired, finding F8): the two roundings of the universe no longer add before dividing -/
def parameters (m : Mode) (values univ : Nat) : Outcome (Nat × Nat) := do
  let ns ← divRoundUp m values 8
  let divisor ← divRoundUpSafe univ ns
  let ns ← divRoundUpSafe univ divisor
  return (ns, divisor)

/-- inner `while` of `new` as first coded: asserted *strict* monotonicity (finding F10) -/
def consumeOld (threshold : Nat) : Nat → Nat → Nat → List Nat → Outcome (Nat × Nat × List Nat)
  | 0, _, _, _ => fault .fuel
  | _, offset, prev, [] => ok (offset, prev, [])
  | fuel + 1, offset, prev, value :: rest =>
    if value > threshold then ok (offset, prev, value :: rest)
    else if prev < value then consumeOld threshold fuel (offset + 1) value rest
    else fault (.panic .assert)

/-- inner `while` of `new` (repaired): consume values ≤ threshold; asserts that they are non-decreasing -/
def consume (threshold : Nat) : Nat → Nat → Nat → List Nat → Outcome (Nat × Nat × List Nat)
  | 0, _, _, _ => fault .fuel
  | _, offset, prev, [] => ok (offset, prev, [])
  | fuel + 1, offset, prev, value :: rest =>
    if value > threshold then ok (offset, prev, value :: rest)
    else if prev ≤ value then consume threshold fuel (offset + 1) value rest
    else fault (.panic .assert)

def fill (m : Mode) (divisor : Nat) : List Nat → Nat → Nat → List Nat → IntVec → Outcome (IntVec × Nat)
  | [], _, prev, _, smp => ok (smp, prev)
  | sample :: more, offset, prev, vals, smp => do
    let threshold ← mulM m sample divisor
    let (offset, prev, vals) ← consume threshold (vals.length + 1) offset prev vals
    let smp ← smp.set sample (BitVec.ofNat 64 offset)
    fill m divisor more offset prev vals smp

def new (m : Mode) (values : List Nat) (univ : Nat) : Outcome SampleIndex :=
  match values with
  | [] => do let s ← IntVec.withLen 1 1 0; return ⟨0, U64 - 1, s⟩
  | first :: rest =>
    if univ = 0 then do let s ← IntVec.withLen 1 1 0; return ⟨0, U64 - 1, s⟩ else do
    let len := values.length
    let (ns, divisor) ← parameters m len univ
    let smp ← IntVec.withLen ns (bitLen (BitVec.ofNat 64 (len - 1))) 0
    if first ≠ 0 then fault (.panic .assert) else
    let (smp, prev) ← fill m divisor ((List.range ns).drop 1) 0 first rest smp
    if univ > prev then return ⟨len, divisor, smp⟩ else fault (.panic .assert)

def range (s : SampleIndex) (value : Nat) : Outcome (Nat × Nat) :=
  if s.divisor = 0 then fault (.panic .other) else
  let offset := value / s.divisor
  let start := (s.samples.getOr offset (BitVec.ofNat 64 s.numValues)).toNat
  let limit := (s.samples.getOr (offset + 1) (BitVec.ofNat 64 s.numValues)).toNat
  ok (start, if limit < s.numValues then limit + 1 else limit)

end SampleIndex

/-! ### the vector -/

structure RL where
  len : Nat
  ones : Nat
  rankIndex : SampleIndex
  selectIndex : SampleIndex
  selectZeroIndex : SampleIndex
  samples : IntVec
  data : IntVec
  deriving DecidableEq, Repr, Inhabited

structure RLBuilder where
  len : Nat := 0
  ones : Nat := 0
  tail : Nat := 0
  run : Nat × Nat := (0, 0)
  samples : Array (Nat × Nat) := #[]
  data : IntVec := ⟨0, 4, RawVec.empty⟩
  deriving DecidableEq, Repr, Inhabited

namespace RLBuilder

def codeLen (value : Nat) : Nat := (bitLen (BitVec.ofNat 64 value) + 3 - 1) / 3

/-- `encode` : 3 data bits per 4-bit unit, continuation flag 8 -/
def encodeUnits : Nat → Nat → List Nat
  | 0, _ => []
  | fuel + 1, value => if value > 7 then (value % 8 + 8) :: encodeUnits fuel (value / 8) else [value]

def encode (d : IntVec) (value : Nat) : IntVec :=
  d.extend ((encodeUnits 23 value).map (BitVec.ofNat 64))

def flush (m : Mode) (b : RLBuilder) : Outcome RLBuilder :=
  if b.run.2 = 0 then ok b else do
    let gap ← subM m b.run.1 b.tail
    let units := codeLen gap + codeLen (b.run.2 - 1)
    let b1 : RLBuilder :=
      if b.data.len + units > b.samples.size * 64 then
        { b with data := b.data.resize (b.samples.size * 64) 0,
                 samples := b.samples.push (b.ones - b.run.2, b.tail) }
      else b
    let d := encode (encode b1.data gap) (b.run.2 - 1)
    return { b1 with data := d, tail := b.run.1 + b.run.2, run := (b.len, 0) }

def setRunUnchecked (m : Mode) (b : RLBuilder) (start len : Nat) : Outcome RLBuilder :=
  if len = 0 then ok b
  else if start = b.len then do
    let l ← addM m b.len len
    let o ← addM m b.ones len
    let r ← addM m b.run.2 len
    return { b with len := l, ones := o, run := (b.run.1, r) }
  else do
    let b ← b.flush m
    let l ← addM m start len
    let o ← addM m b.ones len
    return { b with len := l, ones := o, run := (start, len) }

def trySet (m : Mode) (b : RLBuilder) (start len : Nat) : Outcome RLBuilder :=
  if start < b.len then fault (.err .other)
  else if U64 - 1 - len < start then fault (.err .other)
  else b.setRunUnchecked m start len

/-- `set_len` as first coded: the active run keeps its old start (finding F9) -/
def setLenOld (m : Mode) (b : RLBuilder) (len : Nat) : Outcome RLBuilder :=
  if len > b.len then do
    let b ← b.flush m
    return { b with len := len }
  else ok b

/-- `set_len` (repaired): the active run is reset to `(len, 0)` -/
def setLen (m : Mode) (b : RLBuilder) (len : Nat) : Outcome RLBuilder :=
  if len > b.len then do
    let b ← b.flush m
    return { b with len := len, run := (len, 0) }
  else ok b

def countZeros (m : Mode) (b : RLBuilder) : Outcome Nat := subM m b.len b.ones

end RLBuilder

namespace RL

def blocks (v : RL) : Nat := v.samples.len / 2
def countZeros (v : RL) : Nat := v.len - v.ones

/-- `From<RLBuilder>` -/
def ofBuilder (m : Mode) (b : RLBuilder) : Outcome RL := do
  let b ← b.flush m
  let sl := b.samples.toList
  let ri ← SampleIndex.new m (sl.map (·.2)) b.len
  let si ← SampleIndex.new m (sl.map (·.1)) b.ones
  let zeros ← b.countZeros m
  let zs ← sl.mapM (fun p => subM m p.2 p.1)
  let zi ← SampleIndex.new m zs zeros
  let maxValue := match sl.getLast? with | some p => p.2 | none => 0
  let smp0 ← IntVec.withCapacity (2 * sl.length) (bitLen (BitVec.ofNat 64 maxValue))
  let smp := sl.foldl (fun s p => (s.push (BitVec.ofNat 64 p.1)).push (BitVec.ofNat 64 p.2)) smp0
  return ⟨b.len, b.ones, ri, si, zi, smp, b.data⟩

def onesAfter (v : RL) (block : Nat) : Outcome Nat :=
  if block + 1 < v.blocks then do let x ← v.samples.get (2 * (block + 1)); return x.toNat
  else ok v.ones

/-- `decode` : (value, new offset) -/
def decodeLoop (m : Mode) (v : RL) : Nat → Nat → Nat → Nat → Outcome (Nat × Nat)
  | 0, _, _, _ => fault .fuel
  | fuel + 1, offset, value, shift => do
    let code ← v.data.get offset
    let c := code.toNat
    if shift ≥ 64 then (match m with | .checked => fault (.panic .overflow) | .wrapping => fault (.panic .other)) else
    let value ← addM m value (((c % 8) <<< shift) % U64)
    if c / 8 % 2 = 0 then return (value, offset + 1)
    else decodeLoop m v fuel (offset + 1) value (shift + 3)

def decode (m : Mode) (v : RL) (offset : Nat) : Outcome (Nat × Nat) := decodeLoop m v 23 offset 0 0

/-- `block_for` -/
def blockFor (f : Nat → Outcome Nat) (value : Nat) : Nat → Nat → Nat → Outcome Nat
  | 0, _, _ => fault .fuel
  | fuel + 1, low, high =>
    if high - low > 1 then do
      let mid := low + (high - low) / 2
      let c ← f mid
      if c ≤ value then blockFor f value fuel mid high else blockFor f value fuel low mid
    else ok low

end RL

/-! ### RunIter -/

structure RunIter where
  offset : Nat
  pos : Nat × Nat      -- (rank, index)
  limit : Nat
  deriving DecidableEq, Repr, Inhabited

inductive Peek
  | atEnd                               -- offset ≥ data.len
  | noMoreBlocks (newOffset : Nat)      -- moved to a block boundary past the last block
  | run (start len : Nat) (adv : RunIter)
  deriving Repr

namespace RunIter

def rank (it : RunIter) : Nat := it.pos.1
def offsetBits (it : RunIter) : Nat := it.pos.2

def emptyIter (v : RL) : RunIter := ⟨v.data.len, (v.ones, v.len), v.ones⟩

/-- the part of `advance_if` before the closure is consulted -/
def peek (m : Mode) (v : RL) (it : RunIter) : Outcome Peek :=
  if it.offset ≥ v.data.len then ok .atEnd else do
    let (offset, limit, stop) ← (if it.rank ≥ it.limit then do
        let block := (it.offset + 63) / 64
        if block ≥ v.blocks then return (block * 64, it.limit, true)
        else do let l ← v.onesAfter block; return (block * 64, l, false)
      else return (it.offset, it.limit, false) : Outcome (Nat × Nat × Bool))
    if stop then return .noMoreBlocks offset else do
    let (gap, offset) ← v.decode m offset
    let start ← addM m it.offsetBits gap
    let (len, offset) ← v.decode m offset
    let len1 ← addM m len 1
    let r ← addM m it.pos.1 len1
    let e ← addM m start len1
    return .run start len1 ⟨offset, (r, e), limit⟩

/-- `next()` = `advance_if(|_| true)` -/
def nextQ (m : Mode) (v : RL) (it : RunIter) : Outcome (Option (Nat × Nat) × RunIter) := do
  match ← peek m v it with
  | .atEnd => return (none, it)
  | .noMoreBlocks o => return (none, { it with offset := o })
  | .run s l adv => return (some (s, l), adv)

def offsetFor (m : Mode) (it : RunIter) (rank : Nat) : Outcome Nat := do
  let d ← subM m it.rank rank
  subM m it.offsetBits d

def rankAt (m : Mode) (it : RunIter) (index : Nat) : Outcome Nat := do
  let d ← subM m it.offsetBits index
  subM m it.rank d

def rankZero (m : Mode) (it : RunIter) : Outcome Nat := subM m it.offsetBits it.rank

end RunIter

namespace RL

def runIter (v : RL) : Outcome RunIter := do
  let l ← v.onesAfter 0
  return ⟨0, (0, 0), l⟩

def iterForBlock (v : RL) (block : Nat) : Outcome RunIter := do
  let pos ← (if v.samples.len = 0 then return (0, 0) else do
      let a ← v.samples.get (2 * block); let b ← v.samples.get (2 * block + 1); return (a.toNat, b.toNat)
    : Outcome (Nat × Nat))
  let l ← v.onesAfter block
  return ⟨block * 64, pos, l⟩

def iterForBit (v : RL) (index : Nat) : Outcome RunIter :=
  if index ≥ v.len then ok (RunIter.emptyIter v) else do
    let (lo, hi) ← v.rankIndex.range index
    let block ← blockFor (fun i => do let x ← v.samples.get (2 * i + 1); return x.toNat) index 70 lo hi
    v.iterForBlock block

def iterForOne (v : RL) (rank : Nat) : Outcome RunIter :=
  if rank ≥ v.ones then ok (RunIter.emptyIter v) else do
    let (lo, hi) ← v.selectIndex.range rank
    let block ← blockFor (fun i => do let x ← v.samples.get (2 * i); return x.toNat) rank 70 lo hi
    v.iterForBlock block

def iterForZero (m : Mode) (v : RL) (rank : Nat) : Outcome RunIter :=
  if rank ≥ v.countZeros then ok (RunIter.emptyIter v) else do
    let (lo, hi) ← v.selectZeroIndex.range rank
    let block ← blockFor (fun i => do
      let a ← v.samples.get (2 * i + 1); let b ← v.samples.get (2 * i); subM m a.toNat b.toNat) rank 70 lo hi
    v.iterForBlock block

def getLoop (m : Mode) (v : RL) (index : Nat) : Nat → RunIter → Outcome Bool
  | 0, _ => fault .fuel
  | fuel + 1, it => do
    let (o, it') ← it.nextQ m v
    match o with
    | none => return false
    | some (start, _) =>
      if start > index then return false
      else if index < it'.offsetBits then return true
      else getLoop m v index fuel it'

def get (m : Mode) (v : RL) (index : Nat) : Outcome Bool := do
  let it ← v.iterForBit index
  getLoop m v index (v.data.len + 2) it

def rankLoop (m : Mode) (v : RL) (index : Nat) : Nat → RunIter → Outcome Nat
  | 0, _ => fault .fuel
  | fuel + 1, it => do
    let (o, it') ← it.nextQ m v
    match o with
    | none => return it'.rank
    | some (start, len) =>
      if start ≥ index then subM m it'.rank len
      else if it'.offsetBits ≥ index then it'.rankAt m index
      else rankLoop m v index fuel it'

def rank (m : Mode) (v : RL) (index : Nat) : Outcome Nat := do
  let it ← v.iterForBit index
  rankLoop m v index (v.data.len + 2) it

def rankZero (m : Mode) (v : RL) (index : Nat) : Outcome Nat := do
  let r ← v.rank m index
  subM m index r

/-- `while iter.rank() <= rank { iter.next(); }` (`strict`: `<`) -/
def advanceTo (m : Mode) (v : RL) (rank : Nat) (strict : Bool) : Nat → RunIter → Outcome RunIter
  | 0, _ => fault .fuel
  | fuel + 1, it =>
    if (if strict then it.rank < rank else it.rank ≤ rank) then do
      let (_, it') ← it.nextQ m v
      advanceTo m v rank strict fuel it'
    else return it

def select (m : Mode) (v : RL) (rank : Nat) : Outcome (Option Nat) :=
  if rank ≥ v.ones then ok none else do
    let it ← v.iterForOne rank
    let it ← advanceTo m v rank false (v.data.len + 2) it
    let p ← it.offsetFor m rank
    return some p

def selectZeroLoop (m : Mode) (v : RL) (rank : Nat) : Nat → RunIter → Nat → Outcome (Nat × RunIter × Bool)
  | 0, _, _ => fault .fuel
  | fuel + 1, it, ones => do
    let (o, it') ← it.nextQ m v
    match o with
    | some _ => do
      let rz ← it'.rankZero m
      if rz > rank then do let r ← addM m rank ones; return (r, it', false)
      else selectZeroLoop m v rank fuel it' it'.rank
    | none => do let r ← addM m rank ones; return (r, it', true)

def selectZero (m : Mode) (v : RL) (rank : Nat) : Outcome (Option Nat) :=
  if rank ≥ v.countZeros then ok none else do
    let it ← v.iterForZero m rank
    let (r, _, _) ← selectZeroLoop m v rank (v.data.len + 2) it it.rank
    return some r

end RL

/-! ### iterators -/

structure RLOneIter where
  iter : RunIter
  gotNone : Bool
  rank : Nat
  deriving DecidableEq, Repr, Inhabited

namespace RLOneIter

def emptyIter (v : RL) : RLOneIter := ⟨RunIter.emptyIter v, true, v.ones⟩

def nextQ (m : Mode) (v : RL) (it : RLOneIter) : Outcome (Option (Nat × Nat) × RLOneIter) := do
  let it ← (if !it.gotNone && it.rank ≥ it.iter.rank then do
      let (o, ri) ← it.iter.nextQ m v
      return { it with iter := ri, gotNone := o.isNone }
    else return it : Outcome RLOneIter)
  if it.gotNone then return (none, it) else do
    let p ← it.iter.offsetFor m it.rank
    return (some (it.rank, p), { it with rank := it.rank + 1 })

def remaining (v : RL) (it : RLOneIter) : Nat := v.ones - it.rank

end RLOneIter

structure RLZeroIter where
  iter : RunIter
  gotNone : Bool
  pos : Nat × Nat
  deriving DecidableEq, Repr, Inhabited

namespace RLZeroIter

def nextQ (m : Mode) (v : RL) (z : RLZeroIter) : Outcome (Option (Nat × Nat) × RLZeroIter) := do
  let rz ← z.iter.rankZero m
  let z ← (if !z.gotNone && z.pos.1 ≥ rz then do
      let (o, ri) ← z.iter.nextQ m v
      return { z with pos := (z.pos.1, z.iter.offsetBits), iter := ri, gotNone := o.isNone }
    else return z : Outcome RLZeroIter)
  if z.pos.1 ≥ v.countZeros then return (none, z)
  else return (some z.pos, { z with pos := (z.pos.1 + 1, z.pos.2 + 1) })

def remaining (v : RL) (z : RLZeroIter) : Nat := v.countZeros - z.pos.1

end RLZeroIter

structure RLIter where
  iter : RunIter
  run : Option (Nat × Nat)
  pos : Nat
  deriving DecidableEq, Repr, Inhabited

namespace RLIter

def nextQ (m : Mode) (v : RL) (it : RLIter) : Outcome (Option Bool × RLIter) := do
  let it ← (match it.run with
    | some (start, len) =>
      if it.pos ≥ start + len then do
        let (o, ri) ← it.iter.nextQ m v
        return { it with iter := ri, run := o }
      else return it
    | none => return it : Outcome RLIter)
  match it.run with
  | some (start, _) => return (some (decide (it.pos + 1 > start)), { it with pos := it.pos + 1 })
  | none => if it.pos ≥ v.len then return (none, it) else return (some false, { it with pos := it.pos + 1 })

def remaining (v : RL) (it : RLIter) : Nat := v.len - it.pos

end RLIter

namespace RL

def iter (v : RL) : Outcome RLIter := do let r ← v.runIter; return ⟨r, some (0, 0), 0⟩
def oneIter (v : RL) : Outcome RLOneIter := do let r ← v.runIter; return ⟨r, false, 0⟩

def zeroIter (m : Mode) (v : RL) : Outcome RLZeroIter := do
  let r ← v.runIter
  let (o, r) ← r.nextQ m v
  return ⟨r, o.isNone, (0, 0)⟩

def selectIter (m : Mode) (v : RL) (rank : Nat) : Outcome RLOneIter :=
  if rank ≥ v.ones then ok (RLOneIter.emptyIter v) else do
    let it ← v.iterForOne rank
    let it ← advanceTo m v rank true (v.data.len + 2) it
    return ⟨it, false, rank⟩

def selectZeroIter (m : Mode) (v : RL) (rank : Nat) : Outcome RLZeroIter :=
  if rank ≥ v.countZeros then ok ⟨RunIter.emptyIter v, true, (v.countZeros, v.len)⟩ else do
    let it ← v.iterForZero m rank
    let (r, it', gn) ← selectZeroLoop m v rank (v.data.len + 2) it it.rank
    return ⟨it', gn, (rank, r)⟩

/-- the `while iterate { advance_if(…) }` loop of `predecessor` -/
def predLoop (m : Mode) (v : RL) (value : Nat) : Nat → RunIter → Outcome RunIter
  | 0, _ => fault .fuel
  | fuel + 1, it => do
    match ← it.peek m v with
    | .atEnd => return it
    | .noMoreBlocks _ => return it          -- closure returned false: offset not updated
    | .run start _ adv => if start ≤ value then predLoop m v value fuel adv else return it

def predecessor (m : Mode) (v : RL) (value : Nat) : Outcome RLOneIter :=
  if v.len = 0 then ok (RLOneIter.emptyIter v) else do
    let value := min value (v.len - 1)
    let it ← v.iterForBit value
    let it ← predLoop m v value (v.data.len + 2) it
    if it.rank = 0 then return RLOneIter.emptyIter v else do
      let rank ← (if it.offsetBits > value then it.rankAt m value else subM m it.rank 1)
      return ⟨it, false, rank⟩

def succLoop (m : Mode) (v : RL) (value : Nat) : Nat → RunIter → Outcome (Option (RunIter × Nat))
  | 0, _ => fault .fuel
  | fuel + 1, it => do
    let (o, it') ← it.nextQ m v
    match o with
    | none => return none
    | some (start, len) =>
      if start > value then do let r ← subM m it'.rank len; return some (it', r)
      else if it'.offsetBits > value then do let r ← it'.rankAt m value; return some (it', r)
      else succLoop m v value fuel it'

def successor (m : Mode) (v : RL) (value : Nat) : Outcome RLOneIter :=
  if value ≥ v.len then ok (RLOneIter.emptyIter v) else do
    let it ← v.iterForBit value
    match ← succLoop m v value (v.data.len + 2) it with
    | none => return RLOneIter.emptyIter v
    | some (it', r) => return ⟨it', false, r⟩

/-- build from a list of builder calls -/
inductive BCall | set (start len : Nat) | setLen (n : Nat) | bit (i : Nat)
  deriving DecidableEq, Repr

end RL

def rlC (m : Mode) : Codec RL where
  ser v := BitVec.ofNat 64 v.len :: BitVec.ofNat 64 v.ones :: (intVecC.ser v.samples ++ intVecC.ser v.data)
  load es := do
    let (len, r) ← usizeC.load es
    let (ones, r) ← usizeC.load r
    let (samples, r) ← intVecC.load r
    let (data, r) ← intVecC.load r
    let sb := samples.len / 2
    if sb ≠ (data.len + 63) / 64 then fault (.err .invalid) else do
    let col (f : Nat → Outcome Nat) : Outcome (List Nat) := (List.range sb).mapM f
    let bitsCol ← col (fun b => do let x ← samples.get (2 * b + 1); return x.toNat)
    let onesCol ← col (fun b => do let x ← samples.get (2 * b); return x.toNat)
    let zerosCol ← col (fun b => do
      let a ← samples.get (2 * b + 1); let c ← samples.get (2 * b); subM m a.toNat c.toNat)
    let ri ← SampleIndex.new m bitsCol len
    let si ← SampleIndex.new m onesCol ones
    let z ← subM m len ones
    let zi ← SampleIndex.new m zerosCol z
    return (⟨len, ones, ri, si, zi, samples, data⟩, r)

end Sds
