/-
Model/SerShape: the vocabulary of tools/ser_shape.py — what one statement of a `serialize_header` / `serialize_body`
method can be.  Every constructor except `other` is a write whose `io::Result` is propagated with `?` (or returned as
the method's value), i.e. a step of a `?`-joined sequence of `write_all` calls; `other` is anything else
(a `write` instead of `write_all`, a discarded result, a loop the extractor does not know, …).
-/
namespace Sds

inductive SerStep
  /-- `self.<f>.serialize(writer)?` -/
  | field (name : String)
  /-- `self.<f>.serialize_header(writer)?` / `self.<f>.serialize_body(writer)?` (a wrapper type splitting its field) -/
  | fieldHeader (name : String)
  | fieldBody (name : String)
  /-- `<x>.serialize(writer)?` for a local bound by a `let` that does not mention the writer -/
  | localValue (name : String)
  /-- `writer.write_all(..)?` -/
  | writeAll
  /-- `if <pure condition> { writer.write_all(..)?; }` -/
  | condWriteAll
  /-- `for x in self.<f>.iter() { x.serialize(writer)?; }` -/
  | each (name : String)
  /-- `if let Some(value) = self { value.serialize(writer)?; }` -/
  | optValue
  | other (text : String)
  deriving Repr

/-- the step propagates every write error and writes only through `serialize` / `write_all` -/
def SerStep.qJoined : SerStep → Bool
  | .other _ => false
  | _ => true

structure SerShape where
  type : String
  header : List SerStep
  body : List SerStep
  /-- the `T::load(reader)?` calls of `load`, in order -/
  loads : List String
  /-- the summands of `size_in_elements` -/
  size : List String
  deriving Repr

def SerShape.qJoined (s : SerShape) : Bool := s.header.all SerStep.qJoined && s.body.all SerStep.qJoined

end Sds
