/-
Model/BitVector: `bit_vector.rs`, `rank_support.rs`, `select_support.rs`.
Unchecked reads are `getW` (out of range = `oob`), position-valued arithmetic on caller-supplied
operands goes through `addM`/`subM` (mode-checked), loops take fuel.
-/
import Sds.Model.IntVec
import Sds.Spec.Bits

namespace Sds
open Outcome

/-! ### rank support (rank9-style samples) -/

structure RankSup where
  samples : Array (Word × Word)
  deriving DecidableEq, Repr, Inhabited

namespace RankSup

/-- one block of `RankSupport::new`: returns (block_ones, relative_ranks) -/
def blockSample (data : Array Word) (block : Nat) (blockWords : Nat) : Nat × Word :=
  let (ones, rel) := (List.range blockWords).foldl (fun (acc : Nat × Word) word =>
      let ones := acc.1 + popcount (rd data (block * 8 + word))
      (ones, acc.2 ||| ((BitVec.ofNat 64 ones) <<< (word * 9)))) (0, 0)
  (ones, rel &&& lowSet 63)

def build (v : RawVec) : RankSup :=
  let words := v.data.size
  let blocks := (v.len + 511) / 512
  let (samples, _) := (List.range blocks).foldl (fun (acc : Array (Word × Word) × Nat) block =>
      let bw := min 8 (words - block * 8)
      let (bo, rel) := blockSample v.data block bw
      (acc.1.push (BitVec.ofNat 64 acc.2, rel), acc.2 + bo)) (#[], 0)
  ⟨samples⟩

/-- `rank_unchecked` -/
def rankU (s : RankSup) (v : RawVec) (index : Nat) : Outcome Nat := do
  let block := index / 512
  let word := index / 64
  let offset := index % 64
  let smp ← (if h : block < s.samples.size then ok s.samples[block] else fault .oob)
  let relative := ((word % 8) + 7) % 8
  let wordStart := ((smp.2 >>> (relative * 9)).toNat) % 512
  let w ← getW v.data word
  let within := popcount (w &&& lowSet offset)
  return smp.1.toNat + wordStart + within

end RankSup

/-! ### transformations (Identity / Complement) -/

inductive Tr | ident | compl
  deriving DecidableEq, Repr, Inhabited

/-- `T::word_unchecked` -/
def wordT (tr : Tr) (v : RawVec) (index : Nat) : Outcome Word :=
  match tr with
  | .ident => getW v.data index
  | .compl => do
    let w ← getW v.data index
    if index ≥ v.len / 64 then return (~~~ w) &&& lowSet (v.len % 64) else return ~~~ w

/-- `T::word` — the SAFE variant of the public `Transformation` trait: `Identity` reads through the bounds-checked
`RawVector::word`; `Complement` takes the checked read (and masks) from the last word index on and the unchecked read
only strictly below it, where the index is in range by construction (`index < len / 64 ≤ words`). -/
def wordSafeT (tr : Tr) (v : RawVec) (index : Nat) : Outcome Word :=
  match tr with
  | .ident => getC v.data index
  | .compl =>
    if index ≥ v.len / 64 then do
      let w ← getC v.data index
      return (~~~ w) &&& lowSet (v.len % 64)
    else do
      let w ← getW v.data index
      return ~~~ w

/-- the safe entry points of the support structures (`RankSupport::rank`, `SelectSupport::select`) perform the same
computation as the unchecked ones through bounds-checked accessors: an out-of-range read is a panic, never `oob` -/
def safely {α} (x : Outcome α) : Outcome α :=
  match x with
  | .fault .oob => .fault (.panic .index)
  | y => y

/-- bits of the transformed vector -/
def bitsT (tr : Tr) (B : List Bool) : List Bool :=
  match tr with | .ident => B | .compl => B.map not

/-- in-word select (`bits::select`); undefined behaviour when `rank ≥ popcount` is `oob` -/
def selWord (w : Word) (r : Nat) : Outcome Nat :=
  match selectBits (bitsOfWord w) r with
  | some p => ok p
  | none => fault .oob

/-! ### select support -/

structure SelSup where
  samples : IntVec
  long : IntVec
  short : IntVec
  deriving DecidableEq, Repr, Inhabited

namespace SelSup

def superblocks (s : SelSup) : Nat := s.samples.len / 2
def longSuperblocks (s : SelSup) : Nat := (s.long.len + 4095) / 4096
def shortSuperblocks (s : SelSup) : Nat := (s.short.len + 63) / 64

/-- `SelectSupport::new` as a function of the ascending positions of the (transformed) set bits. -/
def build (len : Nat) (pos : Array Nat) : SelSup :=
  let m := pos.size
  let superblocks := (m + 4095) / 4096
  let l := bitLen (BitVec.ofNat 64 len)
  let log4 := (l * l) * (l * l)
  let init : SelSup := ⟨IntVec.default, IntVec.default, IntVec.default⟩
  let r := (List.range superblocks).foldl (fun (r : SelSup) k =>
    let start := pos[4096 * k]?.getD 0
    let cnt := min 4096 (m - 4096 * k)
    let limit := if 4096 * (k + 1) < m then pos[4096 * (k + 1)]?.getD 0 else len
    let samples := r.samples.push (BitVec.ofNat 64 start)
    if limit - start ≥ log4 then
      let samples := samples.push (BitVec.ofNat 64 (2 * r.long.len))
      let long := (List.range cnt).foldl (fun (lv : IntVec) j =>
        lv.push (BitVec.ofNat 64 ((pos[4096 * k + j]?.getD 0) - start))) r.long
      ⟨samples, long, r.short⟩
    else
      let samples := samples.push (BitVec.ofNat 64 (2 * r.short.len + 1))
      let blocks := (cnt + 63) / 64
      let short := (List.range blocks).foldl (fun (sv : IntVec) b =>
        sv.push (BitVec.ofNat 64 ((pos[4096 * k + 64 * b]?.getD 0) - start))) r.short
      ⟨samples, r.long, short⟩) init
  ⟨r.samples.pack, r.long.pack, r.short.pack⟩

/-- word scan of `select_unchecked`: find the set bit of relative rank `rr` starting with `value` at `word` -/
def scan (tr : Tr) (m : Mode) (v : RawVec) : Nat → Nat → Word → Nat → Outcome Nat
  | 0, _, _, _ => fault .fuel
  | fuel + 1, word, value, rr =>
    let ones := popcount value
    if ones > rr then do
      let p ← selWord value rr
      bitOffset m word p
    else do
      let nv ← wordT tr v (word + 1)
      scan tr m v fuel (word + 1) nv (rr - ones)

/-- `select_unchecked` -/
def selectU (s : SelSup) (tr : Tr) (m : Mode) (v : RawVec) (rank : Nat) : Outcome Nat := do
  let superblock := rank / 4096
  let offset := rank % 4096
  let r0 ← s.samples.get (2 * superblock)
  if offset = 0 then return r0.toNat else
  let p ← s.samples.get (2 * superblock + 1)
  let ptr := p.toNat / 2
  if p.toNat % 2 = 0 then do
    let d ← s.long.get (ptr + offset)
    addM m r0.toNat d.toNat
  else do
    let block := offset / 64
    let rr := offset % 64
    let d ← s.short.get (ptr + block)
    let result ← addM m r0.toNat d.toNat
    if rr > 0 then do
      let word := result / 64
      let wo := result % 64
      let w ← wordT tr v word
      scan tr m v (v.data.size + 1) word (w &&& ~~~ lowSet wo) rr
    else return result

end SelSup

/-! ### the bitvector -/

structure BitVector where
  ones : Nat
  data : RawVec
  rank : Option RankSup := none
  select : Option SelSup := none
  selectZero : Option SelSup := none
  deriving DecidableEq, Repr, Inhabited

/-- ascending positions of set bits of the transformed vector, computed from the words -/
def positionsT (tr : Tr) (v : RawVec) : Array Nat :=
  (List.range v.len).foldl (fun acc i => if (getBit v.data i) != (tr == .compl) then acc.push i else acc) #[]

namespace BitVector

def ofRaw (v : RawVec) : BitVector := { ones := v.countOnes, data := v }
def len (b : BitVector) : Nat := b.data.len
def countOnes (b : BitVector) : Nat := b.ones
/-- default `count_zeros`: `len - ones` (never underflows for a well-formed vector) -/
def countZeros (b : BitVector) : Nat := b.len - b.ones
def countT (tr : Tr) (b : BitVector) : Nat := match tr with | .ident => b.countOnes | .compl => b.countZeros

def enableRank (b : BitVector) : BitVector :=
  match b.rank with | some _ => b | none => { b with rank := some (RankSup.build b.data) }
def enableSelect (b : BitVector) : BitVector :=
  match b.select with | some _ => b | none => { b with select := some (SelSup.build b.len (positionsT .ident b.data)) }
def enableSelectZero (b : BitVector) : BitVector :=
  match b.selectZero with | some _ => b | none => { b with selectZero := some (SelSup.build b.len (positionsT .compl b.data)) }
def enableAll (b : BitVector) : BitVector := b.enableRank.enableSelect.enableSelectZero

/-- `get`: checked word index, so beyond the allocated words it panics; inside the last word it reads the (zero) tail -/
def get (b : BitVector) (i : Nat) : Outcome Bool := b.data.bitM i

def rankQ (b : BitVector) (i : Nat) : Outcome Nat :=
  if i ≥ b.len then ok b.countOnes else
    match b.rank with
    | none => fault (.panic .unwrap)
    | some s => s.rankU b.data i

/-- default `rank_zero`: `index - rank(index)` -/
def rankZeroQ (m : Mode) (b : BitVector) (i : Nat) : Outcome Nat := do
  let r ← b.rankQ i
  subM m i r

def supT (tr : Tr) (b : BitVector) : Option SelSup := match tr with | .ident => b.select | .compl => b.selectZero

def selectT (tr : Tr) (m : Mode) (b : BitVector) (r : Nat) : Outcome (Option Nat) :=
  if r ≥ b.countT tr then ok none else
    match b.supT tr with
    | none => fault (.panic .unwrap)
    | some s => do let p ← s.selectU tr m b.data r; return some p

def selectQ (m : Mode) (b : BitVector) (r : Nat) := selectT .ident m b r
def selectZeroQ (m : Mode) (b : BitVector) (r : Nat) := selectT .compl m b r

end BitVector

/-! ### OneIter<T> : the iterator over set (or unset) bits -/

structure OneIterSt where
  next : Nat × Nat
  limit : Nat × Nat
  deriving DecidableEq, Repr, Inhabited

namespace OneIterSt

def emptyIter (tr : Tr) (b : BitVector) : OneIterSt := ⟨(b.countT tr, b.len), (b.countT tr, b.len)⟩
def full (tr : Tr) (b : BitVector) : OneIterSt := ⟨(0, 0), (b.countT tr, b.len)⟩

/-- forward scan for the first non-zero word -/
def fwd (tr : Tr) (v : RawVec) : Nat → Nat → Word → Outcome (Nat × Word)
  | 0, _, _ => fault .fuel
  | fuel + 1, index, word =>
    if word = 0 then do
      let w ← wordT tr v (index + 1)
      fwd tr v fuel (index + 1) w
    else ok (index, word)

def nextQ (tr : Tr) (m : Mode) (b : BitVector) (it : OneIterSt) : Outcome (Option (Nat × Nat) × OneIterSt) :=
  if it.next.1 ≥ it.limit.1 then ok (none, it) else do
    let index := it.next.2 / 64
    let offset := it.next.2 % 64
    let w ← wordT tr b.data index
    let (index, word) ← fwd tr b.data (b.data.data.size + 1) index (w &&& ~~~ lowSet offset)
    let pos ← bitOffset m index (ctz word)
    let r1 ← addM m it.next.1 1
    let p1 ← addM m pos 1
    return (some (it.next.1, pos), { it with next := (r1, p1) })

/-- counted scan of `nth` -/
def fwdN (tr : Tr) (v : RawVec) : Nat → Nat → Word → Nat → Outcome (Nat × Word × Nat)
  | 0, _, _, _ => fault .fuel
  | fuel + 1, index, word, rr =>
    let ones := popcount word
    if ones ≤ rr then do
      let w ← wordT tr v (index + 1)
      fwdN tr v fuel (index + 1) w (rr - ones)
    else ok (index, word, rr)

/-- `nth` as first coded: `next.0 + n >= limit.0` (finding F1: the sum overflows for large `n`) -/
def nthQOld (tr : Tr) (m : Mode) (b : BitVector) (it : OneIterSt) (n : Nat) :
    Outcome (Option (Nat × Nat) × OneIterSt) := do
  let s ← addM m it.next.1 n
  if s ≥ it.limit.1 then return (none, { it with next := it.limit }) else
  let index := it.next.2 / 64
  let offset := it.next.2 % 64
  let w ← wordT tr b.data index
  let (index, word, rr) ← fwdN tr b.data (b.data.data.size + 1) index (w &&& ~~~ lowSet offset) n
  let o ← selWord word rr
  let pos ← bitOffset m index o
  let r1 ← addM m s 1
  let p1 ← addM m pos 1
  return (some (s, pos), { it with next := (r1, p1) })

/-- `nth` (repaired): `n >= limit.0 - next.0` -/
def nthQ (tr : Tr) (m : Mode) (b : BitVector) (it : OneIterSt) (n : Nat) :
    Outcome (Option (Nat × Nat) × OneIterSt) := do
  let remaining ← subM m it.limit.1 it.next.1
  if n ≥ remaining then return (none, { it with next := it.limit }) else
  let s ← addM m it.next.1 n
  let index := it.next.2 / 64
  let offset := it.next.2 % 64
  let w ← wordT tr b.data index
  let (index, word, rr) ← fwdN tr b.data (b.data.data.size + 1) index (w &&& ~~~ lowSet offset) n
  let o ← selWord word rr
  let pos ← bitOffset m index o
  let r1 ← addM m s 1
  let p1 ← addM m pos 1
  return (some (s, pos), { it with next := (r1, p1) })

/-- backward scan -/
def bwd (tr : Tr) (m : Mode) (v : RawVec) : Nat → Nat → Word → Outcome (Nat × Word)
  | 0, _, _ => fault .fuel
  | fuel + 1, index, word =>
    if word = 0 then do
      let i' ← subM m index 1
      let w ← wordT tr v i'
      bwd tr m v fuel i' w
    else ok (index, word)

def nextBackQ (tr : Tr) (m : Mode) (b : BitVector) (it : OneIterSt) : Outcome (Option (Nat × Nat) × OneIterSt) :=
  if it.next.1 ≥ it.limit.1 then ok (none, it) else do
    let l0 ← subM m it.limit.1 1
    let l1 ← subM m it.limit.2 1
    let index := l1 / 64
    let offset := l1 % 64
    let w ← wordT tr b.data index
    let (index, word) ← bwd tr m b.data (b.data.data.size + 1) index (w &&& lowSet (offset + 1))
    let pos ← bitOffset m index (63 - clz word)
    return (some (l0, pos), { it with limit := (l0, pos) })

def remaining (it : OneIterSt) : Nat := it.limit.1 - it.next.1

end OneIterSt

namespace BitVector

/-- `select_iter` / `select_zero_iter` -/
def selectIterT (tr : Tr) (m : Mode) (b : BitVector) (r : Nat) : Outcome OneIterSt :=
  if r ≥ b.countT tr then ok (OneIterSt.emptyIter tr b) else
    match b.supT tr with
    | none => fault (.panic .unwrap)
    | some s => do
      let p ← s.selectU tr m b.data r
      return ⟨(r, p), (b.countT tr, b.len)⟩

/-- `predecessor` as first coded: unclamped `value + 1` (finding F2) -/
def predecessorQOld (m : Mode) (b : BitVector) (value : Nat) : Outcome OneIterSt := do
  let v1 ← addM m value 1
  let rank ← b.rankQ v1
  if rank = 0 then return OneIterSt.emptyIter .ident b else b.selectIterT .ident m (rank - 1)

/-- `usize::saturating_add` -/
def satAdd (a b : Nat) : Nat := min (a + b) (U64 - 1)

/-- `predecessor` (repaired): `value.saturating_add(1)` -/
def predecessorQ (m : Mode) (b : BitVector) (value : Nat) : Outcome OneIterSt := do
  let v1 := satAdd value 1
  let rank ← b.rankQ v1
  if rank = 0 then return OneIterSt.emptyIter .ident b else b.selectIterT .ident m (rank - 1)

def successorQ (m : Mode) (b : BitVector) (value : Nat) : Outcome OneIterSt := do
  let rank ← b.rankQ value
  if rank ≥ b.countOnes then return OneIterSt.emptyIter .ident b else b.selectIterT .ident m rank

end BitVector
end Sds
