/-
Model/Sink: a minimal model of an output sink (`std::io::Write`) that fails after a byte budget, and of the
protocol `serialize` follows on it: a sequence of `write_all` calls on consecutive pieces of the output, joined
by `?` (the first error aborts and is returned).

This is a model of the *sink protocol*, not of the call sequence of the Rust code: which pieces a `serialize`
implementation writes (header, body, padding, nested structures) is left open — `serializeTo` takes any list of
chunks, and the theorems about it (Proofs/LoadWF, Props/C14) hold for every way of cutting the output.
Core Lean only.
-/
import Sds.Model.Basic

namespace Sds
open Outcome

/-- A sink that accepts `budget` more bytes and then fails every write with the error `e`.
`content` is everything accepted so far (what is on the disk / in the pipe, whatever the calls returned). -/
structure Sink where
  content : List UInt8
  budget : Nat
  e : ErrKind
  deriving DecidableEq, Repr

namespace Sink

/-- an empty sink with byte budget `b` and error `e` -/
def new (b : Nat) (e : ErrKind) : Sink := ⟨[], b, e⟩

/-- `Write::write`: writes **some** prefix of the buffer and returns its length.  With an exhausted budget the
call fails with the sink's error; otherwise as many bytes as the budget allows are accepted (a short write when the
buffer is longer).  The state after the call is returned in both cases.  This is the `Sink` of the correspondence
harness (harness/src/exec_ser.rs: `if budget == 0 { Err } else { n = min(budget, len); Ok(n) }`). -/
def write (s : Sink) (buf : List UInt8) : Sink × Outcome Nat :=
  if s.budget = 0 then (s, fault (.err s.e))
  else
    let n := min buf.length s.budget
    ({ s with content := s.content ++ buf.take n, budget := s.budget - n }, ok n)

/-- the loop of the default `Write::write_all`:
`while !buf.is_empty() { match self.write(buf) { Ok(0) => return Err(WriteZero), Ok(n) => buf = &buf[n..],
Err(e) => return Err(e) } }` (`ErrorKind::Interrupted` does not occur in this sink).  `fuel` bounds the number
of iterations; `buf.length + 1` always suffices (`writeAll`). -/
def writeAllLoop : Nat → Sink → List UInt8 → Sink × Outcome Unit
  | 0, s, _ => (s, fault .fuel)
  | fuel + 1, s, buf =>
    if buf.length = 0 then (s, ok ()) else
      match s.write buf with
      | (s', ok n) => if n = 0 then (s', fault (.err .other)) else writeAllLoop fuel s' (buf.drop n)
      | (s', fault f) => (s', fault f)

/-- `Write::write_all`: either the whole buffer is accepted, or an error is returned — possibly after part of the
buffer has been written (the state after the call shows it). -/
def writeAll (s : Sink) (buf : List UInt8) : Sink × Outcome Unit := writeAllLoop (buf.length + 1) s buf

/-- `serialize` as a client of the sink: `write_all` on consecutive pieces, joined by `?` -/
def serializeTo : Sink → List (List UInt8) → Sink × Outcome Unit
  | s, [] => (s, ok ())
  | s, c :: cs =>
    match s.writeAll c with
    | (s', ok ()) => serializeTo s' cs
    | (s', fault f) => (s', fault f)

/-- the same sequence with `write` in place of `write_all`, the returned count ignored (a coding error the sink
model must tell apart: a short write is not an error of `write`) -/
def serializeToWrite : Sink → List (List UInt8) → Sink × Outcome Unit
  | s, [] => (s, ok ())
  | s, c :: cs =>
    match s.write c with
    | (s', ok _) => serializeToWrite s' cs
    | (s', fault f) => (s', fault f)

end Sink
end Sds
