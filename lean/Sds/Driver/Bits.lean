/-
Driver/Bits: `bits …` recipes (C17).
-/
import Sds.Driver.Core

namespace Sds.Driver
open Sds Outcome

/-- independent Nat-level specs -/
def specBitLen (x : Nat) : Nat := if x = 0 then 1 else Nat.log2 x + 1

def specReverseLow (x bits : Nat) : Nat :=
  (List.range bits).foldl (fun acc i => if x.testBit i then acc + 2 ^ (bits - 1 - i) else acc) 0

def specSelect (x r : Nat) : Option Nat :=
  let ps := (List.range 64).filter fun i => x.testBit i
  ps[r]?

def wordsOf (ts : List String) : Array Word := (ts.map fun t => BitVec.ofNat 64 (num t)).toArray

/-- spec of write-then-read on an explicit bit list -/
def specRW (off width value : Nat) (bg : List Nat) : String :=
  let nbits := 64 * bg.length
  let bgBit := fun j => (bg[j / 64]?.getD 0).testBit (j % 64)
  let bit := fun j => if off ≤ j ∧ j < off + width then value.testBit (j - off) else bgBit j
  let wordsAfter := (List.range bg.length).map fun k =>
    (List.range 64).foldl (fun acc i => if bit (64 * k + i) then acc + 2 ^ i else acc) 0
  let _ := nbits
  s!"{value % 2 ^ width} | {rNats wordsAfter}"

def evalBits (st : DState) (t : List String) : Eval :=
  let m := st.mode
  match t with
  | ["low_set", n] =>
    let n := num n
    { st := st.note (if n ≤ 64 then "mask.in" else "mask.out"), model := render rWord (lowSetT n),
      spec := if n ≤ 64 then some (toString (2 ^ n - 1)) else none }
  | ["high_set", n] =>
    let n := num n
    { st := st, model := render rWord (highSetT n), spec := if n ≤ 64 then some (toString (2 ^ 64 - 2 ^ (64 - n))) else none }
  | ["low_set_u", n] =>
    let n := num n
    { st := st, model := render rWord (lowSetU n), spec := if n ≤ 64 then some (toString (2 ^ n - 1)) else none }
  | ["high_set_u", n] =>
    let n := num n
    { st := st, model := render rWord (highSetU n), spec := if n ≤ 64 then some (toString (2 ^ 64 - 2 ^ (64 - n))) else none }
  | ["bit_len", x] =>
    let x := num x
    { st := st.note "bit_len", model := rNat (bitLen (BitVec.ofNat 64 x)), spec := some (rNat (specBitLen x)) }
  | ["reverse_low", x, b] =>
    let x := num x; let b := num b
    { st := st.note "reverse_low", model := rWord (reverseLow (BitVec.ofNat 64 x) b),
      spec := if 1 ≤ b ∧ b ≤ 64 then some (rNat (specReverseLow x b)) else none }
  | ["select", x, r] =>
    let x := num x; let r := num r
    let w := BitVec.ofNat 64 x
    let model := if st.bmi2 then rNat (selectPdep w r) else render rNat (selectPortable m w r)
    { st := st.note (if st.bmi2 then "select.pdep" else "select.portable"), model := model,
      spec := (specSelect x r).map rNat }
  | ["b2w", n] => let n := num n
    { st := st.note (if n + 63 < U64 then "round.in" else "round.out"), model := render rNat (bitsToWords m n),
      spec := if n + 63 < U64 then some (rNat ((n + 63) / 64)) else none }
  | ["w2b", n] => let n := num n
    { st := st, model := render rNat (wordsToBits m n), spec := if n * 64 < U64 then some (rNat (n * 64)) else none }
  | ["by2w", n] => let n := num n
    { st := st, model := render rNat (bytesToWords m n), spec := if n + 7 < U64 then some (rNat ((n + 7) / 8)) else none }
  | ["w2by", n] => let n := num n
    { st := st, model := render rNat (wordsToBytes m n), spec := if n * 8 < U64 then some (rNat (n * 8)) else none }
  | ["rub", n] => let n := num n
    { st := st, model := render rNat (roundUpToWordBits m n),
      spec := if n + 63 < U64 then some (rNat (((n + 63) / 64) * 64)) else none }
  | ["ruby", n] => let n := num n
    { st := st, model := render rNat (roundUpToWordBytes m n),
      spec := if n + 7 < U64 then some (rNat (((n + 7) / 8) * 8)) else none }
  | ["dru", v, n] => let v := num v; let n := num n
    { st := st, model := render rNat (divRoundUp m v n),
      spec := if n ≠ 0 ∧ v + n ≤ U64 - 1 then some (rNat ((v + n - 1) / n)) else none }
  | ["split", n] => let n := num n
    let (a, b) := splitOffset n
    { st := st, model := s!"{a} {b}", spec := some s!"{n / 64} {n % 64}" }
  | ["bitoff", i, o] => let i := num i; let o := num o
    { st := st, model := render rNat (bitOffset m i o), spec := if i * 64 + o < U64 then some (rNat (i * 64 + o)) else none }
  | ["filler", b] =>
    { st := st, model := rWord (fillerValue (b == "1")), spec := some (if b == "1" then toString (2 ^ 64 - 1) else "0") }
  | "rw" :: off :: width :: value :: bg =>
    let off := num off; let width := num width; let value := num value
    let a := wordsOf bg
    let regime := if off % 64 + width ≤ 64 then "rw.oneword" else "rw.twowords"
    let model := match writeIntM a off (BitVec.ofNat 64 value) width with
      | .ok a' => (match readIntM a' off width with
          | .ok r => s!"{rWord r} | {rWords a'.toList}"
          | .fault e => renderFault e)
      | .fault e => renderFault e
    { st := st.note regime, model := model,
      spec := if 1 ≤ width ∧ width ≤ 64 ∧ (off + width - 1) / 64 < a.size then some (specRW off width value (bg.map num)) else none }
  | _ => { st := st, model := "driver:unknown-bits-op" }

end Sds.Driver
