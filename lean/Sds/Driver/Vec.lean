/-
Driver/Vec: `raw …` and `iv …` recipes (C05, parts of C06/C09/C10).
Every object is kept twice: the model value and an independent reference (a plain list).
-/
import Sds.Driver.Core

namespace Sds.Driver
open Sds Outcome

/-- canonical packing of a bit list into words (LSB first, zero tail) -/
def packBits (B : List Bool) : List Nat :=
  let n := (B.length + 63) / 64
  (List.range n).map fun k =>
    (List.range 64).foldl (fun acc i => if (B[64 * k + i]?.getD false) then acc + 2 ^ i else acc) 0

def bitsOfNat (x w : Nat) : List Bool := (List.range w).map fun i => x.testBit i
def natOfBits (B : List Bool) : Nat := (List.range B.length).foldl (fun acc i => if B[i]?.getD false then acc + 2 ^ i else acc) 0

def rawStateModel (v : RawVec) : String :=
  s!"{v.len} {v.countOnes} | {rWords v.data.toList}"

def rawStateSpec (B : List Bool) : String :=
  s!"{B.length} {B.count true} | {rNats (packBits B)}"

def ivStateModel (v : IntVec) : String :=
  s!"{v.len} {v.width} {v.data.len} | {rWords v.data.data.toList}"

def ivStateSpec (w : Nat) (xs : List Nat) : String :=
  s!"{xs.length} {w} {xs.length * w} | {rNats (packBits (xs.flatMap fun x => bitsOfNat x w))}"

def rOptWord : Option Word → String | some w => s!"some {w.toNat}" | none => "none"

def rawFromWords (len : Nat) (ws : List Nat) : RawVec :=
  let (v, _) := ws.foldl (fun (acc : RawVec × Nat) w =>
      let take := min 64 acc.2
      (acc.1.pushInt (BitVec.ofNat 64 w) take, acc.2 - take)) (RawVec.empty, len)
  v

def bitsFromWords (len : Nat) (ws : List Nat) : List Bool :=
  (List.range len).map fun j => (ws[j / 64]?.getD 0).testBit (j % 64)

/-! raw vectors beyond 2^32 bits: segments `(count, bit)`; answers in closed form, used as both spec and model column
(the model's word array is not materialised at this size; see the remark in Driver/Bv.lean) -/
namespace HugeRaw
def len (segs : List (Nat × Bool)) : Nat := (segs.map (·.1)).sum
def ones (segs : List (Nat × Bool)) : Nat := ((segs.filter (·.2)).map (·.1)).sum
def bitAt : List (Nat × Bool) → Nat → Bool
  | [], _ => false
  | (c, b) :: rest, i => if i < c then b else bitAt rest (i - c)
/-- keep the first `n` bits -/
def take : List (Nat × Bool) → Nat → List (Nat × Bool)
  | [], _ => []
  | (c, b) :: rest, n => if n = 0 then [] else if n < c then [(n, b)] else (c, b) :: take rest (n - c)
def setBit (segs : List (Nat × Bool)) (i : Nat) (b : Bool) : List (Nat × Bool) :=
  take segs i ++ [(1, b)] ++ (let l := len segs; if i + 1 < l then
    -- the part after position i: drop i+1 bits
    let rec drop : List (Nat × Bool) → Nat → List (Nat × Bool)
      | [], _ => []
      | (c, x) :: rest, n => if n = 0 then (c, x) :: rest else if n < c then (c - n, x) :: rest else drop rest (n - c)
    drop segs (i + 1) else [])
end HugeRaw

def evalHugeRaw (st : DState) (name : String) (segs : List (Nat × Bool)) (t : List String) : Eval :=
  let put (s' : List (Nat × Bool)) : Eval :=
    let out := s!"{HugeRaw.len s'} {HugeRaw.ones s'}"
    { st := { (st.note "raw.huge") with hraws := st.hraws.insert name s' }, model := out, spec := some out }
  match t with
  | ["hresize", n, b] => let n := num n; let b := b == "1"
    let l := HugeRaw.len segs
    put (if n ≥ l then segs ++ (if n > l then [(n - l, b)] else []) else HugeRaw.take segs n)
  | ["hset_bit", i, b] => let i := num i
    if i < HugeRaw.len segs then put (HugeRaw.setBit segs i (b == "1")) else { st := st, model := "*" }
  | ["hpush_bit", b] => put (segs ++ [(1, b == "1")])
  | ["hcount"] => put segs
  | ["bit", i] => let i := num i
    if i < HugeRaw.len segs then let o := rBool01 (HugeRaw.bitAt segs i); { st := st.note "raw.huge", model := o, spec := some o }
    else { st := st, model := "*" }
  | _ => { st := st, model := "driver:unknown-huge-raw-op" }

def evalRaw (st : DState) (name : String) (t : List String) : Eval :=
  let raws := st.raws
  let mk (o : RawObj) (pre : String := "") (preS : String := "") : Eval :=
    { st := { st with raws := raws.insert name o }, model := pre ++ rawStateModel o.m, spec := some (preS ++ rawStateSpec o.s) }
  match t with
  | ["huge", n, b] => let n := num n; let b := b == "1"
    let segs := if n = 0 then [] else [(n, b)]
    let out := s!"{HugeRaw.len segs} {HugeRaw.ones segs}"
    { st := { (st.note "raw.huge") with hraws := st.hraws.insert name segs, raws := raws.erase name }, model := out, spec := some out }
  | ["new"] => mk ⟨RawVec.empty, []⟩
  | ["with_len", n, b] => let n := num n; let b := b == "1"
    let e := mk ⟨RawVec.withLen n b, List.replicate n b⟩
    { e with st := e.st.note "raw.with_len" }
  | "from_words" :: len :: ws => let len := num len; let ws := ws.map num
    mk ⟨rawFromWords len ws, bitsFromWords len ws⟩
  | ["complement_of", other] =>
    match raws[other]? with
    | some o => mk ⟨o.m.complement, o.s.map not⟩
    | none => { st := st, model := "panic:no-object" }
  | ["eq", other] =>
    match raws[name]?, raws[other]? with
    | some a, some b => { st := st.note "raw.eq", model := toString (decide (a.m = b.m)), spec := some (toString (decide (a.s = b.s))) }
    | _, _ => { st := st, model := "panic:no-object" }
  | _ =>
    match raws[name]? with
    | none => (match st.hraws[name]? with
        | some segs => evalHugeRaw st name segs t
        | none => { st := st, model := "panic:no-object" })
    | some o =>
      let same (model : String) (spec : Option String) (r : String := "") : Eval :=
        { st := if r = "" then st else st.note r, model := model, spec := spec }
      match t with
      | ["push_bit", b] => let b := b == "1"
        let e := mk ⟨o.m.pushBit b, o.s ++ [b]⟩
        { e with st := e.st.note (if o.m.len % 64 = 0 then "raw.push_bit.newword" else "raw.push_bit") }
      | ["push_int", v, w] => let v := num v; let w := num w
        let e := mk ⟨o.m.pushInt (BitVec.ofNat 64 v) w, o.s ++ bitsOfNat v w⟩
        { e with st := e.st.note (if o.m.len % 64 + w > 64 then "raw.push_int.straddle" else "raw.push_int") }
      | ["pop_bit"] =>
        let (r, m') := o.m.popBit
        let rs : Option Bool := o.s.getLast?
        let pre := (match r with | some b => s!"some {rBool01 b}" | none => "none") ++ " ; "
        let preS := (match rs with | some b => s!"some {rBool01 b}" | none => "none") ++ " ; "
        mk ⟨m', o.s.dropLast⟩ pre preS
      | ["pop_int", w] => let w := num w
        let (r, m') := o.m.popInt w
        if o.s.length ≥ w then
          let tail := o.s.drop (o.s.length - w)
          let e := mk ⟨m', o.s.take (o.s.length - w)⟩ (rOptWord r ++ " ; ") (s!"some {natOfBits tail} ; ")
          { e with st := e.st.note "raw.pop_int" }
        else mk ⟨m', o.s⟩ (rOptWord r ++ " ; ") "none ; "
      | ["set_bit", i, b] => let i := num i; let b := b == "1"
        if i < o.s.length then mk ⟨o.m.setBit i b, o.s.set i b⟩
        else
          -- outside the documented domain: compare with the model only
          let m' := if i / 64 < o.m.data.size then o.m.setBit i b else o.m
          { st := { st with raws := raws.insert name ⟨m', o.s⟩ }, model := if i / 64 < o.m.data.size then rawStateModel m' else "panic:index", spec := none }
      | ["set_int", off, v, w] => let off := num off; let v := num v; let w := num w
        if off + w ≤ o.s.length then
          let s' := (List.range o.s.length).map fun j => if off ≤ j ∧ j < off + w then v.testBit (j - off) else o.s[j]?.getD false
          let e := mk ⟨o.m.setInt off (BitVec.ofNat 64 v) w, s'⟩
          { e with st := e.st.note (if off % 64 + w > 64 then "raw.set_int.straddle" else "raw.set_int") }
        else same "driver:out-of-domain" none
      | ["bit", i] => let i := num i
        if i < o.s.length then same (rBool01 (o.m.bit i)) (some (rBool01 (o.s[i]?.getD false)))
        else same (render rBool01 (o.m.bitM i)) none
      | ["int", off, w] => let off := num off; let w := num w
        if off + w ≤ o.s.length then
          same (rWord (o.m.int off w)) (some (toString (natOfBits ((o.s.drop off).take w)))) "raw.int"
        else same "driver:out-of-domain" none
      | ["word", i] => same (render rWord (o.m.wordM (num i))) none
      | ["resize", n, b] => let n := num n; let b := b == "1"
        let e := mk ⟨o.m.resize n b, o.s.take n ++ List.replicate (n - o.s.length) b⟩
        { e with st := e.st.note (if n > o.s.length then "raw.resize.grow" else "raw.resize.shrink") }
      | ["clear"] => mk ⟨o.m.clear, []⟩
      | ["reserve", _] => mk o
      | ["state"] => mk o
      | ["doc"] | ["ser"] => same (rWords (rawVecC.ser o.m)) (some (rNats ([o.s.length, (o.s.length + 63) / 64] ++ packBits o.s))) "raw.ser"
      | _ => same "driver:unknown-raw-op" none

/-- reference semantics of the iterator call alphabet on a list: n b N<k> B<k> l -/
def dequeCall {α} (f : α → String) (xs : List α) (c : String) : String × List α :=
  let k := num (c.drop 1).toString
  match c.front with
  | 'n' => (match xs with | [] => ("-", []) | x :: r => (f x, r))
  | 'b' => (match xs.getLast? with | none => ("-", []) | some x => (f x, xs.dropLast))
  | 'N' => let r := xs.drop k
    (match r with | [] => ("-", []) | x :: r' => (f x, r'))
  | 'B' => let r := xs.take (xs.length - k)
    (match r.getLast? with | none => ("-", []) | some x => (f x, r.dropLast))
  | 'l' => (s!"l{xs.length}", xs)
  -- observations on a clone of the iterator: count(), last(), size_hint() of an exact-size iterator
  | 'c' => (s!"c{xs.length}", xs)
  | 'L' => ((match xs.getLast? with | none => "L-" | some x => "L" ++ f x), xs)
  | 'h' => (s!"h{xs.length},{xs.length}", xs)
  | _ => ("?", xs)

def dequeRun {α} (f : α → String) (xs : List α) (calls : List String) : String :=
  let (out, _) := calls.foldl (fun (acc : List String × List α) c =>
      let (o, r) := dequeCall f acc.2 c; (acc.1 ++ [o], r)) ([], xs)
  " ".intercalate out

/-- `AccessIter` over an IntVec model: state (next, limit) -/
def accessIterRun (v : IntVec) (calls : List String) : String :=
  let get := fun i => s!"s{(v.getRaw i).toNat}"
  let (out, _, _) := calls.foldl (fun (acc : List String × Nat × Nat) c =>
      let (o, nx, lim) := acc
      let k := num (c.drop 1).toString
      match c.front with
      | 'n' => if nx ≥ lim then (o ++ ["-"], nx, lim) else (o ++ [get nx], nx + 1, lim)
      | 'b' => if nx ≥ lim then (o ++ ["-"], nx, lim) else (o ++ [get (lim - 1)], nx, lim - 1)
      | 'N' => let nx := nx + min k (lim - nx)
        if nx ≥ lim then (o ++ ["-"], nx, lim) else (o ++ [get nx], nx + 1, lim)
      | 'B' => let lim := lim - min k (lim - nx)
        if nx ≥ lim then (o ++ ["-"], nx, lim) else (o ++ [get (lim - 1)], nx, lim - 1)
      | 'l' => (o ++ [s!"l{lim - nx}"], nx, lim)
      | _ => (o ++ ["*"], nx, lim)) ([], 0, v.len)
  " ".intercalate out

def itemWidth (ty : String) : Nat :=
  match ty with | "u8" => 8 | "u16" => 16 | "u32" => 32 | _ => 64

def evalIv (st : DState) (name : String) (t : List String) : Eval :=
  let ivs := st.ivs
  let mk (o : IvObj) (pre : String := "") (preS : String := "") (r : String := "") : Eval :=
    { st := { (if r = "" then st else st.note r) with ivs := ivs.insert name o }, model := pre ++ ivStateModel o.m, spec := some (preS ++ ivStateSpec o.w o.s) }
  let ctor (res : Outcome IntVec) (w : Nat) (items : List Nat) : Eval :=
    match res with
    | .ok v => mk ⟨v, w, items⟩
    | .fault e => { st := st.note "iv.ctor.reject", model := renderFault e, spec := some (if w = 0 ∨ w > 64 then "err:other" else "?") }
  match t with
  | ["new", w] => let w := num w; ctor (IntVec.new w) w []
  | ["with_len", n, w, v] => let n := num n; let w := num w; let v := num v
    ctor (IntVec.withLen n w (BitVec.ofNat 64 v)) w (if w ≤ 64 then List.replicate n (v % 2 ^ w) else [])
  | ["with_capacity", c, w] => let w := num w; ctor (IntVec.withCapacity (num c) w) w []
  | "from_vec" :: ty :: vals =>
    let w := itemWidth ty
    let vals := vals.map fun x => num x % 2 ^ w
    mk ⟨IntVec.ofList w vals, w, vals⟩ "" "" "iv.from_vec"
  | ["eq", other] =>
    match ivs[name]?, ivs[other]? with
    | some a, some b => { st := st.note "iv.eq", model := toString (decide (a.m = b.m)), spec := some (toString (decide (a.w = b.w ∧ a.s = b.s))) }
    | _, _ => { st := st, model := "panic:no-object" }
  | _ =>
    match ivs[name]? with
    | none => { st := st, model := "panic:no-object" }
    | some o =>
      let same (model : String) (spec : Option String) (r : String := "") : Eval :=
        { st := if r = "" then st else st.note r, model := model, spec := spec }
      match t with
      | ["push", v] => let v := num v
        mk ⟨o.m.push (BitVec.ofNat 64 v), o.w, o.s ++ [v % 2 ^ o.w]⟩ "" "" (if v ≥ 2 ^ o.w then "iv.push.truncating" else "iv.push")
      | ["pop"] =>
        let (r, m') := o.m.pop
        let rs := match o.s.getLast? with | some x => s!"some {x}" | none => "none"
        mk ⟨m', o.w, o.s.dropLast⟩ (rOptWord r ++ " ; ") (rs ++ " ; ") "iv.pop"
      | ["set", i, v] => let i := num i; let v := num v
        match o.m.set i (BitVec.ofNat 64 v) with
        | .ok m' => mk ⟨m', o.w, o.s.set i (v % 2 ^ o.w)⟩ "" "" "iv.set"
        | .fault e => same (renderFault e) (if i ≥ o.s.length then some "panic" else some "?")
      | ["get", i] => let i := num i
        same (render rWord (o.m.get i)) (if i < o.s.length then some (toString (o.s[i]?.getD 0)) else some "panic") "iv.get"
      | ["get_or", i, d] => let i := num i; let d := num d
        same (rWord (o.m.getOr i (BitVec.ofNat 64 d))) (some (toString (o.s[i]?.getD d)))
      | ["resize", n, v] => let n := num n; let v := num v
        mk ⟨o.m.resize n (BitVec.ofNat 64 v), o.w, o.s.take n ++ List.replicate (n - o.s.length) (v % 2 ^ o.w)⟩ "" ""
          (if n > o.s.length then "iv.resize.grow" else "iv.resize.shrink")
      | ["clear"] => mk ⟨o.m.clear, o.w, []⟩
      | ["reserve", _] => mk o
      | ["pack"] =>
        let w' := if o.s.isEmpty then o.w else specBitLenV (o.s.foldl max 0)
        mk ⟨o.m.pack, w', o.s⟩ "" "" (if w' = o.w then "iv.pack.same" else "iv.pack.repack")
      | "extend" :: vals => let vals := vals.map num
        mk ⟨o.m.extend (vals.map (BitVec.ofNat 64)), o.w, o.s ++ vals.map (· % 2 ^ o.w)⟩ "" "" "iv.extend"
      | ["state"] => mk o
      | ["items"] => same (rNats o.m.items) (some (rNats o.s))
      | ["into_iter"] => same (rNats o.m.items) (some (rNats o.s))
      | ["doc"] | ["ser"] => same (rWords (intVecC.ser o.m))
          (some (rNats ([o.s.length, o.w, o.s.length * o.w, (o.s.length * o.w + 63) / 64] ++ packBits (o.s.flatMap fun x => bitsOfNat x o.w)))) "iv.ser"
      | "it" :: calls => same (accessIterRun o.m calls) (some (dequeRun (fun x => s!"s{x}") o.s calls)) "iv.iter"
      -- the owning iterator walks the same items front to back (forward calls only: `accessIterRun` on n / N / l)
      | "into_it" :: calls => same (accessIterRun o.m calls) (some (dequeRun (fun x => s!"s{x}") o.s calls)) "iv.into_iter"
      | _ => same "driver:unknown-iv-op" none
where
  specBitLenV (x : Nat) : Nat := if x = 0 then 1 else Nat.log2 x + 1

end Sds.Driver
