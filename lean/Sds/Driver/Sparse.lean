/-
Driver/Sparse: `sp …` recipes (C02, C15, C16, parts of C09/C10/C11).
The low-part width is read from the implementation's own bytes (it is a parameter of the model), checked
to be admissible, and compared with a `Float` re-computation of the rule (recorded, never an alarm).
-/
import Sds.Driver.Bv

namespace Sds.Driver
open Sds Outcome

/-- the f64 parameter rule of `SparseBuilder::get_params`, reproduced with Lean floats -/
def sparseWidthRule (univ ones : Nat) : Nat :=
  if ones > 0 ∧ ones ≤ univ then
    let ideal := Float.log2 ((univ.toFloat * Float.log 2.0) / ones.toFloat)
    let r := Float.round (if ideal < 1.0 then 1.0 else ideal)
    r.toUInt64.toNat
  else 1

def parseWords (ts : List String) : List Word := ts.map fun t => BitVec.ofNat 64 (num t)

/-- low width stored in a serialized sparse vector -/
def widthOfSer (ws : List Word) : Option Nat :=
  match sparseC.load ws with
  | .ok (s, _) => some s.low.width
  | .fault _ => none

def spPairs (P : List Nat) : List (Nat × Nat) := P.zipIdx.map fun p => (p.2, p.1)

def distinctBits (n : Nat) (P : List Nat) : List Bool := (List.range n).map fun i => P.contains i

def zeroPairs (n : Nat) (P : List Nat) : List (Nat × Nat) :=
  let zs := (List.range n).filter fun i => !P.contains i
  zs.zipIdx.map fun p => (p.2, p.1)

/-- generic forward/backward runner: `next`/`nextBack` on a state, default `nth`/`nth_back` by repetition -/
def iterRun {σ α} (render : Option α → String) (next : σ → Outcome (Option α × σ))
    (nextBack : Option (σ → Outcome (Option α × σ))) (remaining : σ → Nat) (it0 : Outcome σ) (calls : List String) : String :=
  match it0 with
  | .fault e => renderFault e
  | .ok it0 =>
    let rep (f : σ → Outcome (Option α × σ)) (it : σ) (k : Nat) : Outcome (σ × Bool) :=
      (List.range (min k (remaining it + 1))).foldl (fun (s : Outcome (σ × Bool)) _ =>
        match s with
        | .ok (it, false) => (match f it with
            | .ok (some _, it') => .ok (it', false)
            | .ok (none, it') => .ok (it', true)
            | .fault e => .fault e)
        | other => other) (.ok (it, false))
    let step := fun (acc : List String × Option σ) (c : String) =>
      match acc.2 with
      | none => acc
      | some it =>
        let k := num (c.drop 1).toString
        let fin := fun (r : Outcome (Option α × σ)) =>
          match r with
          | .ok (o, it') => (acc.1 ++ [render o], some it')
          | .fault e => (acc.1 ++ [renderFault e], none)
        let nth := fun (f : σ → Outcome (Option α × σ)) =>
          match rep f it k with
          | .ok (it', true) => (acc.1 ++ [render none], some it')
          | .ok (it', false) => fin (f it')
          | .fault e => (acc.1 ++ [renderFault e], none)
        match c.front, nextBack with
        | 'n', _ => fin (next it)
        | 'N', _ => nth next
        | 'b', some nb => fin (nb it)
        | 'B', some nb => nth nb
        | 'l', _ => (acc.1 ++ [s!"l{remaining it}"], some it)
        | _, _ => (acc.1 ++ ["*"], some it)
    let (out, _) := calls.foldl step ([], some it0)
    " ".intercalate out

def spFirst (m : Mode) (s : Sparse) (it : Outcome SpOneIter) : String :=
  match it with
  | .fault e => renderFault e
  | .ok it => match SpOneIter.nextQ m s it with
    | .ok (o, _) => rOptPair o
    | .fault e => renderFault e

/-- builder reference (C16): accepted positions, next index; independent of the model -/
structure SbRef where
  n : Nat
  cap : Nat
  multi : Bool
  acc : List Nat := []
  next : Nat := 0

def SbRef.obs (r : SbRef) : String :=
  s!"{r.acc.length},{r.next},{rBool01 (r.acc.length == r.cap)},{r.cap},{r.n},{rBool01 r.multi}"

def SbRef.accepts (r : SbRef) (i : Nat) : Bool := r.acc.length < r.cap && i ≥ r.next && i < r.n
def SbRef.set (r : SbRef) (i : Nat) : SbRef := { r with acc := r.acc ++ [i], next := i + (if r.multi then 0 else 1) }

def sbObs (b : SparseBuilder) : String :=
  s!"{b.len},{b.next},{rBool01 b.isFull},{b.capacity},{b.univ},{rBool01 (b.increment == 0)}"

def csvNats (s : String) : List Nat := ((s.splitOn ",").filter (· ≠ "")).map num

def evalSparse (st : DState) (name : String) (t : List String) (impl : String) : Eval :=
  let m := st.mode
  let implToks := (impl.splitOn " ").filter (· ≠ "")
  let store (s : Sparse) (n : Nat) (vals : List Nat) (regime : String) : Eval :=
    let w := s.low.width
    let rule := sparseWidthRule n vals.length
    let st1 := (st.note regime).note (if w = rule then "sp.w.rule.match" else if w + 1 = rule ∨ rule + 1 = w then "sp.w.rule.off1" else "sp.w.rule.differs")
    { st := { st1 with sps := st1.sps.insert name ⟨s, n, vals⟩ }, model := s!"ok {rWords (sparseC.ser s)}", spec := some "ok *" }
  let buildWith (n : Nat) (multi : Bool) (vals : List Nat) (regime : String) : Eval :=
    -- spec: what the list-level rules say about acceptance
    let okSet := (multi || vals.length ≤ n) && (if multi then sortedLe vals else sortedStrict vals) && vals.all (· < n)
    match implToks with
    | "ok" :: ws =>
      -- if the implementation's bytes do not even parse, fall back to the re-computed width so that the queries that
      -- follow are still judged against the spec (the build line itself then shows impl != model)
      (match (widthOfSer (parseWords ws)).orElse (fun _ => some (sparseWidthRule n vals.length)) with
       | none => { st := st, model := "driver:cannot-decode-impl-bytes", spec := some (if okSet then "ok *" else "err*") }
       | some w =>
         if w < 1 ∨ w > 63 then { st := st, model := s!"driver:inadmissible-width {w}", spec := some "ok *" } else
         match Sparse.ofValues w n multi vals with
         | .ok s => let e := store s n vals regime; { e with spec := some (if okSet then "ok *" else "err*") }
         | .fault e => { st := st, model := renderFault e, spec := some (if okSet then "ok *" else "err*") })
    | _ =>
      let model := match Sparse.ofValues (sparseWidthRule n vals.length) n multi vals with
        | .ok _ => "ok"
        | .fault (.err _) => "err*"
        | .fault e => renderFault e
      { st := st.note "sp.build.reject", model := model, spec := some (if okSet then "ok *" else "err*") }
  match t with
  | "ref" :: n :: vals =>
    -- the generator states the reference content of a loaded / foreign object
    (match st.sps[name]? with
     | some o => { st := { st with sps := st.sps.insert name ⟨o.m, num n, vals.map num⟩ }, model := "ok", spec := some "ok" }
     | none => { st := st, model := "panic:no-object" })
  | "build" :: n :: multi :: vals => buildWith (num n) (multi == "1") (vals.map num) (if multi == "1" then "sp.build.multiset" else "sp.build.set")
  | "from_iter" :: vals =>
    let vals := vals.map num
    -- try_from_iter: universe = last + 1, multiset mode; the last value is re-inserted at the end
    let n := match vals.getLast? with | some l => l + 1 | none => 0
    buildWith n true vals "sp.from_iter"
  | ["from_skip", src, k] =>
    (match st.sps[src]? with
     | some o =>
       let vals := o.vals.drop (num k)
       let n := match vals.getLast? with | some l => l + 1 | none => 0
       buildWith n true vals "sp.from_skip"
     | none => { st := st, model := "panic:no-object" })
  | [op, src] =>
    if op == "copy_of" || op == "from" then
      match refSet st src with
      | some (n, P) => buildWith n false P "sp.copy"
      | none => { st := st, model := "panic:no-object" }
    else evalSpQ st name t m
  | "builder" :: n :: ones :: multi :: rest =>
    let n := num n; let ones := num ones; let multi := multi == "1"
    let (_, calls) := splitColon rest
    -- width: from the converted bytes if the history converts, else from the rule
    let wFromImpl : Option Nat := implToks.findSome? fun tok =>
      if tok.startsWith "conv:ok:" then widthOfSer ((csvNats (tok.drop 8).toString).map (BitVec.ofNat 64)) else none
    let w := wFromImpl.getD (sparseWidthRule n ones)
    let b0 := if multi then SparseBuilder.multiset w n ones else SparseBuilder.new w n ones
    let ref0 : SbRef := { n := n, cap := ones, multi := multi }
    if !multi && ones > n then
      { st := st.note "sb.new.reject", model := (match b0 with | .fault (.err _) => "err:new" | _ => "ok"), spec := some "err:new" } else
    match b0 with
    | .fault e => { st := st, model := renderFault e, spec := some "?" }
    | .ok b0 =>
      let step := fun (acc : List String × SparseBuilder × List String × SbRef) (c : String) =>
        let (mo, b, so, r) := acc
        let arg := (c.drop 1).toString
        match c.front with
        | 't' =>
          let i := num arg
          let (mo', b') := match b.trySet i with
            | .ok b' => (mo ++ [s!"ok:{sbObs b'}"], b')
            | .fault (.err _) => (mo ++ [s!"err:{sbObs b}"], b)
            | .fault e => (mo ++ [renderFault e], b)
          let (so', r') := if r.accepts i then (so ++ [s!"ok:{(r.set i).obs}"], r.set i) else (so ++ [s!"err:{r.obs}"], r)
          (mo', b', so', r')
        | 's' =>
          let i := num arg
          let (mo', b') := match b.trySet i with
            | .ok b' => (mo ++ [s!"ok:{sbObs b'}"], b')
            | .fault _ => (mo ++ [s!"panic:{sbObs b}"], b)
          let (so', r') := if r.accepts i then (so ++ [s!"ok:{(r.set i).obs}"], r.set i) else (so ++ [s!"panic:{r.obs}"], r)
          (mo', b', so', r')
        | 'e' =>
          -- extend = set each until the first panic
          let vals := csvNats arg
          let (b', okm) := vals.foldl (fun (s : SparseBuilder × Bool) i => if !s.2 then s else
            match s.1.trySet i with | .ok b' => (b', true) | .fault _ => (s.1, false)) (b, true)
          let (r', oks) := vals.foldl (fun (s : SbRef × Bool) i => if !s.2 then s else
            if s.1.accepts i then (s.1.set i, true) else (s.1, false)) (r, true)
          (mo ++ [s!"{if okm then "ok" else "panic"}:{sbObs b'}"], b', so ++ [s!"{if oks then "ok" else "panic"}:{r'.obs}"], r')
        | 'c' =>
          let mo' := match b.build with
            | .ok s => mo ++ [s!"conv:ok:{",".intercalate ((sparseC.ser s).map rWord)}"]
            | .fault _ => mo ++ ["conv:err"]
          -- spec for a successful conversion: the implementation's own bytes must decode to exactly the accepted values
          let implTok := implToks[so.length]?.getD ""
          let content : Option (Nat × List Nat) :=
            if implTok.startsWith "conv:ok:" then
              match sparseC.load ((csvNats (implTok.drop 8).toString).map (BitVec.ofNat 64)) with
              | .ok (v, _) => some (v.len, (List.range v.low.len).filterMap fun k => match v.select m k with | .ok (some p) => some p | _ => none)
              | .fault _ => none
            else none
          let okTok := if content == some (r.n, r.acc) then implTok else s!"conv:ok:content-should-be-n={r.n},values={r.acc.length}"
          (mo', b, so ++ [if r.acc.length == r.cap then okTok else "conv:err"], r)
        | _ => (mo ++ ["?"], b, so ++ ["?"], r)
      let (mo, _, so, r) := calls.foldl step ([sbObs b0], b0, [ref0.obs], ref0)
      { st := (st.note "sb.history").note (if r.acc.length == r.cap then "sb.full" else "sb.partial"),
        model := " ".intercalate mo, spec := some (" ".intercalate so) }
  | _ => evalSpQ st name t m
where
  evalSpQ (st : DState) (name : String) (t : List String) (m : Mode) : Eval :=
    match st.sps[name]? with
    | none => { st := st, model := "panic:no-object" }
    | some o =>
      let s := o.m; let n := o.n; let P := o.vals
      let isSet := sortedStrict P
      let res (model : String) (spec : Option String) (r : String := "") : Eval :=
        { st := if r = "" then st else st.note r, model := model, spec := spec }
      match t with
      | ["len"] => res (rNat s.len) (some (rNat n))
      | ["ones"] => res (rNat s.countOnes) (some (rNat P.length))
      | ["zeros"] => res (rNat s.countZeros) (some (rNat (n - P.length)))
      | ["is_multiset"] => res "-" none
      | ["eq", other] =>
        (match st.sps[other]? with
         | some o2 => res (toString (decide (s = o2.m))) (some (toString (decide (n = o2.n ∧ P = o2.vals)))) "sp.eq"
         | none => res "panic:no-object" none)
      | ["get", i] => let i := num i
        res (render rBool01 (s.get m i)) (if i < n then some (rBool01 (getSet P i)) else none) "sp.get"
      | ["rank", i] => let i := num i
        res (render rNat (s.rank m i)) (some (rNat (rankSet P i))) (if i ≥ n then "sp.rank.clamp" else "sp.rank")
      | ["rank0", i] => let i := num i
        res (render rNat (s.rankZero m i)) (if i ≤ n ∧ isSet then some (rNat (i - rankSet P i)) else none) "sp.rank0"
      | ["select", r] => let r := num r
        res (render rOptNat (s.select m r)) (some (rOptNat (selectSet P r))) (if r ≥ P.length then "sp.select.none" else "sp.select")
      | ["select0", r] => let r := num r
        res (render rOptNat (s.selectZero m r))
          (if isSet then some (rOptNat (selectZeroBig P n r)) else none)
          (if P.length > 16 then "sp.select0.binsearch" else "sp.select0.scan")
      | ["pred", x] => let x := num x
        res (spFirst m s (s.predecessor m x)) (some (rOptPair (predSet P x))) "sp.pred"
      | ["succ", x] => let x := num x
        res (spFirst m s (s.successor m x)) (some (rOptPair (succSet P x))) "sp.succ"
      | ["doc"] | ["ser"] => res (rWords (sparseC.ser s)) none "sp.ser"
      | "it" :: rest =>
        let (pre, calls) := splitColon rest
        let one := fun (it0 : Outcome SpOneIter) (ref : List (Nat × Nat)) (r : String) =>
          res (iterRun rItemPair (SpOneIter.nextQ m s) (some (SpOneIter.nextBackQ m s)) SpOneIter.remaining it0 calls)
            (some (dequeRun pairStr ref calls)) r
        let small := n ≤ 200000
        let zero := fun (it0 : Outcome SpZeroIter) (ref : Unit → List (Nat × Nat)) (r : String) =>
          res (iterRun rItemPair (SpZeroIter.nextQ m s) none SpZeroIter.remaining it0 calls)
            (if isSet && small then some (dequeRun pairStr (ref ()) calls) else none) r
        (match pre with
         | ["bits"] => res (iterRun rItemBool (SpIter.nextQ m s) (some (SpIter.nextBackQ m s)) SpIter.remaining (s.iter m) calls)
             (if small then some (dequeRun (fun x => s!"s{rBool01 x}") (distinctBits n P) calls) else none) (if isSet then "sp.it.bits" else "sp.it.bits.multiset")
         | ["one"] => one (.ok (SpOneIter.full s)) (spPairs P) "sp.it.one"
         | ["zero"] => zero (s.zeroIter m) (fun _ => zeroPairs n P) "sp.it.zero"
         | ["sel", r] => one (s.selectIter m (num r)) ((spPairs P).drop (num r)) "sp.it.sel"
         | ["sel0", r] => zero (s.selectZeroIter m (num r)) (fun _ => (zeroPairs n P).drop (num r)) "sp.it.sel0"
         | ["pred", x] =>
           let k := match predSet P (num x) with | some (r, _) => r | none => P.length
           one (s.predecessor m (num x)) ((spPairs P).drop k) "sp.it.pred"
         | ["succ", x] =>
           let k := match succSet P (num x) with | some (r, _) => r | none => P.length
           one (s.successor m (num x)) ((spPairs P).drop k) "sp.it.succ"
         | _ => res "driver:unknown-sp-iter" none)
      | _ => res "driver:unknown-sp-op" none
  /-- `r`-th element of the complement of a sorted strict list in `0..n`, without materialising `0..n` -/
  selectZeroBig (P : List Nat) (n r : Nat) : Option Nat :=
    let rec go : List Nat → Nat → Nat → Option Nat
      | [], base, r => if base + r < n then some (base + r) else none
      | p :: ps, base, r => if base + r < p then some (base + r) else go ps (p + 1) (r - (p - base))
    go P 0 r

end Sds.Driver
