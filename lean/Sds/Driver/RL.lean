/-
Driver/RL: `rl …` recipes (C03, C11, C16 parts, C09/C10 parts).  The reference is a list of maximal runs, so
lengths near 2^64 are handled without materialising bits.
-/
import Sds.Driver.Sparse

namespace Sds.Driver
open Sds Outcome

/-- reference: total length and maximal runs (start, len), ascending and non-adjacent -/
structure RlRef where
  len : Nat := 0
  runs : List (Nat × Nat) := []
  deriving Inhabited

def RlRef.ones (r : RlRef) : Nat := (r.runs.map (·.2)).sum

/-- append a run starting at or after the current length, merging with an adjacent last run -/
def RlRef.addRun (r : RlRef) (start len : Nat) : RlRef :=
  if len = 0 then r else
    match r.runs.getLast? with
    | some (s, l) => if s + l = start then { len := start + len, runs := r.runs.dropLast ++ [(s, l + len)] }
                     else { len := start + len, runs := r.runs ++ [(start, len)] }
    | none => { len := start + len, runs := [(start, len)] }

def rlRank (runs : List (Nat × Nat)) (i : Nat) : Nat :=
  runs.foldl (fun acc r => acc + (if i ≤ r.1 then 0 else min (i - r.1) r.2)) 0

def rlGet (runs : List (Nat × Nat)) (i : Nat) : Bool := runs.any fun r => r.1 ≤ i ∧ i < r.1 + r.2

def rlSelect : List (Nat × Nat) → Nat → Option Nat
  | [], _ => none
  | (s, l) :: rest, r => if r < l then some (s + r) else rlSelect rest (r - l)

/-- r-th zero below `len` -/
def rlSelectZero (len : Nat) : List (Nat × Nat) → Nat → Nat → Option Nat
  | [], base, r => if base + r < len then some (base + r) else none
  | (s, l) :: rest, base, r => if base + r < s then some (base + r) else rlSelectZero len rest (s + l) (r - (s - base))

def rlPred (runs : List (Nat × Nat)) (x : Nat) : Option (Nat × Nat) :=
  let r := rlRank runs (x + 1)
  if r = 0 then none else (rlSelect runs (r - 1)).map fun p => (r - 1, p)

def rlSucc (runs : List (Nat × Nat)) (x : Nat) : Option (Nat × Nat) :=
  let r := rlRank runs x
  (rlSelect runs r).map fun p => (r, p)

def rlOnePairs (runs : List (Nat × Nat)) : List (Nat × Nat) :=
  let ps := runs.flatMap fun r => (List.range r.2).map (· + r.1)
  ps.zipIdx.map fun p => (p.2, p.1)

/-- the (rank, position) pair of the set bit of rank `r` in a run list (closed form per run: no expansion of runs) -/
def rlOneAt (runs : List (Nat × Nat)) (r : Nat) : Option (Nat × Nat) :=
  let rec go : List (Nat × Nat) → Nat → Option (Nat × Nat)
    | [], _ => none
    | (a, l) :: rest, skipped => if r < skipped + l then some (r, a + (r - skipped)) else go rest (skipped + l)
  go runs 0

/-- reference run of a FORWARD-only exact-size iterator over `total` items given by index (`itemAt i` for `i < total`),
starting at item `k`: calls `n`, `N<j>`, `l` — independent of the size of the universe -/
def fwdRefRun (itemAt : Nat → Option (Nat × Nat)) (total k : Nat) (calls : List String) : String :=
  let (out, _) := calls.foldl (fun (acc : List String × Nat) c =>
      let (o, cur) := acc
      let j := num (c.drop 1).toString
      let item := fun (i : Nat) => match itemAt i with | some p => s!"s{p.1},{p.2}" | none => "?"
      match c.front with
      | 'n' => if cur ≥ total then (o ++ ["-"], total) else (o ++ [item cur], cur + 1)
      | 'N' => if cur + j ≥ total then (o ++ ["-"], total) else (o ++ [item (cur + j)], cur + j + 1)
      | 'l' => (o ++ [s!"l{total - min cur total}"], cur)
      | 'c' => (o ++ [s!"c{total - min cur total}"], cur)
      | 'L' => (o ++ [if cur ≥ total then "L-" else "L" ++ item (total - 1)], cur)
      | 'h' => (o ++ [s!"h{total - min cur total},{total - min cur total}"], cur)
      | _ => (o ++ ["?"], cur)) ([], min k total)
  " ".intercalate out

def twoNats (s : String) : Nat × Nat :=
  match s.splitOn "," with
  | [a, b] => (num a, num b)
  | _ => (0, 0)

/-- apply one builder call to the model; `none` = rejected with an error -/
def rlModelCall (m : Mode) (b : RLBuilder) (c : String) : Outcome (Option RLBuilder) :=
  let arg := (c.drop 1).toString
  match c.front with
  | 's' => let (a, l) := twoNats arg
    (match b.trySet m a l with
     | .ok b' => .ok (some b')
     | .fault (.err _) => .ok none
     | .fault e => .fault e)
  | 'l' => (b.setLen m (num arg)).bind fun b' => .ok (some b')
  | 'b' => (b.setRunUnchecked m (num arg) 1).bind fun b' => .ok (some b')
  | 'r' => let (a, l) := twoNats arg
    (b.setRunUnchecked m a l).bind fun b' => .ok (some b')
  | _ => .fault (.panic .other)

/-- the same call on the reference; `none` = the documented rules reject it -/
def rlRefCall (r : RlRef) (c : String) : Option RlRef :=
  let arg := (c.drop 1).toString
  match c.front with
  | 's' => let (a, l) := twoNats arg
    if a < r.len ∨ U64 - 1 - l < a then none else some (r.addRun a l)
  | 'l' => some (if num arg > r.len then { r with len := num arg } else r)
  | 'b' => some (r.addRun (num arg) 1)
  | 'r' => let (a, l) := twoNats arg; some (r.addRun a l)
  | _ => none

def evalRl (st : DState) (name : String) (t : List String) (impl : String) : Eval :=
  let m := st.mode
  let _ := impl
  let store (v : RL) (r : RlRef) (regime : String) : Eval :=
    let st1 := (st.note regime).note (s!"rl.blocks.{if v.blocks ≤ 1 then "1" else if v.blocks ≤ 8 then "le8" else "gt8"}")
    { st := { st1 with rls := st1.rls.insert name ⟨v, r.len, r.runs⟩ }, model := s!"ok {rWords ((rlC m).ser v)}", spec := some "ok *" }
  let fromSet (n : Nat) (P : List Nat) (regime : String) : Eval :=
    -- copy_bit_vec: set_bit_unchecked for every one, then set_len
    let r := P.foldl (fun r i => r.addRun i 1) ({} : RlRef)
    let r := { r with len := n }
    let b := P.foldl (fun (b : Outcome RLBuilder) i => b.bind fun b => b.setRunUnchecked m i 1) (.ok {})
    match b.bind (fun b => b.setLen m n) |>.bind (RL.ofBuilder m) with
    | .ok v => store v r regime
    | .fault e => { st := st, model := renderFault e, spec := some "ok *" }
  match t with
  | "build" :: calls =>
    let calls := calls.filter (· ≠ ":")
    -- reference
    let (rref, rejAt) := calls.foldl (fun (acc : RlRef × Option Nat × Nat) c =>
        match acc.2.1 with
        | some _ => acc
        | none => match rlRefCall acc.1 c with
          | some r' => (r', none, acc.2.2 + 1)
          | none => (acc.1, some acc.2.2, acc.2.2)) ({}, none, 0) |> fun x => (x.1, x.2.1)
    let spec := match rejAt with | some k => s!"err:set@{k}" | none => "ok *"
    -- model
    let rec go (b : RLBuilder) (cs : List String) (k : Nat) : Outcome (Option RLBuilder × Nat) :=
      match cs with
      | [] => .ok (some b, k)
      | c :: cs => match rlModelCall m b c with
        | .ok (some b') => go b' cs (k + 1)
        | .ok none => .ok (none, k)
        | .fault e => .fault e
    (match go {} calls 0 with
     | .ok (none, k) => { st := st.note "rl.build.reject", model := s!"err:set@{k}", spec := some spec }
     | .ok (some b, _) => (match RL.ofBuilder m b with
        | .ok v => let e := store v rref "rl.build"; { e with spec := some spec }
        | .fault e => { st := st.note "rl.build.fault", model := renderFault e, spec := some spec })
     | .fault e => { st := st.note "rl.build.fault", model := renderFault e, spec := some spec })
  | "ref" :: len :: runs =>
    (match st.rls[name]? with
     | some o => { st := { st with rls := st.rls.insert name ⟨o.m, num len, runs.map twoNats⟩ }, model := "ok", spec := some "ok" }
     | none => { st := st, model := "panic:no-object" })
  | "builder" :: calls =>
    let calls := calls.filter (· ≠ ":")
    let implToks := (impl.splitOn " ").filter (· ≠ "")
    let obsM := fun (b : RLBuilder) => s!"{b.len},{b.ones}"
    let obsR := fun (r : RlRef) => s!"{r.len},{r.ones}"
    let step := fun (acc : List String × Option RLBuilder × List String × RlRef) (c : String) =>
      let (mo, ob, so, r) := acc
      match ob with
      | none => acc
      | some b =>
        if c == "c" then
          let mo' := match RL.ofBuilder m b with
            | .ok v => mo ++ [s!"conv:{",".intercalate (((rlC m).ser v).map rWord)}"]
            | .fault e => mo ++ [renderFault e]
          -- spec for the conversion: the implementation's own bytes must decode (through the loader and the run iterator)
          -- to exactly the accepted runs and length
          let implTok := implToks[so.length]?.getD ""
          let content : Option (Nat × List (Nat × Nat)) :=
            if implTok.startsWith "conv:" then
              match (rlC m).load ((csvNats (implTok.drop 5).toString).map (BitVec.ofNat 64)) with
              | .ok (v, _) =>
                let rec drain (fuel : Nat) (it : RunIter) (acc : List (Nat × Nat)) : List (Nat × Nat) :=
                  match fuel with
                  | 0 => acc
                  | fuel + 1 => match it.nextQ m v with
                    | .ok (some x, it') => drain fuel it' (acc ++ [x])
                    | _ => acc
                (match v.runIter with | .ok it => some (v.len, drain (v.data.len + 2) it []) | _ => none)
              | .fault _ => none
            else none
          let specTok := if content == some (r.len, r.runs) then implTok else s!"conv:content-should-be-len={r.len},runs={r.runs.length}"
          (mo', some b, so ++ [specTok], r)
        else
          let (mo', ob') := match rlModelCall m b c with
            | .ok (some b') => (mo ++ [s!"ok:{obsM b'}"], some b')
            | .ok none => (mo ++ [s!"err:{obsM b}"], some b)
            | .fault e => (mo ++ [renderFault e], none)
          let (so', r') := match rlRefCall r c with
            | some r' => (so ++ [s!"ok:{obsR r'}"], r')
            | none => (so ++ [s!"err:{obsR r}"], r)
          (mo', ob', so', r')
    let (mo, _, so, _) := calls.foldl step ([obsM {}], some {}, [obsR {}], {})
    { st := st.note "rlb.history", model := " ".intercalate mo, spec := some (" ".intercalate so) }
  | [op, src] =>
    if op == "copy_of" || op == "from" then
      match refSet st src with
      | some (n, P) => fromSet n P "rl.copy"
      | none => { st := st, model := "panic:no-object" }
    else evalRlQ st name t m
  | _ => evalRlQ st name t m
where
  evalRlQ (st : DState) (name : String) (t : List String) (m : Mode) : Eval :=
    match st.rls[name]? with
    | none => { st := st, model := "panic:no-object" }
    | some o =>
      let v := o.m; let len := o.len; let runs := o.runs
      let ones := (runs.map (·.2)).sum
      let res (model : String) (spec : Option String) (r : String := "") : Eval :=
        { st := if r = "" then st else st.note r, model := model, spec := spec }
      let first := fun (it : Outcome RLOneIter) => match it with
        | .fault e => renderFault e
        | .ok it => match RLOneIter.nextQ m v it with
          | .ok (o, _) => rOptPair o
          | .fault e => renderFault e
      match t with
      | ["len"] => res (rNat v.len) (some (rNat len))
      | ["ones"] => res (rNat v.ones) (some (rNat ones))
      | ["zeros"] => res (rNat v.countZeros) (some (rNat (len - ones)))
      | ["eq", other] =>
        (match st.rls[other]? with
         | some o2 => res (toString (decide (v = o2.m))) (some (toString (decide (len = o2.len ∧ runs = o2.runs)))) "rl.eq"
         | none => res "panic:no-object" none)
      | ["get", i] => let i := num i
        res (render rBool01 (v.get m i)) (if i < len then some (rBool01 (rlGet runs i)) else none) "rl.get"
      | ["rank", i] => let i := num i
        res (render rNat (v.rank m i)) (some (rNat (rlRank runs i))) (if i ≥ len then "rl.rank.clamp" else "rl.rank")
      | ["rank0", i] => let i := num i
        res (render rNat (v.rankZero m i)) (if i ≤ len then some (rNat (i - rlRank runs i)) else none) "rl.rank0"
      | ["select", r] => let r := num r
        res (render rOptNat (v.select m r)) (some (rOptNat (rlSelect runs r))) "rl.select"
      | ["select0", r] => let r := num r
        res (render rOptNat (v.selectZero m r)) (some (rOptNat (rlSelectZero len runs 0 r))) "rl.select0"
      | ["pred", x] => let x := num x
        res (first (v.predecessor m x)) (some (rOptPair (rlPred runs (min x (len - 1))))) "rl.pred"
      | ["succ", x] => let x := num x
        res (first (v.successor m x)) (some (rOptPair (if x ≥ len then none else rlSucc runs x))) "rl.succ"
      | ["doc"] | ["ser"] => res (rWords ((rlC m).ser v)) none "rl.ser"
      | ["runs"] =>
        let rec drain (fuel : Nat) (it : RunIter) (acc : List String) : String :=
          match fuel with
          | 0 => " ".intercalate (acc ++ ["fuel"])
          | fuel + 1 => match it.nextQ m v with
            | .ok (some (s, l), it') => drain fuel it' (acc ++ [s!"{s},{l},{it'.offsetBits},{it'.rank}"])
            | .ok (none, it') => (match it'.nextQ m v with
                | .ok (none, _) => " ".intercalate (acc ++ ["-"])
                | .ok (some _, _) => " ".intercalate (acc ++ ["again"])
                | .fault e => " ".intercalate (acc ++ [renderFault e]))
            | .fault e => " ".intercalate (acc ++ [renderFault e])
        let model := match v.runIter with | .ok it => drain (v.data.len + 2) it [] | .fault e => renderFault e
        let (specToks, _) := runs.foldl (fun (acc : List String × Nat) r => (acc.1 ++ [s!"{r.1},{r.2},{r.1 + r.2},{acc.2 + r.2}"], acc.2 + r.2)) ([], 0)
        res model (some (" ".intercalate (specToks ++ ["-"]))) "rl.runs"
      | "it" :: rest =>
        let (pre, calls) := splitColon rest
        let small := len ≤ 200000
        let bitsRef := fun (_ : Unit) => (List.range len).map fun i => rlGet runs i
        let zeroRef := fun (_ : Unit) =>
          let zs := (List.range len).filter fun i => !rlGet runs i
          zs.zipIdx.map fun p => (p.2, p.1)
        let one := fun (it0 : Outcome RLOneIter) (k : Nat) (r : String) =>
          res (iterRun rItemPair (RLOneIter.nextQ m v) none (RLOneIter.remaining v) it0 calls)
            (if small then some (dequeRun pairStr ((rlOnePairs runs).drop k) calls)
             else some (fwdRefRun (rlOneAt runs) ones k calls)) r
        let zero := fun (it0 : Outcome RLZeroIter) (k : Nat) (r : String) =>
          res (iterRun rItemPair (RLZeroIter.nextQ m v) none (RLZeroIter.remaining v) it0 calls)
            (if small then some (dequeRun pairStr ((zeroRef ()).drop k) calls) else none) r
        (match pre with
         | ["bits"] => res (iterRun rItemBool (RLIter.nextQ m v) none (RLIter.remaining v) v.iter calls)
             (if small then some (dequeRun (fun x => s!"s{rBool01 x}") (bitsRef ()) calls) else none) "rl.it.bits"
         | ["one"] => one v.oneIter 0 "rl.it.one"
         | ["zero"] => zero (v.zeroIter m) 0 "rl.it.zero"
         | ["sel", r] => one (v.selectIter m (num r)) (num r) "rl.it.sel"
         | ["sel0", r] => zero (v.selectZeroIter m (num r)) (num r) "rl.it.sel0"
         | ["pred", x] =>
           let k := match rlPred runs (min (num x) (len - 1)) with | some (r, _) => r | none => ones
           one (v.predecessor m (num x)) (if len = 0 then ones else k) "rl.it.pred"
         | ["succ", x] =>
           let k := match (if num x ≥ len then none else rlSucc runs (num x)) with | some (r, _) => r | none => ones
           one (v.successor m (num x)) k "rl.it.succ"
         | ["run"] =>
           -- RunIter is not ExactSize: `l` answers "l?" in the harness
           let runIt := fun (it : RunIter) => it.nextQ m v
           let model := iterRun rItemPair runIt none (fun _ => v.data.len + 2) v.runIter (calls.filter (· ≠ "l"))
           res model (some (dequeRun pairStr runs (calls.filter (· ≠ "l")))) "rl.it.run"
         | _ => res "driver:unknown-rl-iter" none)
      | _ => res "driver:unknown-rl-op" none

end Sds.Driver
