/-
Driver/WM: `wm …` recipes (C04, parts of C09/C10).
-/
import Sds.Driver.RL

namespace Sds.Driver
open Sds Outcome

def truncTo (ty : String) (x : Nat) : Nat :=
  match ty with | "u8" => x % 2 ^ 8 | "u16" => x % 2 ^ 16 | "u32" => x % 2 ^ 32 | _ => x % 2 ^ 64

def occIndices (V : List Nat) (v : Nat) : List Nat := (V.zipIdx.filter fun p => p.1 == v).map (·.2)
def occPairs (V : List Nat) (v : Nat) : List (Nat × Nat) := (occIndices V v).zipIdx.map fun p => (p.2, p.1)

def specWidth (V : List Nat) : Nat := let m := V.foldl max 0; if m = 0 then 1 else Nat.log2 m + 1

/-- key of the stable sort: the low `w` bits reversed -/
def revKey (w v : Nat) : Nat := (List.range w).foldl (fun acc i => if v.testBit i then acc + 2 ^ (w - 1 - i) else acc) 0

def specFirst (w : Nat) (V : List Nat) (v : Nat) : Nat := (V.filter fun x => revKey w x < revKey w v).length

def rOptPairNat : Option (Nat × Nat) → String | some (a, b) => s!"some {a} {b}" | none => "none"

/-- run a model iterator on the state-changing calls only and answer `*` at the positions of the observation calls
(`c` count, `L` last, `h` size_hint — evaluated on a clone, so they do not change the state) -/
def withObs (calls : List String) (run : List String → List String) : String :=
  let isObs := fun (c : String) => c == "c" || c == "L" || c == "h"
  let outs := run (calls.filter (fun c => !isObs c))
  let (res, _) := calls.foldl (fun (acc : List String × List String) c =>
      if isObs c then (acc.1 ++ ["*"], acc.2)
      else match acc.2 with | o :: rest => (acc.1 ++ [o], rest) | [] => (acc.1 ++ ["?"], [])) ([], outs)
  " ".intercalate res

def evalWm (st : DState) (name : String) (t : List String) (impl : String) : Eval :=
  let m := st.mode
  let _ := impl
  match t with
  | "from" :: ty :: vals =>
    let V := vals.map fun x => truncTo ty (num x)
    let w := WM.ofValues V
    let st1 := (st.note "wm.from").note s!"wm.type.{ty}"
    { st := { st1 with wms := st1.wms.insert name ⟨w, V⟩ }, model := s!"ok {rWords (wmC.ser w)}", spec := some "ok *" }
  | "ref" :: vals =>
    (match st.wms[name]? with
     | some o => { st := { st with wms := st.wms.insert name ⟨o.m, vals.map num⟩ }, model := "ok", spec := some "ok" }
     | none => { st := st, model := "panic:no-object" })
  | "core" :: ty :: rest =>
    let (pre, vals) := splitColon rest
    let V := vals.map fun x => truncTo ty (num x)
    let c := WMCore.ofValues V
    let width := specWidth V
    let res (model : String) (spec : Option String) (r : String) : Eval := { st := st.note r, model := model, spec := spec }
    (match pre with
     | ["len"] => res (render rNat c.len) (some (rNat V.length)) "wmc.len"
     | ["width"] => res (rNat c.width) (some (rNat width)) "wmc.width"
     | ["mapdown", i] => let i := num i
       let spec := match V[i]? with
         | some x => some s!"some {specFirst width V x + ((V.take i).filter (· == x)).length} {x}"
         | none => some "none"
       res (render rOptPairNat (c.mapDown m i)) spec "wmc.mapdown"
     | ["mapdownwith", i, v] => let i := num i; let v := num v
       let x := v % 2 ^ width
       res (render rNat (c.mapDownWith m i v)) (some (rNat (specFirst width V x + ((V.take i).filter (· == x)).length))) "wmc.mapdownwith"
     | ["mapdown2", a, b, v] => let a := num a; let b := num b; let v := num v
       let x := v % 2 ^ width
       let f := fun i => specFirst width V x + ((V.take i).filter (· == x)).length
       res (match c.mapDownWith m a v, c.mapDownWith m b v with
            | .ok p, .ok q => s!"{p} {q}" | .fault e, _ => renderFault e | _, .fault e => renderFault e)
           (some s!"{f a} {f b}") "wmc.mapdown2"
     | ["mapupwith", i, v] => let i := num i; let v := num v
       let x := v % 2 ^ width
       let fst := specFirst width V x
       -- inside the value's range: the index of that occurrence; anywhere else (also below `first`, where the code as
       -- first written underflowed: F4, repaired) no position maps down to (i, value): None
       let spec := if i ≥ fst then some (rOptNat ((occIndices V x)[i - fst]?)) else some (rOptNat none)
       res (render rOptNat (c.mapUpWith m i v)) spec (if i ≥ fst then "wmc.mapup" else "wmc.mapup.below")
     | ["doc"] | ["ser"] => res (rWords (wmCoreC.ser c)) none "wmc.ser"
     | _ => res "driver:unknown-core-op" none "wmc.unknown")
  | _ =>
    match st.wms[name]? with
    | none => { st := st, model := "panic:no-object" }
    | some o =>
      let w := o.m; let V := o.vals
      let res (model : String) (spec : Option String) (r : String := "") : Eval :=
        { st := if r = "" then st else st.note r, model := model, spec := spec }
      let valueRun := fun (value : Nat) (start : Outcome Nat) (calls : List String) =>
        iterRun rItemPair (fun rank => w.valueIterNext m value rank) none (fun rank => w.len - rank + 1) start calls
      match t with
      | ["len"] => res (rNat w.len) (some (rNat V.length))
      | ["width"] => res (rNat w.data.width) (some (rNat (specWidth V)))
      | ["eq", other] =>
        (match st.wms[other]? with
         | some o2 => res (toString (decide (w = o2.m))) (some (toString (decide (V = o2.vals)))) "wm.eq"
         | none => res "panic:no-object" none)
      | ["get", i] => let i := num i
        res (render rNat (w.get m i)) (match V[i]? with | some x => some (rNat x) | none => none) "wm.get"
      | ["rank", i, v] => let i := num i; let v := num v
        res (render rNat (w.rank m i v)) (some (rNat ((V.take i).filter (· == v)).length))
          (if V.contains v then "wm.rank" else "wm.rank.absent")
      | ["select", r, v] => let r := num r; let v := num v
        res (render rOptNat (w.select m r v)) (some (rOptNat ((occIndices V v)[r]?)))
          (if V.contains v then "wm.select" else "wm.select.absent")
      | ["invsel", i] => let i := num i
        res (render rOptPairNat (w.inverseSelect m i))
          (some (match V[i]? with | some x => s!"some {((V.take i).filter (· == x)).length} {x}" | none => "none")) "wm.invsel"
      | ["contains", v] => res (render rBool01 (w.contains (num v))) (some (rBool01 (V.contains (num v)))) "wm.contains"
      | ["pred", i, v] => let i := num i; let v := num v
        let ix := (occIndices V v).filter (· ≤ i)
        let spec := match ix.getLast? with | some p => s!"some {ix.length - 1} {p}" | none => "none"
        let model := match w.predecessor m i v with
          | .ok r => (match w.valueIterNext m v r with | .ok (o, _) => rOptPair o | .fault e => renderFault e)
          | .fault e => renderFault e
        res model (some spec) "wm.pred"
      | ["succ", i, v] => let i := num i; let v := num v
        let before := ((occIndices V v).filter (· < i)).length
        let spec := match (occIndices V v)[before]? with | some p => s!"some {before} {p}" | none => "none"
        let model := match w.successor m i v with
          | .ok r => (match w.valueIterNext m v r with | .ok (o, _) => rOptPair o | .fault e => renderFault e)
          | .fault e => renderFault e
        res model (some spec) "wm.succ"
      | ["doc"] | ["ser"] => res (rWords (wmC.ser w)) none "wm.ser"
      | ["items"] =>
        let model := (List.range w.len).foldl (fun (acc : List String) i => acc ++ [render rNat (w.get m i)]) []
        res (" ".intercalate model) (some (rNats V)) "wm.items"
      | ["into_iter"] =>
        let model := (List.range w.len).foldl (fun (acc : List String) i => acc ++ [render rNat (w.get m i)]) []
        res (" ".intercalate model) (some (rNats V)) "wm.into_iter"
      | "it" :: rest =>
        let (pre, calls) := splitColon rest
        (match pre with
         | ["into"] =>
           -- owning iterator: forward calls over the items
           let get := fun i => match w.get m i with | .ok x => x | .fault _ => 0
           let toCall := fun (c : String) => match c.front with
             | 'n' => ICall.next | 'N' => ICall.nth (num (c.drop 1).toString) | _ => ICall.len
           let showO := fun (o : IOut Nat) => match o with | .item a => s!"s{a}" | .none => "-" | .len n => s!"l{n}"
           res (withObs calls fun cs => (cursorRun get ⟨0, w.len⟩ (cs.map toCall)).map showO)
             (some (dequeRun (fun x => s!"s{x}") V calls)) "wm.it.into"
         | ["items"] =>
           let get := fun i => match w.get m i with | .ok x => x | .fault _ => 0
           let toCall := fun (c : String) => match c.front with
             | 'n' => ICall.next | 'b' => ICall.nextBack | 'N' => ICall.nth (num (c.drop 1).toString)
             | 'B' => ICall.nthBack (num (c.drop 1).toString) | _ => ICall.len
           let showO := fun (o : IOut Nat) => match o with | .item a => s!"s{a}" | .none => "-" | .len n => s!"l{n}"
           res (withObs calls fun cs => (cursorRun get ⟨0, w.len⟩ (cs.map toCall)).map showO)
             (some (dequeRun (fun x => s!"s{x}") V calls)) "wm.it.items"
         | ["value", v] => res (valueRun (num v) (.ok 0) calls) (some (dequeRun pairStr (occPairs V (num v)) calls)) "wm.it.value"
         | ["sel", r, v] => res (valueRun (num v) (.ok (num r)) calls) (some (dequeRun pairStr ((occPairs V (num v)).drop (num r)) calls)) "wm.it.sel"
         | ["pred", i, v] =>
           let ix := (occIndices V (num v)).filter (· ≤ num i)
           let k := if ix.isEmpty then (occIndices V (num v)).length else ix.length - 1
           res (valueRun (num v) (w.predecessor m (num i) (num v)) calls) (some (dequeRun pairStr ((occPairs V (num v)).drop k) calls)) "wm.it.pred"
         | ["succ", i, v] =>
           let k := ((occIndices V (num v)).filter (· < num i)).length
           res (valueRun (num v) (w.successor m (num i) (num v)) calls) (some (dequeRun pairStr ((occPairs V (num v)).drop k) calls)) "wm.it.succ"
         | _ => res "driver:unknown-wm-iter" none)
      | _ => res "driver:unknown-wm-op" none

end Sds.Driver
