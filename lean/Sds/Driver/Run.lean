/-
Driver/Run: the read–evaluate–compare loop.
Input: the harness transcript (`recipe => impl-outcome`, `@…` directives, `#` comments).
Output: one `NE …` line per disagreement, then `#stats` / `#regime` lines.
-/
import Sds.Driver.Bits
import Sds.Driver.Vec
import Sds.Driver.Bv
import Sds.Driver.Sparse
import Sds.Driver.RL
import Sds.Driver.WM
import Sds.Driver.Ser

namespace Sds.Driver
open Sds Outcome

/-- token-wise comparison with wildcards in the expected string: `*` matches any single token *or*, as the last
token, the whole rest; `abc*` matches any token with that prefix -/
def matchToksF : Nat → List String → List String → Bool
  | 0, _, _ => false
  | _, [], [] => true
  | _, ["*"], _ => true
  | fuel + 1, "**" :: es, as => (List.range (as.length + 1)).any fun k => matchToksF fuel es (as.drop k)
  | fuel + 1, e :: es, a :: as =>
    (e == a || e == "*" || (e.endsWith "*" && a.startsWith (e.dropEnd 1).toString)) && matchToksF fuel es as
  | _, _, _ => false

/-- `*` = one token (or the whole rest when last), `abc*` = token prefix, `**` = any number of tokens -/
def matchToks (e a : List String) : Bool := matchToksF (e.length + a.length + 2) e a

def agrees (expected actual : String) : Bool :=
  matchToks ((expected.splitOn " ").filter (· ≠ "")) ((actual.splitOn " ").filter (· ≠ ""))

def evalRecipe (st : DState) (toks : List String) (impl : String) : Eval :=
  match toks with
  | [kind, name, "doc"] => evalDoc st kind name impl
  | "bits" :: rest => evalBits st rest
  | "raw" :: name :: rest => evalRaw st name rest
  | "iv" :: name :: rest => evalIv st name rest
  | "bv" :: name :: rest => evalBv st name rest
  | "sp" :: name :: rest => evalSparse st name rest impl
  | "rl" :: name :: rest => evalRl st name rest impl
  | "wm" :: name :: rest => evalWm st name rest impl
  | "ser" :: rest => evalSer st rest
  | "wr" :: rest => evalWriter st rest
  | "map" :: rest => evalMap st rest
  | "mmap" :: rest => evalMmap st rest
  | "tmp" :: rest => evalTmp st rest impl
  | ["drop", _] => { st := st, model := "ok", spec := some "ok" }
  | ["obj", "clone_from", src, dst]   -- `dst.clone_from(&src)`: by contract the same as `dst = src.clone()`
  | ["obj", "clone", src, dst] =>
    -- `Clone`: the copy is the same value under another name, whatever the kind
    let cp {β} (h : Std.HashMap String β) : Std.HashMap String β := match h[src]? with | some x => h.insert dst x | none => h.erase dst
    { st := { st with raws := cp st.raws, ivs := cp st.ivs, bvs := cp st.bvs, sps := cp st.sps, rls := cp st.rls, wms := cp st.wms,
                      huges := cp st.huges, hraws := cp st.hraws },
      model := "ok", spec := some "ok" }
  | _ => { st := st, model := "driver:unknown-op" }

structure Stats where
  lines : Nat := 0
  ok : Nat := 0
  implNeSpec : Nat := 0
  implNeModel : Nat := 0
  modelNeSpec : Nat := 0
  specChecked : Nat := 0
  faults : Std.HashMap String Nat := {}

def directive (st : DState) (toks : List String) : DState :=
  match toks with
  | ["@reset"] => st.reset
  | ["@mode", "checked"] => { st with mode := .checked }
  | ["@mode", "wrapping"] => { st with mode := .wrapping }
  | ["@bmi2", b] => { st with bmi2 := b == "1" }
  | _ => st

partial def loop (h : IO.FS.Stream) (st : DState) (stats : Stats) (lineNo : Nat) : IO (DState × Stats) := do
  let line ← h.getLine
  if line.isEmpty then return (st, stats)
  let line := line.trimAscii.toString
  if line.isEmpty || line.startsWith "#" then loop h st stats (lineNo + 1)
  else if line.startsWith "@" then loop h (directive st ((line.splitOn " ").filter (· ≠ ""))) stats (lineNo + 1)
  else
    let line := if line.endsWith " =>" then line ++ " " else line
    let (recipe, impl) := match line.splitOn " => " with
      | [r, i] => (r, i)
      | [r] => (r, "")
      | r :: rest => (r, " => ".intercalate rest)
      | [] => ("", "")
    let toks := (recipe.splitOn " ").filter (· ≠ "")
    let ev := evalRecipe st toks impl
    let implN := normalize impl
    let modelN := normalize ev.model
    let specN := ev.spec.map normalize
    let mut stats := { stats with lines := stats.lines + 1 }
    -- error / fault kinds seen on the implementation side
    let kind := (implN.splitOn " ").head?.getD ""
    if kind.startsWith "panic" || kind.startsWith "err" || kind == "oob" then
      stats := { stats with faults := stats.faults.insert kind (stats.faults.getD kind 0 + 1) }
    let mut bad := false
    match specN with
    | some s =>
      stats := { stats with specChecked := stats.specChecked + 1 }
      if !agrees s implN then
        bad := true
        stats := { stats with implNeSpec := stats.implNeSpec + 1 }
        IO.println s!"NE {lineNo} IMPL_NE_SPEC | {recipe} | impl={impl} | spec={ev.spec.getD ""} | model={ev.model}"
      else if !(agrees s modelN || agrees modelN s) then   -- (the model may leave a token open with `*`, too)
        bad := true
        stats := { stats with modelNeSpec := stats.modelNeSpec + 1 }
        IO.println s!"NE {lineNo} MODEL_NE_SPEC | {recipe} | impl={impl} | spec={ev.spec.getD ""} | model={ev.model}"
    | none => pure ()
    if !bad && !agrees modelN implN then
      bad := true
      stats := { stats with implNeModel := stats.implNeModel + 1 }
      IO.println s!"NE {lineNo} IMPL_NE_MODEL | {recipe} | impl={impl} | model={ev.model}"
    if !bad then stats := { stats with ok := stats.ok + 1 }
    loop h ev.st stats (lineNo + 1)

def main : IO Unit := do
  let stdin ← IO.getStdin
  let (st, stats) ← loop stdin {} {} 1
  IO.println s!"#stats lines={stats.lines} ok={stats.ok} impl_ne_spec={stats.implNeSpec} impl_ne_model={stats.implNeModel} model_ne_spec={stats.modelNeSpec} spec_checked={stats.specChecked}"
  for (k, v) in st.regimes.toList do
    IO.println s!"#regime {k} {v}"
  for (k, v) in stats.faults.toList do
    IO.println s!"#fault {k} {v}"

end Sds.Driver
