/-
Driver/Bv: `bv …` recipes (C01, C08, C09, C10, C19 parts).
-/
import Sds.Driver.Vec

namespace Sds.Driver
open Sds Outcome

def rItemPair : Option (Nat × Nat) → String | some (a, b) => s!"s{a},{b}" | none => "-"
def rItemBool : Option Bool → String | some b => s!"s{rBool01 b}" | none => "-"

/-- run a call history on the `OneIter<T>` model -/
def oneIterRun (tr : Tr) (m : Mode) (b : BitVector) (it0 : Outcome OneIterSt) (calls : List String) : String :=
  match it0 with
  | .fault e => renderFault e
  | .ok it0 =>
    let step := fun (acc : List String × Option OneIterSt) (c : String) =>
      match acc.2 with
      | none => acc
      | some it =>
        let k := num (c.drop 1).toString
        let fin := fun (r : Outcome (Option (Nat × Nat) × OneIterSt)) =>
          match r with
          | .ok (o, it') => (acc.1 ++ [rItemPair o], some it')
          | .fault e => (acc.1 ++ [renderFault e], none)
        match c.front with
        | 'n' => fin (OneIterSt.nextQ tr m b it)
        | 'b' => fin (OneIterSt.nextBackQ tr m b it)
        | 'N' => fin (OneIterSt.nthQ tr m b it k)
        | 'B' =>
          -- default `nth_back`: `advance_back_by(k)` (stops at the first None) then `next_back`
          let reps := min k (it.remaining + 1)
          let r := (List.range reps).foldl (fun (s : Outcome (OneIterSt × Bool)) _ =>
            match s with
            | .ok (it, false) => (match OneIterSt.nextBackQ tr m b it with
                | .ok (some _, it') => .ok (it', false)
                | .ok (none, it') => .ok (it', true)
                | .fault e => .fault e)
            | other => other) (.ok (it, false))
          (match r with
           | .ok (it', true) => (acc.1 ++ ["-"], some it')
           | .ok (it', false) => fin (OneIterSt.nextBackQ tr m b it')
           | .fault e => (acc.1 ++ [renderFault e], none))
        | 'l' => (acc.1 ++ [s!"l{it.remaining}"], some it)
        | _ => (acc.1 ++ ["*"], some it)
    let (out, _) := calls.foldl step ([], some it0)
    " ".intercalate out

/-- `bit_vector::Iter` model: (next, limit) with the clamped `nth` / `nth_back` of the code -/
def bitIterRun (b : BitVector) (calls : List String) : String :=
  let get := fun i => render (fun x => s!"s{rBool01 x}") (b.get i)
  let (out, _, _) := calls.foldl (fun (acc : List String × Nat × Nat) c =>
      let (o, nx, lim) := acc
      let k := num (c.drop 1).toString
      match c.front with
      | 'n' => if nx ≥ lim then (o ++ ["-"], nx, lim) else (o ++ [get nx], nx + 1, lim)
      | 'b' => if nx ≥ lim then (o ++ ["-"], nx, lim) else (o ++ [get (lim - 1)], nx, lim - 1)
      | 'N' => let nx := nx + min k (lim - nx)
        if nx ≥ lim then (o ++ ["-"], nx, lim) else (o ++ [get nx], nx + 1, lim)
      | 'B' => let lim := lim - min k (lim - nx)
        if nx ≥ lim then (o ++ ["-"], nx, lim) else (o ++ [get (lim - 1)], nx, lim - 1)
      | 'l' => (o ++ [s!"l{lim - nx}"], nx, lim)
      | _ => (o ++ ["*"], nx, lim)) ([], 0, b.len)
  " ".intercalate out

/-- (rank, position) pairs of the set bits of a reference sequence -/
def onePairs (B : List Bool) : List (Nat × Nat) :=
  (onesPos B).zipIdx.map fun p => (p.2, p.1)

def pairStr (p : Nat × Nat) : String := s!"s{p.1},{p.2}"

def firstOf (tr : Tr) (m : Mode) (b : BitVector) (it : Outcome OneIterSt) : String :=
  match it with
  | .fault e => renderFault e
  | .ok it => match OneIterSt.nextQ tr m b it with
    | .ok (o, _) => rOptPair o
    | .fault e => renderFault e

def splitColon (t : List String) : List String × List String :=
  let pre := t.takeWhile (· ≠ ":")
  (pre, (t.drop (pre.length + 1)))

/-- all bit sources known to the driver, by name -/
def refBits (st : DState) (name : String) : Option (List Bool) :=
  match st.bvs[name]? with
  | some o => some o.s
  | none =>
    match st.sps[name]? with
    | some o => some ((List.range o.n).map fun i => o.vals.contains i)
    | none =>
      match st.rls[name]? with
      | some o => some ((List.range o.len).map fun i => o.runs.any fun r => r.1 ≤ i ∧ i < r.1 + r.2)
      | none => none

/-! ### vectors beyond 2^32 bits

A vector of `len` bits all equal to `fill` except at the (few, sorted) positions `flips`.  Neither the model's word
array nor a `List Bool` reference is materialised at this size: the answers are computed in closed form from the
description and used as BOTH the specification and the model column (so a disagreement is always reported as
`impl ≠ spec`; the model's algorithms are not exercised at this size — the theorems are what covers it). -/
namespace Huge
def bitAt (len : Nat) (fill : Bool) (flips : List Nat) (i : Nat) : Bool := i < len && (fill != flips.contains i)
def ones (len : Nat) (fill : Bool) (flips : List Nat) : Nat := if fill then len - flips.length else flips.length
def rank (len : Nat) (fill : Bool) (flips : List Nat) (i : Nat) : Nat :=
  let j := min i len
  let f := (flips.filter (· < j)).length
  if fill then j - f else f
/-- position of the `r`-th bit equal to `b` -/
def selectB (len : Nat) (fill : Bool) (flips : List Nat) (b : Bool) (r : Nat) : Option Nat :=
  if fill == b then
    let p := flips.foldl (fun p c => if c ≤ p then p + 1 else p) r
    if p < len then some p else none
  else flips[r]?
def predB (len : Nat) (fill : Bool) (flips : List Nat) (x : Nat) : Option (Nat × Nat) :=
  if len = 0 then none else
  let x := min x (len - 1)
  if fill then
    -- walk down over flipped positions (at most `flips.length` steps)
    let rec go : Nat → Nat → Option Nat
      | 0, p => if flips.contains p then none else some p
      | fuel + 1, p => if flips.contains p then (if p = 0 then none else go fuel (p - 1)) else some p
    (go (flips.length + 1) x).map fun p => (rank len fill flips p, p)
  else
    ((flips.filter (· ≤ x)).getLast?).map fun p => (rank len fill flips p, p)
def succB (len : Nat) (fill : Bool) (flips : List Nat) (x : Nat) : Option (Nat × Nat) :=
  if x ≥ len then none else
  if fill then
    let rec go : Nat → Nat → Option Nat
      | 0, _ => none
      | fuel + 1, p => if p ≥ len then none else if flips.contains p then go fuel (p + 1) else some p
    (go (flips.length + 2) x).map fun p => (rank len fill flips p, p)
  else
    ((flips.filter (· ≥ x)).head?).map fun p => (rank len fill flips p, p)
end Huge

def evalHuge (st : DState) (d : Nat × Bool × List Nat) (t : List String) : Eval :=
  let (len, fill, flips) := d
  let both (s : String) (r : String) : Eval := { st := st.note r, model := s, spec := some s }
  match t with
  | ["len"] => both (rNat len) "bv.huge"
  -- serialize + load of any bitvector is the identity and writes `size_in_bytes` bytes (Props/C06 round trip, for all
  -- vectors): the prediction for a vector too large to materialise in the driver
  | ["hreload"] => both "ok 1 1" "bv.huge.reload"
  | ["ones"] => both (rNat (Huge.ones len fill flips)) "bv.huge"
  | ["zeros"] => both (rNat (len - Huge.ones len fill flips)) "bv.huge"
  | ["get", i] => let i := num i
    if i < len then both (rBool01 (Huge.bitAt len fill flips i)) "bv.huge" else { st := st, model := "*" }
  | ["rank", i] => both (rNat (Huge.rank len fill flips (num i))) "bv.huge.rank"
  | ["rank0", i] => let i := num i
    if i ≤ len then both (rNat (i - Huge.rank len fill flips i)) "bv.huge.rank" else { st := st, model := "*" }
  | ["select", r] => both (rOptNat (Huge.selectB len fill flips true (num r))) "bv.huge.select"
  | ["select0", r] => both (rOptNat (Huge.selectB len fill flips false (num r))) "bv.huge.select"
  | ["pred", x] => both (rOptPair (Huge.predB len fill flips (num x))) "bv.huge.pred"
  | ["succ", x] => both (rOptPair (Huge.succB len fill flips (num x))) "bv.huge.succ"
  | _ => { st := st, model := "driver:unknown-huge-op" }

/-- (length, sorted distinct set positions) of any bit source known to the driver — never materialises the bits, so
it also serves sources whose length is near `usize::MAX` -/
def refSet (st : DState) (name : String) : Option (Nat × List Nat) :=
  match st.bvs[name]? with
  | some o => some (o.s.length, onesPos o.s)
  | none =>
    match st.sps[name]? with
    | some o => some (o.n, o.vals.eraseDups)
    | none =>
      match st.rls[name]? with
      | some o => some (o.len, o.runs.flatMap fun r => (List.range r.2).map (· + r.1))
      | none => none

def evalBv (st : DState) (name : String) (t : List String) : Eval :=
  let m := st.mode
  let put (o : BvObj) (regime : String := "") : Eval :=
    { st := { (if regime = "" then st else st.note regime) with bvs := st.bvs.insert name o },
      model := s!"{o.m.len} {o.m.countOnes}", spec := some s!"{o.s.length} {o.s.count true}" }
  match t with
  | "huge" :: len :: fill :: _sup :: flips =>
    let len := num len; let fill := fill == "1"; let flips := flips.map num
    let s := s!"{len} {Huge.ones len fill flips}"
    { st := { (st.note "bv.huge") with huges := st.huges.insert name (len, fill, flips), bvs := st.bvs.erase name }, model := s, spec := some s }
  | "from_raw" :: len :: ws => let len := num len; let ws := ws.map num
    put ⟨BitVector.ofRaw (rawFromWords len ws), bitsFromWords len ws⟩ "bv.from_raw"
  | ["ref", bits] =>
    (match st.bvs[name]? with
     | some o => { st := { st with bvs := st.bvs.insert name ⟨o.m, if bits == "-" then [] else bits.toList.map (· == '1')⟩ }, model := "ok", spec := some "ok" }
     | none => { st := st, model := "panic:no-object" })
  | ["from_bits"] => put ⟨BitVector.ofRaw RawVec.empty, []⟩
  | ["from_bits", s] => let B := s.toList.map (· == '1')
    put ⟨BitVector.ofRaw (RawVec.ofBits B), B⟩ "bv.from_bits"
  | ["of_raw", src] =>
    (match st.raws[src]? with
     | some o => put ⟨BitVector.ofRaw o.m, o.s⟩ "bv.of_raw"
     | none => { st := st, model := "panic:no-object" })
  | [op, src] =>
    if op == "copy_of" || op == "from" then
      match refBits st src with
      | some B =>
        -- copy_bit_vec: with_len(len, false) then set_bit for every one
        let raw := (onesPos B).foldl (fun v i => v.setBit i true) (RawVec.withLen B.length false)
        put ⟨BitVector.ofRaw raw, B⟩ "bv.copy"
      | none => { st := st, model := "panic:no-object" }
    else evalBvQ st name t m
  | _ => evalBvQ st name t m
where
  evalBvQ (st : DState) (name : String) (t : List String) (m : Mode) : Eval :=
    match st.bvs[name]? with
    | none => (match st.huges[name]? with
        | some d => evalHuge st d t
        | none => { st := st, model := "panic:no-object" })
    | some o =>
      let b := o.m
      let B := o.s
      let res (model : String) (spec : Option String) (r : String := "") : Eval :=
        { st := if r = "" then st else st.note r, model := model, spec := spec }
      match t with
      | ["enable", flags] =>
        let b' := flags.toList.foldl (fun b c => match c with
          | 'r' => b.enableRank | 's' => b.enableSelect | 'z' => b.enableSelectZero
          | 'p' => b.enableRank.enableSelect | _ => b) b
        { st := { st with bvs := st.bvs.insert name ⟨b', B⟩ }, model := "ok", spec := some "ok" }
      | ["supports"] =>
        res s!"{rBool01 b.rank.isSome} {rBool01 b.select.isSome} {rBool01 b.selectZero.isSome} {rBool01 (b.rank.isSome && b.select.isSome)}" none
      | ["eq", other] =>
        (match st.bvs[other]? with
         | some o2 => res (toString (decide (b = o2.m))) none "bv.eq"
         | none => res "panic:no-object" none)
      | ["len"] => res (rNat b.len) (some (rNat B.length))
      | ["ones"] => res (rNat b.countOnes) (some (rNat (B.count true)))
      | ["zeros"] => res (rNat b.countZeros) (some (rNat (B.count false)))
      | ["get", i] => let i := num i
        res (render rBool01 (b.get i)) (if i < B.length then some (rBool01 (B[i]?.getD false)) else none) "bv.get"
      | ["rank", i] => let i := num i
        let regime := if i ≥ B.length then "bv.rank.clamp" else if i % 512 < 64 then "bv.rank.word0" else "bv.rank"
        res (render rNat (b.rankQ i)) (some (rNat (rankSpec B i))) regime
      | ["rank0", i] => let i := num i
        res (render rNat (b.rankZeroQ m i)) (if i ≤ B.length then some (rNat (i - rankSpec B i)) else none) "bv.rank0"
      | ["select", r] => let r := num r
        res (render rOptNat (b.selectQ m r)) (some (rOptNat (selectSpec B r)))
          (if r ≥ B.count true then "bv.select.none" else if r % 4096 = 0 then "bv.select.sample" else selRegime b.select r)
      | ["select0", r] => let r := num r
        res (render rOptNat (b.selectZeroQ m r)) (some (rOptNat (selectZeroSpec B r)))
          (if r ≥ B.count false then "bv.select0.none" else if r % 4096 = 0 then "bv.select0.sample" else "z" ++ selRegime b.selectZero r)
      | ["pred", x] => let x := num x
        res (firstOf .ident m b (b.predecessorQ m x)) (some (rOptPair (predSpec B x))) "bv.pred"
      | ["succ", x] => let x := num x
        res (firstOf .ident m b (b.successorQ m x)) (some (rOptPair (succSpec B x))) "bv.succ"
      | ["doc"] | ["ser"] => res (rWords (bitVectorC.ser b)) none "bv.ser"
      -- public safe support-level API.  In range: exact value (spec from the reference bits).  Out of range the
      -- documentation says "may panic": no spec.  For `T::word` the model states exactly what the code does; for the two
      -- support structures the model only states "a panic or some value, never an out-of-range read" (`*`; the
      -- outcome `oob` reported by the bounds hooks is what C08 forbids)
      | ["tword", tr, i] => let i := num i
        let tr := if tr == "C" then Tr.compl else Tr.ident
        let TB := bitsT tr B
        let spec := if 64 * i < B.length then
            some (rNat ((List.range 64).foldl (fun acc k => if TB[64 * i + k]?.getD false then acc + 2 ^ k else acc) 0))
          else none
        res (render (fun w : Word => rNat w.toNat) (wordSafeT tr b.data i)) spec
          (if 64 * i < B.length then "bv.tword" else "bv.tword.outside")
      | ["tbit", tr, i] => let i := num i
        let neg := tr == "C"
        res (render (fun x : Bool => rBool01 (x != neg)) (b.get i))
          (if i < B.length then some (rBool01 ((B[i]?.getD false) != neg)) else none) "bv.tbit"
      | ["sup", "rank", i] => let i := num i
        let inr := i < B.length
        let out := safely ((RankSup.build b.data).rankU b.data i)
        res (if inr then render rNat out else "*")
          (if inr then some (rNat (rankSpec B i)) else none) (if inr then "bv.sup.rank" else "bv.sup.rank.outside")
      | ["sup", "sel", tr, r] => let r := num r
        let tr := if tr == "C" then Tr.compl else Tr.ident
        let TB := bitsT tr B
        let inr := r < TB.count true
        let out := safely ((SelSup.build b.len (positionsT tr b.data)).selectU tr m b.data r)
        res (if inr then render rNat out else "*")
          (if inr then (selectSpec TB r).map rNat else none) (if inr then "bv.sup.sel" else "bv.sup.sel.outside")
      | "it" :: rest =>
        let (pre, calls) := splitColon rest
        (match pre with
         | ["bits"] => res (bitIterRun b calls) (some (dequeRun (fun x => s!"s{rBool01 x}") B calls)) "bv.it.bits"
         | ["one"] => res (oneIterRun .ident m b (.ok (OneIterSt.full .ident b)) calls)
             (some (dequeRun pairStr (onePairs B) calls)) "bv.it.one"
         | ["zero"] => res (oneIterRun .compl m b (.ok (OneIterSt.full .compl b)) calls)
             (some (dequeRun pairStr (onePairs (B.map not)) calls)) "bv.it.zero"
         | ["sel", r] => let r := num r
           res (oneIterRun .ident m b (b.selectIterT .ident m r) calls)
             (some (dequeRun pairStr ((onePairs B).drop r) calls)) "bv.it.sel"
         | ["sel0", r] => let r := num r
           res (oneIterRun .compl m b (b.selectIterT .compl m r) calls)
             (some (dequeRun pairStr ((onePairs (B.map not)).drop r) calls)) "bv.it.sel0"
         | ["pred", x] => let x := num x
           let k := match predSpec B x with | some (r, _) => r | none => (B.count true)
           res (oneIterRun .ident m b (b.predecessorQ m x) calls)
             (some (dequeRun pairStr ((onePairs B).drop k) calls)) "bv.it.pred"
         | ["succ", x] => let x := num x
           let k := match succSpec B x with | some (r, _) => r | none => (B.count true)
           res (oneIterRun .ident m b (b.successorQ m x) calls)
             (some (dequeRun pairStr ((onePairs B).drop k) calls)) "bv.it.succ"
         | _ => res "driver:unknown-bv-iter" none)
      | _ => res "driver:unknown-bv-op" none
  selRegime (s : Option SelSup) (r : Nat) : String :=
    match s with
    | none => "bv.select.nosupport"
    | some s =>
      match s.samples.get (2 * (r / 4096) + 1) with
      | .ok p =>
        let later := if p.toNat / 2 > 0 then ".later" else ""
        if p.toNat % 2 = 0 then "bv.select.long" ++ later else if r % 64 = 0 then "bv.select.short.block" else "bv.select.short.scan" ++ later
      | .fault _ => "bv.select.badsample"

end Sds.Driver
