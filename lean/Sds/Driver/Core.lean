/-
Driver/Core: line protocol plumbing — parsing, canonical rendering, the object table, statistics.
The driver replays the harness transcript on the *model* and on the *spec* and reports, per line,
whether impl = model and impl = spec.  (Driver code is not part of any theorem.)
-/
import Std.Data.HashMap
import Sds.Model.WM
import Sds.Model.RL
import Sds.Model.Writer
import Sds.Model.Mapper
import Sds.Model.Iter
import Sds.Spec.Bits

namespace Sds.Driver
open Sds Outcome

def num (s : String) : Nat := s.toNat?.getD 0

def renderFault : Fault → String
  | .oob => "oob"
  | .fuel => "fuel"
  | .panic .overflow => "panic:overflow"
  | .panic .index => "panic:index"
  | .panic .unwrap => "panic:unwrap"
  | .panic .assert => "panic:assert"
  | .panic .other => "panic:other"
  | .err .eof => "err:eof"
  | .err .invalid => "err:invalid"
  | .err .other => "err:other"

def render {α} (f : α → String) : Outcome α → String
  | .ok a => f a
  | .fault e => renderFault e

def rNat (n : Nat) : String := toString n
def rWord (w : Word) : String := toString w.toNat
def rBool01 (b : Bool) : String := if b then "1" else "0"
def rOptNat : Option Nat → String | some n => s!"some {n}" | none => "none"
def rOptPair : Option (Nat × Nat) → String | some (a, b) => s!"some {a} {b}" | none => "none"
def rWords (ws : List Word) : String := " ".intercalate (ws.map rWord)
def rNats (ws : List Nat) : String := " ".intercalate (ws.map toString)

/-- comparison is insensitive to the *kind* of panic (the properties only distinguish panic / value / oob) -/
def normTok (t : String) : String :=
  if t.startsWith "panic" then "panic" else t

def normalize (s : String) : String :=
  " ".intercalate (((s.splitOn " ").filter (· ≠ "")).map normTok)

structure RawObj where
  m : RawVec
  s : List Bool
  deriving Inhabited

structure IvObj where
  m : IntVec
  w : Nat
  s : List Nat
  deriving Inhabited

structure BvObj where
  m : BitVector
  s : List Bool
  deriving Inhabited

/-- sparse vector: model + reference (universe, sorted values, multiset flag) -/
structure SpObj where
  m : Sparse
  n : Nat
  vals : List Nat
  deriving Inhabited

/-- run-length vector: model + reference (length, sorted set positions as runs) -/
structure RlObj where
  m : RL
  len : Nat
  runs : List (Nat × Nat)
  deriving Inhabited

structure WmObj where
  m : WM
  vals : List Nat
  deriving Inhabited

structure DState where
  mode : Mode := .checked
  bmi2 : Bool := true
  raws : Std.HashMap String RawObj := {}
  ivs : Std.HashMap String IvObj := {}
  bvs : Std.HashMap String BvObj := {}
  sps : Std.HashMap String SpObj := {}
  rls : Std.HashMap String RlObj := {}
  wms : Std.HashMap String WmObj := {}
  /-- plain bitvectors beyond 2^32 bits, described as (length, fill bit, sorted flipped positions); evaluated in closed
  form only (see Driver/Bv.lean `evalHuge`) -/
  huges : Std.HashMap String (Nat × Bool × List Nat) := {}
  /-- raw vectors beyond 2^32 bits as run-length segments (count, bit), oldest first; closed-form evaluation only -/
  hraws : Std.HashMap String (List (Nat × Bool)) := {}
  regimes : Std.HashMap String Nat := {}
  deriving Inhabited

def DState.reset (st : DState) : DState :=
  { st with raws := {}, ivs := {}, bvs := {}, sps := {}, rls := {}, wms := {}, huges := {}, hraws := {} }

def DState.note (st : DState) (r : String) : DState :=
  { st with regimes := st.regimes.insert r (st.regimes.getD r 0 + 1) }

/-- result of evaluating one recipe: model outcome, spec outcome (none = the spec does not constrain it) -/
structure Eval where
  st : DState
  model : String
  spec : Option String := none

end Sds.Driver
