-- Root of the `Sds` library: the model (core Lean only), specs, proofs and property theorems.
import Sds.Model.Basic
import Sds.Model.Bits
import Sds.Model.Atomic
import Sds.Generated.Tables
import Sds.Generated.Consts
import Sds.Generated.TempName
