// Generators for the remaining properties.
use crate::gen::*;

pub fn dispatch(prop: &str, g: &mut Gen) {
    match prop {
        "C05" => { c05(g); clones(g, &["raw", "iv"]); },
        "C01" => { crate::gen_bv::c01(g); clones(g, &["bv"]); },
        "C09" => crate::gen_bv::c09(g),
        "C08" => crate::gen_bv::c08(g),
        "C10" => crate::gen_bv::c10(g),
        "C02" => { crate::gen_sp::c02(g); clones(g, &["sp"]); },
        "C15" => crate::gen_sp::c15(g),
        "C16" => crate::gen_sp::c16(g),
        "C03" => { crate::gen_rl::c03(g); clones(g, &["rl"]); },
        "C11" => { crate::gen_rl::c11(g); clones(g, &["raw", "iv", "bv", "sp", "rl", "wm"]); },
        "C04" => { crate::gen_wm::c04(g); clones(g, &["wm"]); },
        "C06" => crate::gen_ser::c06(g),
        "C07" => crate::gen_ser::c07(g),
        "C12" => crate::gen_ser::c12(g),
        "C13" => crate::gen_ser::c13(g),
        "C14" => crate::gen_ser::c14(g),
        "C18" => crate::gen_ser::c18(g),
        "C19" => crate::gen_ser::c19(g),
        "C20" => crate::gen_ser::c20(g),
        // per-structure parts of the boundary (C09) and iterator-history (C10) generators, so that the check of a
        // structure's own property also runs them
        "C09bv" => crate::gen_bv::c09_bv(g),
        "C09sp" => crate::gen_sp::c09_sp(g),
        "C09rl" => crate::gen_rl::c09_rl(g),
        "C09wm" => crate::gen_wm::c09_wm(g),
        "C10bv" => crate::gen_bv::c10_bv(g),
        "C10sp" => crate::gen_sp::c10_sp(g),
        "C10rl" => crate::gen_rl::c10_rl(g),
        "C10wm" => crate::gen_wm::c10_wm(g),
        _ => panic!("harness: no generator for property {}", prop),
    }
}

fn mask(w: u64) -> u64 { if w >= 64 { !0 } else { (1u64 << w) - 1 } }

// ---------------------------------------------------------------------------------------------
// C05: raw and integer vectors under any operation history

/// One iv history; `ops` are indices into the op alphabet. The generator keeps its own reference list so that it
/// can emit the "freshly built equal vector" comparison at the end.
pub fn iv_history(g: &mut Gen, w: u64, ops: &[usize], check_every: bool) -> Vec<String> {
    let mut lines = vec![format!("iv A new {}", w)];
    let mut items: Vec<u64> = Vec::new();
    let mut width = w;
    for op in ops {
        let big = g.rng.next() | (1u64 << 63) | 1;
        let small = g.rng.below(4);
        match op {
            0 => { lines.push(format!("iv A push {}", big)); items.push(big & mask(width)); },
            1 => { lines.push(format!("iv A push {}", small)); items.push(small & mask(width)); },
            2 => { lines.push("iv A pop".to_string()); items.pop(); },
            3 => { if !items.is_empty() { lines.push(format!("iv A set 0 {}", big)); items[0] = big & mask(width); } },
            4 => { if !items.is_empty() { let i = items.len() - 1; lines.push(format!("iv A set {} {}", i, small)); items[i] = small & mask(width); } },
            5 => { let n = items.len() + 1 + g.rng.below(3) as usize; lines.push(format!("iv A resize {} {}", n, big)); items.resize(n, big & mask(width)); },
            6 => { let n = items.len().saturating_sub(1 + g.rng.below(2) as usize); lines.push(format!("iv A resize {} {}", n, small)); items.truncate(n); },
            7 => { lines.push("iv A clear".to_string()); items.clear(); },
            8 => {
                lines.push("iv A pack".to_string());
                if !items.is_empty() { let m = *items.iter().max().unwrap(); width = 64 - (m | 1).leading_zeros() as u64; }
            },
            9 => { let a = g.rng.next(); let b = g.rng.below(2); lines.push(format!("iv A extend {} {}", a, b)); items.push(a & mask(width)); items.push(b & mask(width)); },
            10 => { if !items.is_empty() { let i = g.rng.below(items.len() as u64); lines.push(format!("iv A get {}", i)); } },
            11 => { lines.push(format!("iv A reserve {}", g.rng.below(100))); },
            _ => unreachable!(),
        }
        if check_every { lines.push("iv A items".to_string()); }
    }
    // same width + same content, produced differently => equal, identical bytes
    lines.push(format!("iv B new {}", width));
    if !items.is_empty() {
        lines.push(format!("iv B extend {}", items.iter().map(|x| x.to_string()).collect::<Vec<_>>().join(" ")));
    }
    lines.push("iv A eq B".to_string());
    lines.push("iv A ser".to_string());
    lines.push("iv B ser".to_string());
    lines.push("iv A items".to_string());
    lines
}

pub fn raw_history(g: &mut Gen, ops: &[usize]) -> Vec<String> {
    let mut lines = vec!["raw A new".to_string()];
    let mut len: u64 = 0;
    let mut bits: Vec<bool> = Vec::new();
    for op in ops {
        match op {
            0 => { let b = g.rng.below(2); lines.push(format!("raw A push_bit {}", b)); bits.push(b == 1); len += 1; },
            1 => {
                let w = match g.rng.below(6) { 0 => 64, 1 => 1, 2 => 63, 3 => 0, _ => g.rng.range(1, 64) };
                let v = g.rng.word();
                lines.push(format!("raw A push_int {} {}", v, w));
                for i in 0..w { bits.push((v >> i) & 1 == 1); }
                len += w;
            },
            2 => { lines.push("raw A pop_bit".to_string()); if len > 0 { bits.pop(); len -= 1; } },
            3 => {
                let w = match g.rng.below(5) { 0 => 64, 1 => 1, 2 => 0, _ => g.rng.range(1, 64) };
                lines.push(format!("raw A pop_int {}", w));
                if len >= w { for _ in 0..w { bits.pop(); } len -= w; }
            },
            4 => { if len > 0 { let i = if g.rng.chance(1, 3) { len - 1 } else { g.rng.below(len) }; let b = g.rng.below(2); lines.push(format!("raw A set_bit {} {}", i, b)); bits[i as usize] = b == 1; } },
            5 => {
                if len > 0 {
                    let w = std::cmp::min(len, match g.rng.below(4) { 0 => 64, 1 => 1, _ => g.rng.range(1, 64) });
                    let off = if g.rng.chance(1, 3) { len - w } else { g.rng.below(len - w + 1) };
                    let v = g.rng.word();
                    lines.push(format!("raw A set_int {} {} {}", off, v, w));
                    for i in 0..w { bits[(off + i) as usize] = (v >> i) & 1 == 1; }
                }
            },
            6 => { let n = len + g.rng.range(1, 130); let b = g.rng.below(2); lines.push(format!("raw A resize {} {}", n, b)); bits.resize(n as usize, b == 1); len = n; },
            7 => { let n = len.saturating_sub(g.rng.range(1, 70)); let b = g.rng.below(2); lines.push(format!("raw A resize {} {}", n, b)); bits.truncate(n as usize); len = n; },
            8 => { lines.push("raw A clear".to_string()); bits.clear(); len = 0; },
            9 => {
                if len > 0 {
                    let w = std::cmp::min(len, g.rng.range(1, 64));
                    let off = g.rng.below(len - w + 1);
                    lines.push(format!("raw A int {} {}", off, w));
                    lines.push(format!("raw A bit {}", g.rng.below(len)));
                }
            },
            10 => { lines.push(format!("raw A reserve {}", g.rng.below(1000))); },
            _ => unreachable!(),
        }
    }
    // an equal vector produced by a different route: word-wise construction from the reference bits
    let mut words: Vec<u64> = vec![0; (bits.len() + 63) / 64];
    for (i, b) in bits.iter().enumerate() { if *b { words[i / 64] |= 1u64 << (i % 64); } }
    lines.push(format!("raw B from_words {} {}", bits.len(), words.iter().map(|x| x.to_string()).collect::<Vec<_>>().join(" ")));
    lines.push("raw A eq B".to_string());
    lines.push("raw A ser".to_string());
    lines.push("raw B ser".to_string());
    lines.push("raw C complement_of A".to_string());
    lines
}

fn c05(g: &mut Gen) {
    // "no matter how they were produced": vectors produced by saving and loading
    crate::gen_ser::iv_reload_groups(g);
    // beyond 2^32 bits (count of set bits and lengths must be full-width): thorough scale only, ~0.6 GiB for a moment
    if g.thorough {
        let big: u64 = (1u64 << 32) + 70;
        g.group(vec![format!("raw H huge {} 1", big), "raw H hcount".to_string(), format!("raw H bit {}", big - 1), format!("raw H hset_bit {} 0", 1u64 << 32),
                     "raw H hpush_bit 1".to_string(), format!("raw H hresize {} 0", big + 200), format!("raw H bit {}", big + 100), format!("raw H hresize {} 1", (1u64 << 32) + 3), "raw H hcount".to_string()]);
        g.group(vec!["raw H huge 0 1".to_string(), format!("raw H hresize {} 1", big), "raw H hcount".to_string(), format!("raw H hresize {} 0", 77), "raw H hcount".to_string()]);
    }
    // exhaustive short histories over the op alphabet, widths at the extremes
    let depth = if g.thorough { 4 } else { 3 };
    let alphabet: Vec<usize> = (0..10).collect();
    for w in [1u64, 7, 63, 64] {
        let mut seq = vec![0usize; depth];
        loop {
            let ops: Vec<usize> = seq.iter().map(|i| alphabet[*i]).collect();
            let lines = iv_history(g, w, &ops, false);
            g.group(lines);
            let mut k = 0;
            loop {
                if k == depth { break; }
                seq[k] += 1;
                if seq[k] < alphabet.len() { break; }
                seq[k] = 0; k += 1;
            }
            if k == depth { break; }
        }
    }
    // random histories over all widths, with values wider than the width
    let nhist = if g.thorough { 2000 } else { 200 };
    for i in 0..nhist {
        let w = 1 + (i as u64 % 64);
        let n = g.rng.range(5, 60) as usize;
        let ops: Vec<usize> = (0..n).map(|_| { let r = g.rng.below(20); if r < 7 { 0 } else if r < 9 { 1 } else { (r - 7) as usize } }).collect();
        let ops: Vec<usize> = ops.into_iter().map(|o| if o > 11 { 0 } else { o }).collect();
        let lines = iv_history(g, w, &ops, i % 10 == 0);
        g.group(lines);
    }
    // constructors: fill values, invalid widths
    let mut lines = Vec::new();
    for w in [0u64, 1, 2, 7, 13, 63, 64, 65, 1000] {
        lines.push(format!("iv X new {}", w));
        lines.push(format!("iv X with_len 5 {} {}", w, u64::MAX));
        // fill values wider than the width, with every combination of low bit / high bits (truncation keeps the low bits)
        for (k, v) in [0u64, 1, 2, 3, 6, u64::MAX - 1, 1u64 << 63, (1u64 << 63) + 1, 0xAAAA_AAAA_AAAA_AAAA, 0x5555_5555_5555_5555].iter().enumerate() {
            lines.push(format!("iv X with_len {} {} {}", [0usize, 1, 5, 64, 70, 130][k % 6], w, v));
            lines.push("iv X items".to_string());
        }
        lines.push(format!("iv X with_capacity 5 {}", w));
    }
    // pack() at the width boundaries: the largest item is exactly 2^k − 1, 2^k, 2^k + 1 (and the vector is already minimal or not)
    for k in [1u64, 2, 6, 7, 8, 12, 31, 32, 33, 62, 63] {
        for top in [(1u64 << k) - 1, 1u64 << k, (1u64 << k) + 1, (1u64 << (k - 1)).saturating_sub(1)] {
            for w0 in [k, k + 1, 64] {
                if w0 > 64 { continue; }
                lines.push(format!("iv P new {}", w0)); lines.push(format!("iv P push {}", top)); lines.push("iv P push 0".to_string()); lines.push(format!("iv P push {}", top / 2));
                lines.push("iv P pack".to_string()); lines.push("iv P ser".to_string());
            }
        }
    }
    for ty in ["u8", "u16", "u32", "u64", "usize", "iter64"] {
        lines.push(format!("iv V from_vec {} 1 2 300 70000 5000000000 0", ty));
        lines.push("iv V pack".to_string());
        lines.push("iv V it n b N1 l B0 n n n".to_string());
    }
    g.group(lines);
    // raw histories
    let nraw = if g.thorough { 3000 } else { 300 };
    for _ in 0..nraw {
        let n = g.rng.range(3, 40) as usize;
        let ops: Vec<usize> = (0..n).map(|_| { let r = g.rng.below(16); if r < 3 { 0 } else if r < 7 { 1 } else { (r - 5) as usize } }).collect();
        let lines = raw_history(g, &ops);
        g.group(lines);
    }
    // with_len with both fill values at word boundaries, then grow/shrink
    let mut lines = Vec::new();
    for n in [0u64, 1, 63, 64, 65, 127, 128, 129, 200] {
        for b in [0, 1] {
            lines.push(format!("raw W with_len {} {}", n, b));
            lines.push(format!("raw W resize {} {}", n + 3, 1 - b));
            lines.push(format!("raw W resize {} {}", n / 2, b));
            lines.push("raw W pop_int 7".to_string());
            lines.push("raw W ser".to_string());
        }
    }
    g.group(lines);
}


/// `Clone::clone` of every structure type: the copy answers like the original, is equal to it, serializes to the same
/// bytes, and — for the mutable types — is unaffected by what happens to the original afterwards
pub fn clones(g: &mut Gen, kinds: &[&str]) {
    for &size in &[0usize, 1, 64, 200, 4200] {
        let bits = crate::gen_bv::make_bits(g, size, if size > 1000 { 2 } else { 6 });
        let ones: Vec<u64> = bits.iter().enumerate().filter(|(_, b)| **b).map(|(i, _)| i as u64).collect();
        let ws = |v: &[u64]| v.iter().map(|x| x.to_string()).collect::<Vec<_>>().join(" ");
        let probes: Vec<usize> = vec![0, 1, size / 3, size / 2, size.saturating_sub(1), size, size + 1];
        for &k in kinds {
            let mut lines: Vec<String> = Vec::new();
            match k {
                "raw" => {
                    lines.push(format!("raw A from_words {} {}", size, crate::gen_bv::words_of_bits(&bits)));
                    lines.push("obj clone A B".to_string());
                    lines.push("raw A push_int 12345 17".to_string()); lines.push("raw A push_bit 1".to_string());
                    if size > 0 { lines.push(format!("raw A set_bit {} {}", size / 2, if bits[size / 2] { 0 } else { 1 })); }
                    lines.push("raw B state".to_string()); lines.push("raw B ser".to_string());
                    for &i in &probes { if i < size { lines.push(format!("raw B bit {}", i)); } }
                    lines.push("obj clone B C".to_string()); lines.push("raw C eq B".to_string()); lines.push("raw B push_bit 1".to_string()); lines.push("raw C state".to_string());
                }
                "iv" => {
                    let w = [1u64, 7, 13, 33, 64][size % 5];
                    let n = std::cmp::min(size, 300);
                    let items: Vec<u64> = (0..n).map(|_| g.rng.next() & if w == 64 { !0 } else { (1u64 << w) - 1 }).collect();
                    lines.push(format!("iv A new {}", w)); if !items.is_empty() { lines.push(format!("iv A extend {}", ws(&items))); }
                    lines.push("obj clone A B".to_string());
                    lines.push("iv A push 1".to_string()); if n > 0 { lines.push(format!("iv A set {} 0", n / 2)); lines.push("iv A pop".to_string()); lines.push("iv A pop".to_string()); }
                    lines.push("iv B state".to_string()); lines.push("iv B items".to_string()); lines.push("iv B ser".to_string());
                    lines.push("obj clone B C".to_string()); lines.push("iv C eq B".to_string()); lines.push("iv B push 0".to_string()); lines.push("iv C state".to_string()); lines.push("iv C items".to_string());
                }
                "bv" => {
                    for sub in ["", "r", "sz", "rsz"] {
                        lines.push(format!("bv A from_raw {} {}", size, crate::gen_bv::words_of_bits(&bits)));
                        if !sub.is_empty() { lines.push(format!("bv A enable {}", sub)); }
                        lines.push("obj clone A B".to_string()); lines.push("bv B supports".to_string()); lines.push("bv B eq A".to_string()); lines.push("bv B ser".to_string());
                        lines.push("bv A enable rsz".to_string()); lines.push("bv B supports".to_string());
                        lines.push("bv B enable rsz".to_string());
                        for &i in &probes { lines.push(format!("bv B rank {}", i)); lines.push(format!("bv B select {}", i / 2)); lines.push(format!("bv B select0 {}", i / 2)); lines.push(format!("bv B pred {}", i)); lines.push(format!("bv B succ {}", i)); }
                        lines.push("bv B it one : n b l n b".to_string());
                    }
                }
                "sp" => {
                    lines.push(format!("sp A build {} 0 {}", size, ws(&ones)).trim_end().to_string());
                    lines.push("obj clone A B".to_string()); lines.push("drop A".to_string());
                    lines.push("sp B len".to_string()); lines.push("sp B ones".to_string()); lines.push("sp B ser".to_string());
                    for &i in &probes { if i < size { lines.push(format!("sp B get {}", i)); } lines.push(format!("sp B rank {}", i)); lines.push(format!("sp B select {}", i / 2)); lines.push(format!("sp B select0 {}", i / 2)); lines.push(format!("sp B pred {}", i)); lines.push(format!("sp B succ {}", i)); }
                    lines.push("sp B it one : n b l n b".to_string());
                }
                "rl" => {
                    let mut runs: Vec<(u64, u64)> = Vec::new();
                    for &p in &ones { if let Some(l) = runs.last_mut() { if l.0 + l.1 == p { l.1 += 1; continue; } } runs.push((p, 1)); }
                    let calls: Vec<String> = runs.iter().map(|(a, l)| format!("s{},{}", a, l)).collect();
                    lines.push(format!("rl A build : {} l{}", calls.join(" "), size).replace(":  l", ": l"));
                    lines.push("obj clone A B".to_string()); lines.push("drop A".to_string());
                    lines.push("rl B len".to_string()); lines.push("rl B ones".to_string()); lines.push("rl B runs".to_string()); lines.push("rl B ser".to_string());
                    for &i in &probes { if i < size { lines.push(format!("rl B get {}", i)); } lines.push(format!("rl B rank {}", i)); lines.push(format!("rl B select {}", i / 2)); lines.push(format!("rl B select0 {}", i / 2)); lines.push(format!("rl B pred {}", i)); lines.push(format!("rl B succ {}", i)); }
                }
                "wm" => {
                    let n = std::cmp::min(size, 400);
                    let vals: Vec<u64> = (0..n).map(|_| g.rng.below(if size % 2 == 0 { 9 } else { 700 })).collect();
                    lines.push(format!("wm A from u64 {}", ws(&vals)).trim_end().to_string());
                    lines.push("obj clone A B".to_string()); lines.push("drop A".to_string());
                    lines.push("wm B len".to_string()); lines.push("wm B width".to_string()); lines.push("wm B items".to_string()); lines.push("wm B ser".to_string());
                    for v in [0u64, 1, 5, 8, 9, 699] { for &i in &probes { if i <= n { lines.push(format!("wm B rank {} {}", i, v)); lines.push(format!("wm B pred {} {}", i, v)); lines.push(format!("wm B succ {} {}", i, v)); } } lines.push(format!("wm B select 1 {}", v)); lines.push(format!("wm B contains {}", v)); }
                }
                _ => panic!("clones: unknown kind"),
            }
            g.group(lines);
        }
        // `clone_from` into an EXISTING object of the same kind that has its own content, size and supports
        let other = crate::gen_bv::make_bits(g, [130usize, 0, 4200, 64, 1][size % 5], 3);
        let oth_ones: Vec<u64> = other.iter().enumerate().filter(|(_, b)| **b).map(|(i, _)| i as u64).collect();
        for &k in kinds {
            let mut lines: Vec<String> = Vec::new();
            match k {
                "raw" => {
                    lines.push(format!("raw S from_words {} {}", size, crate::gen_bv::words_of_bits(&bits)));
                    lines.push(format!("raw D from_words {} {}", other.len(), crate::gen_bv::words_of_bits(&other)));
                    lines.push("obj clone_from S D".to_string()); lines.push("raw D state".to_string()); lines.push("raw D ser".to_string()); lines.push("raw D eq S".to_string());
                    lines.push("raw D push_int 77 9".to_string()); lines.push("raw D state".to_string()); lines.push("raw S state".to_string());
                }
                "iv" => {
                    lines.push("iv S new 9".to_string()); lines.push(format!("iv S extend {}", ws(&ones.iter().map(|x| x % 512).collect::<Vec<_>>())).trim_end().to_string());
                    lines.push("iv D new 33".to_string()); lines.push(format!("iv D extend {}", ws(&oth_ones)).trim_end().to_string());
                    lines.push("obj clone_from S D".to_string()); lines.push("iv D state".to_string()); lines.push("iv D items".to_string()); lines.push("iv D ser".to_string()); lines.push("iv D eq S".to_string());
                    lines.push("iv D push 3".to_string()); lines.push("iv D state".to_string()); lines.push("iv S state".to_string());
                }
                "bv" => {
                    for (ssub, dsub) in [("", "rsz"), ("r", "sz"), ("rsz", ""), ("s", "s")] {
                        lines.push(format!("bv S from_raw {} {}", size, crate::gen_bv::words_of_bits(&bits)));
                        if !ssub.is_empty() { lines.push(format!("bv S enable {}", ssub)); }
                        lines.push(format!("bv D from_raw {} {}", other.len(), crate::gen_bv::words_of_bits(&other)));
                        if !dsub.is_empty() { lines.push(format!("bv D enable {}", dsub)); }
                        lines.push("obj clone_from S D".to_string()); lines.push("bv D supports".to_string()); lines.push("bv D eq S".to_string()); lines.push("bv D ser".to_string());
                        lines.push("bv D enable rsz".to_string());
                        for &i in &probes { lines.push(format!("bv D rank {}", i)); lines.push(format!("bv D select {}", i / 2)); lines.push(format!("bv D select0 {}", i / 2)); lines.push(format!("bv D pred {}", i)); lines.push(format!("bv D succ {}", i)); }
                    }
                }
                "sp" => {
                    lines.push(format!("sp S build {} 0 {}", size, ws(&ones)).trim_end().to_string());
                    lines.push(format!("sp D build {} 0 {}", other.len(), ws(&oth_ones)).trim_end().to_string());
                    lines.push("obj clone_from S D".to_string()); lines.push("sp D len".to_string()); lines.push("sp D ones".to_string()); lines.push("sp D ser".to_string());
                    for &i in &probes { lines.push(format!("sp D rank {}", i)); lines.push(format!("sp D select {}", i / 2)); lines.push(format!("sp D pred {}", i)); lines.push(format!("sp D succ {}", i)); }
                }
                "rl" => {
                    let mk = |os: &Vec<u64>, n: usize| { let mut runs: Vec<(u64, u64)> = Vec::new(); for &p in os { if let Some(l) = runs.last_mut() { if l.0 + l.1 == p { l.1 += 1; continue; } } runs.push((p, 1)); }
                        let calls: Vec<String> = runs.iter().map(|(a, l)| format!("s{},{}", a, l)).collect(); format!("{} l{}", calls.join(" "), n).trim_start().to_string() };
                    lines.push(format!("rl S build : {}", mk(&ones, size))); lines.push(format!("rl D build : {}", mk(&oth_ones, other.len())));
                    lines.push("obj clone_from S D".to_string()); lines.push("rl D len".to_string()); lines.push("rl D ones".to_string()); lines.push("rl D runs".to_string()); lines.push("rl D ser".to_string());
                    for &i in &probes { lines.push(format!("rl D rank {}", i)); lines.push(format!("rl D select {}", i / 2)); lines.push(format!("rl D pred {}", i)); lines.push(format!("rl D succ {}", i)); }
                }
                "wm" => {
                    let n = std::cmp::min(size, 300);
                    let vals: Vec<u64> = (0..n).map(|_| g.rng.below(11)).collect();
                    let ovals: Vec<u64> = (0..std::cmp::min(other.len(), 200)).map(|_| g.rng.below(5000)).collect();
                    lines.push(format!("wm S from u64 {}", ws(&vals)).trim_end().to_string()); lines.push(format!("wm D from u64 {}", ws(&ovals)).trim_end().to_string());
                    lines.push("obj clone_from S D".to_string()); lines.push("wm D len".to_string()); lines.push("wm D width".to_string()); lines.push("wm D items".to_string()); lines.push("wm D ser".to_string());
                    for v in [0u64, 1, 5, 10, 11, 4999] { lines.push(format!("wm D rank {} {}", n / 2, v)); lines.push(format!("wm D select 1 {}", v)); lines.push(format!("wm D contains {}", v)); }
                }
                _ => panic!("clones: unknown kind"),
            }
            g.group(lines);
        }
    }
}
