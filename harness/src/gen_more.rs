// Generators for the remaining properties.
use crate::gen::*;

pub fn dispatch(prop: &str, _g: &mut Gen) {
    match prop {
        _ => panic!("harness: no generator for property {}", prop),
    }
}
