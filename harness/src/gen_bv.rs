// Generators for the plain bitvector: C01 (answers), C09 (totality), C08 (memory safety: same recipes, hooks on),
// C10 (iterator call histories).
use crate::gen::*;

pub fn words_of_bits(bits: &[bool]) -> String {
    let mut words: Vec<u64> = vec![0; (bits.len() + 63) / 64];
    for (i, b) in bits.iter().enumerate() { if *b { words[i / 64] |= 1u64 << (i % 64); } }
    words.iter().map(|x| x.to_string()).collect::<Vec<_>>().join(" ")
}

pub fn bitstring(bits: &[bool]) -> String {
    bits.iter().map(|b| if *b { '1' } else { '0' }).collect()
}

/// Bit sequences for a regime: density num/den, optionally clustered / run-structured.
pub fn make_bits(g: &mut Gen, len: usize, kind: usize) -> Vec<bool> {
    let mut v = vec![false; len];
    match kind {
        0 => (),                                                         // all zero
        1 => { for b in v.iter_mut() { *b = true; } },                   // all one
        2 => { for b in v.iter_mut() { *b = g.rng.chance(1, 2); } },     // dense uniform
        3 => { for b in v.iter_mut() { *b = g.rng.chance(1, 100); } },   // sparse uniform
        4 => { for b in v.iter_mut() { *b = !g.rng.chance(1, 100); } },  // almost full
        5 => { for b in v.iter_mut() { *b = g.rng.chance(1, 4096); } },  // very sparse
        6 => {                                                           // run-structured
            let mut i = 0; let mut val = g.rng.chance(1, 2);
            while i < len { let l = 1 + g.rng.below(200) as usize; for j in i..std::cmp::min(len, i + l) { v[j] = val; } i += l; val = !val; }
        },
        7 => {                                                           // clustered: dense islands in emptiness
            let islands = 1 + g.rng.below(4) as usize;
            for _ in 0..islands { let s = g.rng.below(len as u64 + 1) as usize; let l = g.rng.below(600) as usize; for j in s..std::cmp::min(len, s + l) { v[j] = g.rng.chance(9, 10); } }
        },
        8 => { if len > 0 { v[0] = true; v[len - 1] = true; } },          // first and last only
        9 => { for b in v.iter_mut() { *b = true; } if len > 0 { v[0] = false; v[len - 1] = false; let k = g.rng.below(len as u64) as usize; v[k] = false; } },
        _ => { for (i, b) in v.iter_mut().enumerate() { *b = i % 64 == 63 || i % 64 == 0; } }, // word boundaries
    }
    v
}

fn query_args(g: &mut Gen, bound: usize, samples: usize) -> Vec<u64> {
    let b = bound as u64;
    let mut v: Vec<u64> = vec![0, 1, 63, 64, 65, 511, 512, 513, 4095, 4096, 4097, b.saturating_sub(1), b, b + 1, b / 2];
    for k in [64u64, 512, 4096] { let m = (b / k) * k; v.push(m.saturating_sub(1)); v.push(m); v.push(m + 1); }
    for _ in 0..samples { v.push(g.rng.below(b + 2)); }
    // just beyond the end: inside the last word, the last 512-bit block, the last 4096-item superblock
    v.extend([b + 2, b + 63, b + 64, b + 65, b + 130, (b / 64 + 1) * 64, (b / 512 + 1) * 512 - 1, (b / 512 + 1) * 512, (b / 4096 + 1) * 4096 - 1]);
    // "for all query arguments": far beyond the end and the extreme values of the argument type
    v.extend([b.saturating_mul(2).saturating_add(7), 1u64 << 32, 1u64 << 63, (1u64 << 63) + 1, MAXU - 1, MAXU]);
    v.sort(); v.dedup();
    v
}

fn bv_queries(g: &mut Gen, name: &str, bits: &[bool], samples: usize, lines: &mut Vec<String>) {
    let len = bits.len();
    let ones = bits.iter().filter(|b| **b).count();
    lines.push(format!("bv {} len", name));
    lines.push(format!("bv {} ones", name));
    lines.push(format!("bv {} zeros", name));
    for i in query_args(g, len, samples) {
        if (i as usize) < len { lines.push(format!("bv {} get {}", name, i)); }
        lines.push(format!("bv {} rank {}", name, i));
        if (i as usize) <= len { lines.push(format!("bv {} rank0 {}", name, i)); }
        lines.push(format!("bv {} pred {}", name, i));
        lines.push(format!("bv {} succ {}", name, i));
    }
    for r in query_args(g, ones, samples) { lines.push(format!("bv {} select {}", name, r)); }
    for r in query_args(g, len - ones, samples) { lines.push(format!("bv {} select0 {}", name, r)); }
}

/// plain bitvectors over raw vectors WITH A HISTORY (see below)
pub fn raw_history_bitvectors(g: &mut Gen) {
    // plain bitvectors over raw vectors WITH A HISTORY: resized inside the same word (shrinking over set bits, growing with
    // ones), popped, overwritten — the bits beyond `len` in the last word must not be counted or found
    for (len0, kind) in [(1000usize, 2usize), (190, 3), (66, 6), (128, 2), (64, 3), (513, 6)] {
        let bits = make_bits(g, len0, kind);
        for (new_len, fill) in [(len0.saturating_sub(30), 0u8), (len0.saturating_sub(1), 1), (len0 + 34, 1), (len0 + 1, 1), (len0 / 64 * 64 + 1, 0), ((len0 + 63) / 64 * 64, 1)] {
            let mut lines = vec![format!("raw A from_words {} {}", len0, words_of_bits(&bits)), format!("raw A resize {} {}", new_len, fill)];
            let mut cur: Vec<bool> = bits.clone(); cur.resize(new_len, fill == 1);
            lines.push("bv B of_raw A".to_string()); lines.push("bv B enable rsz".to_string());
            bv_queries(g, "B", &cur, 8, &mut lines);
            lines.push("bv B it one : l b l n l".to_string()); lines.push("bv B it zero : l b l n l".to_string());
            // … and after a further pop / push on the same raw vector
            lines.push("raw A pop_bit".to_string()); lines.push("raw A push_bit 0".to_string()); lines.push("raw A push_bit 1".to_string());
            if !cur.is_empty() { cur.pop(); } cur.push(false); cur.push(true);
            lines.push("bv C of_raw A".to_string()); lines.push("bv C enable rsz".to_string());
            bv_queries(g, "C", &cur, 4, &mut lines);
            g.group(lines);
        }
    }
}

pub fn c01(g: &mut Gen) {
    // beyond 2^32 bits / 2^32 set bits (counts, ranks and sample arrays must be full-width): thorough scale only
    // (about 0.7 GiB and a few seconds per case; each case is its own group, hence its own process shard)
    if g.thorough {
        let big: u64 = (1u64 << 32) + 77;
        for (fill, flips) in [(1u64, vec![5u64, (1u64 << 32) + 4]), (0, vec![0u64, 1u64 << 31, (1u64 << 32) - 1, 1u64 << 32, (1u64 << 32) + 70])] {
            let k = flips.len() as u64;
            let fl: Vec<String> = flips.iter().map(|x| x.to_string()).collect();
            let mut lines = vec![format!("bv H huge {} {} rsz {}", big, fill, fl.join(" "))];
            lines.push("bv H len".to_string()); lines.push("bv H ones".to_string()); lines.push("bv H zeros".to_string());
            for x in [0u64, 5, 6, (1u64 << 31) + 1, (1u64 << 32) - 1, 1u64 << 32, (1u64 << 32) + 1, (1u64 << 32) + 5, big - 1, big, big + 1, MAXU] {
                if x < big { lines.push(format!("bv H get {}", x)); }
                lines.push(format!("bv H rank {}", x)); lines.push(format!("bv H pred {}", x)); lines.push(format!("bv H succ {}", x));
                if x <= big { lines.push(format!("bv H rank0 {}", x)); }
            }
            let ones = if fill == 1 { big - k } else { k };
            for (op, c) in [("select", ones), ("select0", big - ones)] {
                for r in [0u64, 1, 4, 5, k - 1, k, (1u64 << 32) - 4097, (1u64 << 32) - 3, (1u64 << 32) - 2, (1u64 << 32) - 1, 1u64 << 32, c.saturating_sub(1), c, c + 1, MAXU] { lines.push(format!("bv H {} {}", op, r)); }
            }
            g.group(lines);
        }
    }
    raw_history_bitvectors(g);
    // conversion from sources whose item count differs from their number of distinct positions (multisets): the
    // plain bitvector must count the BITS it holds
    for (n, vals) in [(140u64, vec![3u64, 4, 4, 7, 11, 11, 11, 19, 64, 64, 130]), (5, vec![0, 0, 4, 4, 4]), (70, vec![69, 69]), (200, (0..150).map(|i| (i / 3) * 4).collect::<Vec<u64>>())] {
        let vs: Vec<String> = vals.iter().map(|x| x.to_string()).collect();
        let mut distinct = vals.clone(); distinct.dedup();
        let bits: Vec<bool> = (0..n).map(|i| distinct.contains(&i)).collect();
        let mut lines = vec![format!("sp M build {} 1 {}", n, vs.join(" "))];
        lines.push("bv A copy_of M".to_string()); lines.push("bv A enable rsz".to_string());
        bv_queries(g, "A", &bits, 6, &mut lines);
        lines.push("bv B from M".to_string()); lines.push("bv B enable rsz".to_string());
        lines.push(format!("bv R from_bits {}", bitstring(&bits))); lines.push("bv R enable rsz".to_string());
        lines.push("bv B eq R".to_string()); lines.push("bv A eq R".to_string()); lines.push("bv B ser".to_string()); lines.push("bv R ser".to_string());
        lines.push("bv B it one : n n l b".to_string()); lines.push("bv B it zero : n b l".to_string());
        g.group(lines);
    }
    // exhaustive: every bit sequence up to length L, every argument 0..len+2, three construction routes
    let maxlen = if g.thorough { 11 } else { 8 };
    for len in 0..=maxlen {
        for code in 0..(1u32 << len) {
            let bits: Vec<bool> = (0..len).map(|i| (code >> i) & 1 == 1).collect();
            let mut lines = Vec::new();
            match code % 3 {
                0 => lines.push(format!("bv A from_bits {}", bitstring(&bits))),
                1 => lines.push(format!("bv A from_raw {} {}", len, words_of_bits(&bits))),
                _ => { lines.push(format!("bv S from_bits {}", bitstring(&bits))); lines.push("bv A copy_of S".to_string()); },
            }
            lines.push("bv A enable rsz".to_string());
            let ones = bits.iter().filter(|b| **b).count();
            lines.push("bv A len".to_string()); lines.push("bv A ones".to_string()); lines.push("bv A zeros".to_string());
            for i in 0..(len + 3) {
                if i < len { lines.push(format!("bv A get {}", i)); }
                lines.push(format!("bv A rank {}", i));
                if i <= len { lines.push(format!("bv A rank0 {}", i)); }
                lines.push(format!("bv A pred {}", i));
                lines.push(format!("bv A succ {}", i));
                if i <= ones + 1 { lines.push(format!("bv A select {}", i)); }
                if i <= len - ones + 1 { lines.push(format!("bv A select0 {}", i)); }
            }
            g.group(lines);
        }
    }
    // regime-directed: boundary sizes x densities / shapes, all three supports; support bytes compared through `ser`
    let sizes: Vec<usize> = if g.thorough {
        vec![1, 63, 64, 65, 127, 128, 129, 511, 512, 513, 1023, 1024, 1025, 4095, 4096, 4097, 8191, 8192, 8193, 20000, 65535, 65536, 65537]
    } else {
        vec![63, 64, 65, 511, 512, 513, 4095, 4096, 4097, 8193, 20000]
    };
    let samples = if g.thorough { 120 } else { 25 };
    for (si, len) in sizes.iter().enumerate() {
        for kind in 0..11 {
            if !g.thorough && (kind + si) % 3 != 0 && *len > 5000 { continue; }
            let bits = make_bits(g, *len, kind);
            let mut lines = vec![format!("bv A from_raw {} {}", len, words_of_bits(&bits)), "bv A enable rsz".to_string()];
            bv_queries(g, "A", &bits, samples, &mut lines);
            lines.push("bv A ser".to_string());
            g.group(lines);
        }
    }
    // long superblocks (explicit offsets) for ones and for zeros: span >= bit_len(len)^4
    let long_cases: Vec<(usize, usize, bool)> = if g.thorough {
        vec![(100_000, 10, false), (100_000, 10, true), (300_000, 4200, false), (300_000, 4200, true), (600_000, 5000, false), (600_000, 5000, true)]
    } else {
        vec![(100_000, 10, false), (100_000, 10, true), (150_000, 4100, false)]
    };
    // a long superblock that is NOT the first one (its pointer into the long array is taken after earlier short / long
    // superblocks): dense prefix then sparse tail, and two consecutive long superblocks; for ones and for zeros
    for invert in [false, true] {
        let mut layouts: Vec<Vec<bool>> = Vec::new();
        let mut a = vec![invert; 120_000];
        for i in 0..5000 { a[i] = !invert; }
        for j in 0..6 { a[20_000 + j * 15_000] = !invert; }
        layouts.push(a);
        let mut b = vec![invert; 230_000];
        for i in 0..4096 { b[26 * i] = !invert; }
        for j in 0..10 { b[110_000 + j * 11_000] = !invert; }
        layouts.push(b);
        for bits in layouts {
            let len = bits.len();
            let mut lines = vec![format!("bv A from_raw {} {}", len, words_of_bits(&bits)), "bv A enable rsz".to_string()];
            let cnt = bits.iter().filter(|b| **b != invert).count();
            let op = if invert { "select0" } else { "select" };
            for r in [0usize, 1, 63, 64, 4095, 4096, 4097, 4098, 4100, cnt - 2, cnt - 1, cnt] { lines.push(format!("bv A {} {}", op, r)); }
            for r in (4096..cnt).step_by(std::cmp::max(1, (cnt - 4096) / 40)) { lines.push(format!("bv A {} {}", op, r)); }
            for x in [0usize, 4999, 5000, 5001, 19_999, 20_000, 20_001, 100_000, len - 1] { lines.push(format!("bv A pred {}", x)); lines.push(format!("bv A succ {}", x)); }
            lines.push("bv A ser".to_string());
            g.group(lines);
        }
    }
    for (len, k, invert) in long_cases {
        let mut bits = vec![invert; len];
        let step = len / (k + 1);
        for j in 0..k { let p = std::cmp::min(len - 1, j * step + (g.rng.below(step as u64 / 2 + 1) as usize)); bits[p] = !invert; }
        let mut lines = vec![format!("bv A from_raw {} {}", len, words_of_bits(&bits)), "bv A enable rsz".to_string()];
        bv_queries(g, "A", &bits, samples, &mut lines);
        let cnt = bits.iter().filter(|b| **b != invert).count();
        for r in 0..std::cmp::min(cnt, 200) { lines.push(format!("bv A {} {}", if invert { "select0" } else { "select" }, r * (cnt / std::cmp::min(cnt, 200)))); }
        lines.push("bv A ser".to_string());
        g.group(lines);
    }
}

pub fn c09_bv(g: &mut Gen) {
    for (len, kind) in [(0usize, 0usize), (1, 1), (1, 0), (50, 2), (64, 1), (70, 3), (130, 2), (513, 6), (5000, 2)] {
        let bits = make_bits(g, len, kind);
        let ones = bits.iter().filter(|b| **b).count();
        let mut lines = vec![format!("bv A from_raw {} {}", len, words_of_bits(&bits)), "bv A enable rsz".to_string()];
        for a in boundary_values(len as u64) {
            lines.push(format!("bv A rank {}", a));
            lines.push(format!("bv A pred {}", a));
            lines.push(format!("bv A succ {}", a));
            lines.push(format!("bv A it succ {} : l n n", a));
            lines.push(format!("bv A it pred {} : l n n", a));
        }
        for a in boundary_values(ones as u64) {
            lines.push(format!("bv A select {}", a));
            lines.push(format!("bv A it sel {} : l n n", a));
        }
        for a in boundary_values((len - ones) as u64) {
            lines.push(format!("bv A select0 {}", a));
            lines.push(format!("bv A it sel0 {} : l n n", a));
        }
        // nth / nth_back beyond the remainder returns None and exhausts the iterator
        for a in boundary_values(ones as u64) {
            lines.push(format!("bv A it one : N{} l n b", a));
            lines.push(format!("bv A it one : n N{} l n b", a));
            lines.push(format!("bv A it one : B{} l n b", a));
            lines.push(format!("bv A it zero : n N{} l n", a));
        }
        // "beyond the remainder" after items were taken from the back: the remainder is smaller than the total count
        let zeros = (len - ones) as u64; let ones64 = ones as u64;
        for k in 1..=3u64 {
            let backs = vec!["b"; k as usize].join(" ");
            if ones64 >= k { for n in [ones64 - k, ones64 - 1, ones64] { lines.push(format!("bv A it one : {} N{} l n b", backs, n)); lines.push(format!("bv A it one : n {} N{} l n", backs, n.saturating_sub(1))); } }
            if zeros >= k { for n in [zeros - k, zeros - 1, zeros] { lines.push(format!("bv A it zero : {} N{} l n b", backs, n)); } }
            if len as u64 >= k { for n in [len as u64 - k, len as u64 - 1] { lines.push(format!("bv A it bits : {} N{} l n b", backs, n)); lines.push(format!("bv A it bits : {} B{} l n b", vec!["n"; k as usize].join(" "), n)); } }
        }
        for a in boundary_values(len as u64) {
            lines.push(format!("bv A it bits : N{} l n b", a));
            lines.push(format!("bv A it bits : n B{} l n b", a));
            // … and after the cursor on the SAME side has already moved (position + n must not be formed unclamped)
            lines.push(format!("bv A it bits : n n N{} l n b", a));
            lines.push(format!("bv A it bits : b b B{} l n b", a));
            lines.push(format!("bv A it bits : n b N{} B{} l", a, a));
        }
        for a in boundary_values(ones as u64) {
            lines.push(format!("bv A it one : n n N{} l n", a));
            lines.push(format!("bv A it one : b b B{} l b", a));
            lines.push(format!("bv A it sel 1 : n N{} l n", a));
            lines.push(format!("bv A it zero : n n N{} l n", a));
            lines.push(format!("bv A it zero : b b B{} l b", a));
        }
        g.group(lines);
    }
    // item iterators of the integer vector and (through the same AccessIter) the wavelet matrix, both ends, after advancing
    let mut lines = vec!["iv V from_vec u16 5 0 65535 7 7 300 1 2".to_string(), "wm W from u16 5 0 7 7 300 1 2 5".to_string()];
    for a in boundary_values(8) {
        lines.push(format!("iv V it n n N{} l n b", a)); lines.push(format!("iv V it b b B{} l n b", a)); lines.push(format!("iv V into_it n n N{} l n", a));
        lines.push(format!("wm W it items : n n N{} l n b", a)); lines.push(format!("wm W it items : b b B{} l n b", a)); lines.push(format!("wm W it into : n n N{} l n", a));
    }
    g.group(lines);
}

pub fn c09(g: &mut Gen) {
    c09_bv(g);
    crate::gen_sp::c09_sp(g);
    crate::gen_rl::c09_rl(g);
    crate::gen_wm::c09_wm(g);
    // constructors reject invalid widths / sizes with an error
    let mut lines = Vec::new();
    for w in [0u64, 1, 64, 65, MAXU] { lines.push(format!("iv X new {}", w)); lines.push(format!("iv X with_len 3 {} 1", w)); lines.push(format!("iv X with_capacity 3 {}", w)); }
    lines.push("sp - builder 5 6 0 :".to_string());
    lines.push("sp - builder 5 5 0 : t0 t1 t2 t3 t4 t5 c".to_string());
    lines.push(format!("rl - builder : s5,{} s{},2 s3,1", MAXU - 4, MAXU - 1));
    // legal runs at the very end of the domain are accepted: ending exactly at usize::MAX, empty at usize::MAX, full length
    lines.push(format!("rl - builder : s3,1 s{},7 c", MAXU - 7));
    lines.push(format!("rl - builder : s{},0 s0,{} c", MAXU, MAXU));
    lines.push(format!("rl - builder : s0,{} s{},1 c", MAXU - 1, MAXU - 1));
    g.group(lines);
}

pub fn c08(g: &mut Gen) {
    raw_history_bitvectors(g);
    // memory safety: the C01 / C09 / C10 recipes are re-run with the bounds hooks on in every build configuration
    // (check.py lists those generators for C08); this entry adds call sequences aimed at the unchecked accessors.
    for (len, kind) in [(1usize, 1usize), (64, 1), (64, 0), (65, 2), (128, 9), (4097, 2)] {
        let bits = make_bits(g, len, kind);
        let ones = bits.iter().filter(|b| **b).count() as u64;
        let mut lines = vec![format!("bv A from_raw {} {}", len, words_of_bits(&bits)), "bv A enable rsz".to_string()];
        for k in [0, 1, ones.saturating_sub(1), ones, ones + 1, 1u64 << 63, MAXU - 1, MAXU] {
            lines.push(format!("bv A it one : n N{} n b l", k));
            lines.push(format!("bv A it one : b N{} n b l", k));
            lines.push(format!("bv A it zero : n N{} n b l", k));
            lines.push(format!("bv A it one : N{} N{} l", k, k));
            lines.push(format!("bv A it sel {} : n b N{} l", k, k));
            // the FIRST access from the back is a skip
            lines.push(format!("bv A it one : B{} l n b", k));
            lines.push(format!("bv A it zero : B{} l n b", k));
            lines.push(format!("bv A it sel 0 : B{} n l", k));
            lines.push(format!("bv A it succ 0 : B{} n l", k));
            lines.push(format!("bv A it pred {} : B{} n l", len - 1, k));
        }
        g.group(lines);
    }
    // the public support-level API (Transformation::word / bit, RankSupport::rank, SelectSupport::select), which the
    // BitVector wrappers guard but which is safe and callable on its own: every argument class incl. just beyond the end
    for (len, kind) in [(0usize, 0usize), (1, 1), (63, 2), (64, 2), (65, 2), (100, 10), (100, 2), (128, 1), (512, 2), (513, 0), (600, 9), (4096, 2), (4100, 3), (9000, 2)] {
        let bits = make_bits(g, len, kind);
        let words = ((len + 63) / 64) as u64;
        let ones = bits.iter().filter(|b| **b).count() as u64;
        let zeros = len as u64 - ones;
        let mut lines = vec![format!("bv A from_raw {} {}", len, words_of_bits(&bits))];
        let mut idx: Vec<u64> = vec![0, 1, words.saturating_sub(2), words.saturating_sub(1), words, words + 1, words + 7, 2 * words + 1, 1u64 << 32, 1u64 << 58, (1u64 << 58) + 1, MAXU / 64, MAXU / 64 + 1, MAXU - 1, MAXU];
        idx.sort(); idx.dedup();
        for t in ["I", "C"] { for i in &idx { lines.push(format!("bv A tword {} {}", t, i)); } }
        let l = len as u64;
        let mut pos: Vec<u64> = vec![0, 1, l.saturating_sub(1), l, l + 1, words * 64 - if words > 0 { 1 } else { 0 }, words * 64, words * 64 + 1, (l / 512 + 1) * 512, (l / 512 + 1) * 512 - 1, l * 2 + 64, 1u64 << 40, 1u64 << 63, MAXU - 63, MAXU - 1, MAXU];
        pos.sort(); pos.dedup();
        for i in &pos { lines.push(format!("bv A tbit I {}", i)); lines.push(format!("bv A tbit C {}", i)); lines.push(format!("bv A sup rank {}", i)); }
        for (t, c) in [("I", ones), ("C", zeros)] {
            let up64 = (c + 63) / 64 * 64;
            let up4096 = (c + 4095) / 4096 * 4096;
            let mut rk: Vec<u64> = vec![0, 1, c / 2, c.saturating_sub(1), c, c + 1, c + 2, up64.saturating_sub(1), up64, up64 + 1, c + 63, c + 64, c + 65, up4096.saturating_sub(1), up4096, up4096 + 1, 1u64 << 20, 1u64 << 63, MAXU - 1, MAXU];
            rk.sort(); rk.dedup();
            for r in &rk { lines.push(format!("bv A sup sel {} {}", t, r)); }
        }
        g.group(lines);
    }
}

/// all call sequences of a given length over an alphabet
pub fn call_sequences(alphabet: &[String], depth: usize) -> Vec<Vec<String>> {
    let mut out: Vec<Vec<String>> = vec![vec![]];
    for _ in 0..depth {
        let mut next = Vec::new();
        for s in &out { for a in alphabet { let mut t = s.clone(); t.push(a.clone()); next.push(t); } }
        out = next;
    }
    out
}

pub fn de_alphabet(rem: u64) -> Vec<String> {
    let mut ks: Vec<u64> = vec![0, 1, 2, rem.saturating_sub(1), rem, rem + 1, MAXU];
    ks.sort(); ks.dedup();
    // n next, b next_back, l len, and observations on a clone: c count(), L last(), h size_hint()
    let mut a: Vec<String> = vec!["n".to_string(), "b".to_string(), "l".to_string(), "c".to_string(), "L".to_string(), "h".to_string()];
    for k in &ks { a.push(format!("N{}", k)); }
    for k in &ks { a.push(format!("B{}", k)); }
    a
}

pub fn fwd_alphabet(rem: u64) -> Vec<String> {
    let mut ks: Vec<u64> = vec![0, 1, 2, rem.saturating_sub(1), rem, rem + 1, MAXU];
    ks.sort(); ks.dedup();
    let mut a: Vec<String> = vec!["n".to_string(), "l".to_string(), "c".to_string(), "L".to_string(), "h".to_string()];
    for k in &ks { a.push(format!("N{}", k)); }
    a
}

pub fn c10_bv(g: &mut Gen) {
    let depth = if g.thorough { 4 } else { 3 };
    let shapes: Vec<Vec<bool>> = vec![
        vec![], vec![true], vec![false], vec![true, false, true, true, false],
        (0..70).map(|i| i % 3 == 0 || i == 64 || i == 63).collect(),
        (0..130).map(|i| i == 0 || i == 129 || i == 64).collect(),
        (0..64).map(|i| i % 5 == 0 || i == 63).collect(),
        (0..128).map(|i| i % 9 == 1 || i == 127 || i == 64).collect(),
    ];
    for bits in shapes {
        let ones = bits.iter().filter(|b| **b).count() as u64;
        let zeros = bits.len() as u64 - ones;
        let mut lines = vec![format!("bv A from_bits {}", bitstring(&bits)), "bv A enable rsz".to_string()];
        for seq in call_sequences(&de_alphabet(ones), depth) {
            lines.push(format!("bv A it one : {}", seq.join(" ")));
        }
        for seq in call_sequences(&de_alphabet(zeros), depth - 1) {
            lines.push(format!("bv A it zero : {}", seq.join(" ")));
        }
        for seq in call_sequences(&de_alphabet(bits.len() as u64), depth - 1) {
            lines.push(format!("bv A it bits : {}", seq.join(" ")));
        }
        // every starting point
        for r in 0..=(ones + 1) {
            for seq in call_sequences(&de_alphabet(ones.saturating_sub(r)), 2) { lines.push(format!("bv A it sel {} : {} n l", r, seq.join(" "))); }
        }
        for x in 0..=(bits.len() as u64 + 1) {
            lines.push(format!("bv A it pred {} : l n n b l n", x));
            lines.push(format!("bv A it succ {} : l n n b l n", x));
            lines.push(format!("bv A it succ {} : N1 l b n", x));
        }
        g.group(lines);
    }
    // iterators over plain bitvectors obtained by CONVERSION (copy_bit_vec / From) from every other representation,
    // including multiset sources whose item count exceeds the number of distinct positions
    for (n, multi, vals) in [(140u64, 1u64, vec![3u64, 4, 4, 7, 11, 11, 11, 19, 64, 64, 130]), (5, 1, vec![0, 0, 4, 4, 4]), (70, 1, vec![69, 69]),
                             (9, 0, vec![0, 3, 8]), (130, 0, vec![0, 63, 64, 65, 129]), (3, 0, vec![])] {
        let vs: Vec<String> = vals.iter().map(|x| x.to_string()).collect();
        let mut distinct = vals.clone(); distinct.dedup();
        let ones = distinct.len() as u64;
        let zeros = n - ones;
        let mut lines = vec![format!("sp M build {} {} {}", n, multi, vs.join(" ")).trim_end().to_string()];
        let mut targets = vec!["A", "B"];
        lines.push("bv A copy_of M".to_string());
        if multi == 0 { lines.push("rl R copy_of M".to_string()); lines.push("bv C copy_of R".to_string()); lines.push("bv D from R".to_string()); targets.push("C"); targets.push("D"); }
        lines.push("bv B from M".to_string());
        for t in targets {
            lines.push(format!("bv {} enable rsz", t));
            lines.push(format!("bv {} ones", t)); lines.push(format!("bv {} zeros", t));
            for seq in call_sequences(&de_alphabet(ones), 2) { lines.push(format!("bv {} it one : {} l n b l", t, seq.join(" "))); }
            lines.push(format!("bv {} it one : {} l n l b l", t, vec!["n"; ones as usize].join(" ")));
            lines.push(format!("bv {} it one : {} l b l n l", t, vec!["b"; ones as usize].join(" ")));
            lines.push(format!("bv {} it zero : {} l n l b l", t, vec!["n"; zeros as usize].join(" ")));
            lines.push(format!("bv {} it zero : {} l b l n l", t, vec!["b"; zeros as usize].join(" ")));
            for r in 0..=(ones + 1) { lines.push(format!("bv {} it sel {} : l n l {} l n l", t, r, vec!["n"; ones as usize].join(" "))); }
            for r in [0, zeros / 2, zeros.saturating_sub(1), zeros, zeros + 1] { lines.push(format!("bv {} it sel0 {} : l n l {} l n l", t, r, vec!["n"; zeros as usize].join(" "))); }
            for x in [0, n / 2, n.saturating_sub(1), n, n + 1] {
                lines.push(format!("bv {} it pred {} : l {} l n", t, x, vec!["n"; ones as usize].join(" ")));
                lines.push(format!("bv {} it succ {} : l {} l n", t, x, vec!["n"; ones as usize].join(" ")));
            }
        }
        g.group(lines);
    }
    // a larger vector: full traversal forwards, backwards and from both ends
    for kind in [2usize, 3, 6] {
        let bits = make_bits(g, 1000, kind);
        let ones = bits.iter().filter(|b| **b).count();
        let mut lines = vec![format!("bv A from_raw 1000 {}", words_of_bits(&bits)), "bv A enable rsz".to_string()];
        lines.push(format!("bv A it one : {} l n", vec!["n"; ones].join(" ")));
        lines.push(format!("bv A it one : {} l b", vec!["b"; ones].join(" ")));
        lines.push(format!("bv A it one : {} l n b", vec!["n b"; ones / 2].join(" ")));
        lines.push(format!("bv A it zero : {} l n b", vec!["n b N3 B2"; (1000 - ones) / 8].join(" ")));
        lines.push(format!("bv A it bits : {} l", vec!["n b N7"; 100].join(" ")));
        g.group(lines);
    }
}

/// iterators positioned by select / predecessor / successor in SHORT superblocks that follow a LONG one (and a long one
/// that follows short ones): the pointer of a superblock into the `short` / `long` arrays is not a function of its number
pub fn positioned_after_long_superblock(g: &mut Gen) {
    for invert in [false, true] {
        let mut layouts: Vec<Vec<bool>> = Vec::new();
        // 4096 items at stride 30 (one long superblock: span 122 880 >= 18^4), then 9000 consecutive items (short superblocks)
        let mut a = vec![invert; 250_000];
        for i in 0..4096 { a[30 * i] = !invert; }
        for i in 0..9000 { a[125_000 + i] = !invert; }
        layouts.push(a);
        // short, long, short
        let mut b = vec![invert; 260_000];
        for i in 0..4096 { b[i] = !invert; }
        for i in 0..4096 { b[5000 + 30 * i] = !invert; }
        for i in 0..5000 { b[130_000 + 2 * i] = !invert; }
        layouts.push(b);
        for bits in layouts {
            let len = bits.len();
            let cnt = bits.iter().filter(|b| **b != invert).count();
            let mut lines = vec![format!("bv A from_raw {} {}", len, words_of_bits(&bits)), "bv A enable rsz".to_string()];
            let sel = if invert { "sel0" } else { "sel" };
            for r in [0usize, 4095, 4096, 4097, 4159, 4160, 4161, 5000, 8191, 8192, 8193, 8200, 9000, 12_287, 12_288, 12_289, cnt - 65, cnt - 2, cnt - 1, cnt] {
                if r <= cnt { lines.push(format!("bv A it {} {} : l n n l b n", sel, r)); }
            }
            for _ in 0..10 { let r = 4096 + g.rng.below((cnt - 4096) as u64); lines.push(format!("bv A it {} {} : n n N70 l n", sel, r)); }
            if !invert {
                for x in [0usize, 4999, 5000, 125_000, 125_001, 126_000, 129_999, 130_000, 130_001, 133_000, 139_998, len - 1] {
                    lines.push(format!("bv A it pred {} : l n n l", x)); lines.push(format!("bv A it succ {} : l n n l", x));
                }
            }
            g.group(lines);
        }
    }
}

pub fn c10(g: &mut Gen) {
    c10_bv(g);
    positioned_after_long_superblock(g);
    crate::gen_ser::long_skips_under_supports(g);
    crate::gen_sp::c10_sp(g);
    crate::gen_rl::c10_rl(g);
    crate::gen_wm::c10_wm(g);
    // vector item iterators
    let mut lines = vec!["iv V from_vec u16 5 0 65535 7 7 300".to_string()];
    let depth = if g.thorough { 4 } else { 3 };
    for seq in call_sequences(&de_alphabet(6), depth) { lines.push(format!("iv V it {}", seq.join(" "))); }
    lines.push("iv V into_iter".to_string());
    for seq in call_sequences(&fwd_alphabet(6), depth) { lines.push(format!("iv V into_it {}", seq.join(" "))); }
    g.group(lines);
}
