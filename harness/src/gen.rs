// Recipe generators, one per property.  Regime-directed + exhaustive small scopes + seeded random cases.
// A *group* is a self-contained list of recipe lines (it starts from an empty object table).
use crate::util::Rng;

pub struct Gen {
    pub groups: Vec<Vec<String>>,
    pub rng: Rng,
    pub thorough: bool,
}

impl Gen {
    pub fn group(&mut self, lines: Vec<String>) {
        if !lines.is_empty() { self.groups.push(lines); }
    }
    pub fn one(&mut self, line: String) {
        self.groups.push(vec![line]);
    }
}

pub fn generate(prop: &str, tier: &str, seed: u64, shard: (usize, usize)) -> Vec<String> {
    let mut g = Gen { groups: Vec::new(), rng: Rng::new(seed ^ hash_str(prop)), thorough: tier == "thorough" };
    match prop {
        "C17" => crate::gen::c17(&mut g),
        _ => crate::gen_more::dispatch(prop, &mut g),
    }
    let mut out: Vec<String> = Vec::new();
    for (i, grp) in g.groups.into_iter().enumerate() {
        if i % shard.1 != shard.0 { continue; }
        out.push("@reset".to_string());
        out.extend(grp);
    }
    out
}

fn hash_str(s: &str) -> u64 {
    let mut h: u64 = 0xcbf2_9ce4_8422_2325;
    for b in s.bytes() { h ^= b as u64; h = h.wrapping_mul(0x1000_0000_01b3); }
    h
}

pub const MAXU: u64 = u64::MAX;

pub fn boundary_values(len: u64) -> Vec<u64> {
    let mut v = vec![0, 1, len.saturating_sub(1), len, len.saturating_add(1), len.saturating_mul(2), 1u64 << 63, MAXU - 1, MAXU];
    v.sort(); v.dedup();
    v
}

fn c17(g: &mut Gen) {
    // masks: the whole documented domain, checked and unchecked reads; one step outside for the checked read
    let mut lines = Vec::new();
    for n in 0..=64u64 {
        lines.push(format!("bits low_set {}", n));
        lines.push(format!("bits high_set {}", n));
        lines.push(format!("bits low_set_u {}", n));
        lines.push(format!("bits high_set_u {}", n));
    }
    for n in [65u64, 66, 1000, MAXU] {
        lines.push(format!("bits low_set {}", n));
        lines.push(format!("bits high_set {}", n));
    }
    g.group(lines);
    // bit_len / reverse_low
    let mut lines = Vec::new();
    lines.push("bits bit_len 0".to_string());
    for k in 0..64u32 {
        let p = 1u64 << k;
        for x in [p.wrapping_sub(1), p, p.wrapping_add(1), p | g.rng.next() & (p - 1)] {
            lines.push(format!("bits bit_len {}", x));
        }
    }
    lines.push(format!("bits bit_len {}", MAXU));
    for b in 1..=64u64 {
        for x in [0u64, 1, MAXU, 1u64 << (b - 1), g.rng.next(), g.rng.next(), 0xAAAA_AAAA_AAAA_AAAA, 0x8000_0000_0000_0001] {
            lines.push(format!("bits reverse_low {} {}", x, b));
        }
    }
    g.group(lines);
    // in-word select: every word supported on one byte, every rank; then random / adversarial words, every rank
    let mut lines = Vec::new();
    for shift in (0..64).step_by(8) {
        for b in 1..256u64 {
            let w = b << shift;
            for r in 0..w.count_ones() { lines.push(format!("bits select {} {}", w, r)); }
        }
    }
    g.group(lines);
    let mut lines = Vec::new();
    let nwords = if g.thorough { 5000 } else { 300 };
    for i in 0..nwords {
        let w = match i {
            0 => MAXU, 1 => 0x8000_0000_0000_0000, 2 => 0x0101_0101_0101_0101, 3 => 0x8080_8080_8080_8080,
            4 => 0xFF00_0000_0000_00FF, 5 => 0x7FFF_FFFF_FFFF_FFFF, 6 => 0xFFFF_FFFF_FFFF_FFFE,
            _ => g.rng.word(),
        };
        for r in 0..w.count_ones() { lines.push(format!("bits select {} {}", w, r)); }
    }
    g.group(lines);
    // rounding helpers on and around their documented domains
    let mut lines = Vec::new();
    let vals: Vec<u64> = vec![0, 1, 7, 8, 9, 63, 64, 65, 127, 128, 129, 4095, 4096, 4097, 1 << 32, (1 << 58) - 1, 1 << 58, 1 << 60, (1 << 61) - 1, 1 << 61,
        (1 << 63) - 1, 1 << 63, MAXU - 64, MAXU - 63, MAXU - 62, MAXU - 8, MAXU - 7, MAXU - 6, MAXU - 1, MAXU];
    for v in &vals {
        for op in ["b2w", "w2b", "by2w", "w2by", "rub", "ruby", "split"] { lines.push(format!("bits {} {}", op, v)); }
        for n in [1u64, 2, 3, 8, 13, 64, 1 << 32, 1 << 63, MAXU] { lines.push(format!("bits dru {} {}", v, n)); }
        for o in [0u64, 1, 63] { lines.push(format!("bits bitoff {} {}", v, o)); }
    }
    lines.push("bits filler 0".to_string());
    lines.push("bits filler 1".to_string());
    g.group(lines);
    // read/write: every (offset 0..191, width 1..64) with adversarial values and backgrounds
    let patterns = if g.thorough { 12 } else { 3 };
    for off in 0..192u64 {
        let mut lines = Vec::new();
        for width in 1..=64u64 {
            for p in 0..patterns {
                let (value, bg): (u64, [u64; 4]) = match p {
                    0 => (MAXU, [0, 0, 0, 0]),
                    1 => (0, [MAXU, MAXU, MAXU, MAXU]),
                    2 => (g.rng.next(), [g.rng.next(), g.rng.next(), g.rng.next(), g.rng.next()]),
                    3 => (1u64 << ((width - 1) % 64), [0xAAAA_AAAA_AAAA_AAAA; 4]),
                    4 => (1, [0x5555_5555_5555_5555; 4]),
                    _ => (g.rng.word(), [g.rng.word(), g.rng.word(), g.rng.word(), g.rng.word()]),
                };
                lines.push(format!("bits rw {} {} {} {} {} {} {}", off, width, value, bg[0], bg[1], bg[2], bg[3]));
            }
            // alternating all-zero / all-one words (a zero word holding the start of a field whose end lies in a full word, and
            // the reverse), with a zero and a full value
            for (value, bg) in [(0u64, [0u64, MAXU, 0, MAXU]), (MAXU, [MAXU, 0, MAXU, 0]), (0x5555_5555_5555_5555, [0, 0xFF, 0, 0xFF00])] {
                lines.push(format!("bits rw {} {} {} {} {} {} {}", off, width, value, bg[0], bg[1], bg[2], bg[3]));
            }
        }
        g.group(lines);
    }
}
