// Sparse (Elias-Fano) vector operations, including builder call histories.
use crate::exec::{ser_words, Obj, State};
use crate::exec_bv::*;
use crate::util::*;
use simple_sds::ops::*;
use simple_sds::sparse_vector::{SparseBuilder, SparseVector};
use std::convert::TryFrom;

fn summary(v: &SparseVector) -> String {
    format!("ok {}", words_to_string(&ser_words(v)))
}

pub fn exec_sparse(st: &mut State, name: &str, t: &[&str]) -> String {
    match t[0] {
        // build <n> <multi> <values…> : SparseBuilder::new/multiset, try_set each value, try_from
        "build" => {
            let n = parse_usize(t[1]);
            let multi = t[2] == "1";
            let vals: Vec<usize> = t[3..].iter().map(|x| parse_usize(x)).collect();
            let mut b = if multi { SparseBuilder::multiset(n, vals.len()) } else {
                match SparseBuilder::new(n, vals.len()) { Ok(b) => b, Err(_) => return "err:new".to_string() }
            };
            for (k, v) in vals.iter().enumerate() {
                if b.try_set(*v).is_err() { return format!("err:set@{}", k); }
            }
            return match SparseVector::try_from(b) {
                Ok(v) => { let s = summary(&v); st.objs.insert(name.to_string(), Obj::Sparse(v)); s },
                Err(_) => "err:convert".to_string(),
            };
        },
        "from_iter" => {
            let vals: Vec<usize> = t[1..].iter().map(|x| parse_usize(x)).collect();
            return match SparseVector::try_from_iter(vals.into_iter()) {
                Ok(v) => { let s = summary(&v); st.objs.insert(name.to_string(), Obj::Sparse(v)); s },
                Err(_) => "err:from_iter".to_string(),
            };
        },
        // from_skip <src> <k> : `try_from_iter(src.one_iter().skip(k).map(|(_, v)| v))` — a vector built from the tail of
        // another vector's own iterator (the builder calls `size_hint`, `next_back`, then iterates forward)
        "from_skip" => {
            let k = parse_usize(t[2]);
            let r = match st.objs.get(t[1]) {
                Some(Obj::Sparse(x)) => SparseVector::try_from_iter(x.one_iter().skip(k).map(|(_, v)| v)),
                _ => panic!("harness: from_skip: no sparse source {}", t[1]),
            };
            return match r {
                Ok(v) => { let s = summary(&v); st.objs.insert(name.to_string(), Obj::Sparse(v)); s },
                Err(_) => "err:from_iter".to_string(),
            };
        },
        "copy_of" => {
            let v = match st.objs.get(t[1]) {
                Some(Obj::Bv(x)) => SparseVector::copy_bit_vec(x),
                Some(Obj::Sparse(x)) => SparseVector::copy_bit_vec(x),
                Some(Obj::Rl(x)) => SparseVector::copy_bit_vec(x),
                _ => panic!("harness: copy_of: no source {}", t[1]),
            };
            let s = summary(&v);
            st.objs.insert(name.to_string(), Obj::Sparse(v));
            return s;
        },
        "from" => {
            let src = st.objs.remove(t[1]).unwrap_or_else(|| panic!("harness: from: no source {}", t[1]));
            let v = match src {
                Obj::Bv(x) => SparseVector::from(x),
                Obj::Rl(x) => SparseVector::from(x),
                Obj::Sparse(x) => x,
                _ => panic!("harness: from: bad source"),
            };
            let s = summary(&v);
            st.objs.insert(name.to_string(), Obj::Sparse(v));
            return s;
        },
        // builder <n> <ones> <multi> : calls…   s<i> set, t<i> try_set, u<i> set_unchecked-free, c convert
        "builder" => {
            let n = parse_usize(t[1]);
            let ones = parse_usize(t[2]);
            let multi = t[3] == "1";
            let mut b = if multi { SparseBuilder::multiset(n, ones) } else {
                match SparseBuilder::new(n, ones) { Ok(b) => b, Err(_) => return "err:new".to_string() }
            };
            let obs = |b: &SparseBuilder| format!("{},{},{},{},{},{}", b.len(), b.next_index(), b.is_full() as u8, b.capacity(), b.universe(), b.is_multiset() as u8);
            let mut out: Vec<String> = vec![obs(&b)];
            let colon = t.iter().position(|x| *x == ":").expect("harness: builder needs ':'");
            for c in &t[colon + 1..] {
                match c.as_bytes()[0] {
                    b't' => {
                        let r = b.try_set(parse_usize(&c[1..]));
                        out.push(format!("{}:{}", if r.is_ok() { "ok" } else { "err" }, obs(&b)));
                    },
                    b's' => {
                        let i = parse_usize(&c[1..]);
                        let r = std::panic::catch_unwind(std::panic::AssertUnwindSafe(|| b.set(i)));
                        out.push(format!("{}:{}", if r.is_ok() { "ok" } else { "panic" }, obs(&b)));
                    },
                    b'e' => {
                        let vals: Vec<usize> = c[1..].split(',').filter(|x| !x.is_empty()).map(|x| parse_usize(x)).collect();
                        let r = std::panic::catch_unwind(std::panic::AssertUnwindSafe(|| b.extend(vals)));
                        out.push(format!("{}:{}", if r.is_ok() { "ok" } else { "panic" }, obs(&b)));
                    },
                    b'c' => {
                        match SparseVector::try_from(b.clone()) {
                            Ok(v) => out.push(format!("conv:ok:{}", ser_words(&v).iter().map(|w| w.to_string()).collect::<Vec<_>>().join(","))),
                            Err(_) => out.push("conv:err".to_string()),
                        }
                    },
                    _ => panic!("harness: bad builder call {}", c),
                }
            }
            return out.join(" ");
        },
        // reference-setting directive for the driver only
        "ref" => return "ok".to_string(),
        "eq" => {
            let other = st.sparse(t[1]).clone();
            return (*st.sparse(name) == other).to_string();
        },
        _ => (),
    }
    let v = st.sparse(name);
    match t[0] {
        "len" => v.len().to_string(),
        "ones" => v.count_ones().to_string(),
        "zeros" => v.count_zeros().to_string(),
        "is_multiset" => (v.is_multiset() as u8).to_string(),
        "get" => (v.get(parse_usize(t[1])) as u8).to_string(),
        "rank" => v.rank(parse_usize(t[1])).to_string(),
        "rank0" => v.rank_zero(parse_usize(t[1])).to_string(),
        "select" => opt_usize(v.select(parse_usize(t[1]))),
        "select0" => opt_usize(v.select_zero(parse_usize(t[1]))),
        "pred" => opt_pair(v.predecessor(parse_usize(t[1])).next()),
        "succ" => opt_pair(v.successor(parse_usize(t[1])).next()),
        "ser" | "doc" => words_to_string(&ser_words(v)),
        "it" => {
            let colon = t.iter().position(|x| *x == ":").expect("harness: it needs ':'");
            let calls = &t[colon + 1..];
            let mut out: Vec<String> = Vec::new();
            match t[1] {
                "bits" => { let mut it = v.iter(); for c in calls { out.push(bool_call_de(&mut it, c)); } },
                "one" => { let mut it = v.one_iter(); for c in calls { out.push(pair_call_de(&mut it, c)); } },
                "zero" => { let mut it = v.zero_iter(); for c in calls { out.push(pair_call_fwd(&mut it, c)); } },
                "sel" => { let mut it = v.select_iter(parse_usize(t[2])); for c in calls { out.push(pair_call_de(&mut it, c)); } },
                "sel0" => { let mut it = v.select_zero_iter(parse_usize(t[2])); for c in calls { out.push(pair_call_fwd(&mut it, c)); } },
                "pred" => { let mut it = v.predecessor(parse_usize(t[2])); for c in calls { out.push(pair_call_de(&mut it, c)); } },
                "succ" => { let mut it = v.successor(parse_usize(t[2])); for c in calls { out.push(pair_call_de(&mut it, c)); } },
                _ => panic!("harness: bad sparse iterator kind"),
            }
            out.join(" ")
        },
        _ => panic!("harness: unknown sparse op {}", t[0]),
    }
}
