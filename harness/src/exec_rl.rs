// Run-length vector operations, including builder call histories.
use crate::exec::{ser_words, Obj, State};
use crate::exec_bv::*;
use crate::util::*;
use simple_sds::ops::*;
use simple_sds::rl_vector::{RLBuilder, RLVector};

fn summary(v: &RLVector) -> String {
    format!("ok {}", words_to_string(&ser_words(v)))
}

// One builder call: s<start>,<len> (try_set)  l<n> (set_len)  b<i> (set_bit_unchecked)  r<start>,<len> (set_run_unchecked)
fn builder_call(b: &mut RLBuilder, c: &str) -> &'static str {
    let two = |s: &str| { let mut p = s.split(','); (parse_usize(p.next().unwrap()), parse_usize(p.next().unwrap())) };
    match c.as_bytes()[0] {
        b's' => { let (a, l) = two(&c[1..]); if b.try_set(a, l).is_ok() { "ok" } else { "err" } },
        b'l' => { b.set_len(parse_usize(&c[1..])); "ok" },
        b'b' => { unsafe { b.set_bit_unchecked(parse_usize(&c[1..])); } "ok" },
        b'r' => { let (a, l) = two(&c[1..]); unsafe { b.set_run_unchecked(a, l); } "ok" },
        _ => panic!("harness: bad rl builder call {}", c),
    }
}

pub fn exec_rl(st: &mut State, name: &str, t: &[&str]) -> String {
    match t[0] {
        // build : calls…  then RLVector::from(builder)
        "build" => {
            let mut b = RLBuilder::new();
            for (k, c) in t[1..].iter().filter(|c| **c != ":").enumerate() {
                if builder_call(&mut b, c) == "err" { return format!("err:set@{}", k); }
            }
            let v = RLVector::from(b);
            let s = summary(&v);
            st.objs.insert(name.to_string(), Obj::Rl(v));
            return s;
        },
        // builder : calls…   observables after every call; final 'c' converts
        "builder" => {
            let mut b = RLBuilder::new();
            let obs = |b: &RLBuilder| format!("{},{}", b.len(), b.count_ones());
            let mut out: Vec<String> = vec![obs(&b)];
            for c in &t[1..] {
                if *c == ":" { continue; }
                if *c == "c" {
                    let v = RLVector::from(b.clone());
                    out.push(format!("conv:{}", ser_words(&v).iter().map(|w| w.to_string()).collect::<Vec<_>>().join(",")));
                    continue;
                }
                let r = builder_call(&mut b, c);
                out.push(format!("{}:{}", r, obs(&b)));
            }
            return out.join(" ");
        },
        "copy_of" => {
            let v = match st.objs.get(t[1]) {
                Some(Obj::Bv(x)) => RLVector::copy_bit_vec(x),
                Some(Obj::Sparse(x)) => RLVector::copy_bit_vec(x),
                Some(Obj::Rl(x)) => RLVector::copy_bit_vec(x),
                _ => panic!("harness: copy_of: no source {}", t[1]),
            };
            let s = summary(&v);
            st.objs.insert(name.to_string(), Obj::Rl(v));
            return s;
        },
        "from" => {
            let src = st.objs.remove(t[1]).unwrap_or_else(|| panic!("harness: from: no source {}", t[1]));
            let v = match src {
                Obj::Bv(x) => RLVector::from(x),
                Obj::Sparse(x) => RLVector::from(x),
                Obj::Rl(x) => x,
                _ => panic!("harness: from: bad source"),
            };
            let s = summary(&v);
            st.objs.insert(name.to_string(), Obj::Rl(v));
            return s;
        },
        "ref" => return "ok".to_string(),
        "eq" => {
            let other = st.rl(t[1]).clone();
            return (*st.rl(name) == other).to_string();
        },
        _ => (),
    }
    let v = st.rl(name);
    match t[0] {
        "len" => v.len().to_string(),
        "ones" => v.count_ones().to_string(),
        "zeros" => v.count_zeros().to_string(),
        "get" => (v.get(parse_usize(t[1])) as u8).to_string(),
        "rank" => v.rank(parse_usize(t[1])).to_string(),
        "rank0" => v.rank_zero(parse_usize(t[1])).to_string(),
        "select" => opt_usize(v.select(parse_usize(t[1]))),
        "select0" => opt_usize(v.select_zero(parse_usize(t[1]))),
        "pred" => opt_pair(v.predecessor(parse_usize(t[1])).next()),
        "succ" => opt_pair(v.successor(parse_usize(t[1])).next()),
        "ser" | "doc" => words_to_string(&ser_words(v)),
        // all runs with the iterator's running offset / rank after each
        "runs" => {
            let mut it = v.run_iter();
            let mut out: Vec<String> = Vec::new();
            while let Some((s, l)) = it.next() {
                out.push(format!("{},{},{},{}", s, l, it.offset(), it.rank()));
            }
            // fused: one more call must keep returning None
            out.push(match it.next() { None => "-".to_string(), Some(_) => "again".to_string() });
            out.join(" ")
        },
        "it" => {
            let colon = t.iter().position(|x| *x == ":").expect("harness: it needs ':'");
            let calls = &t[colon + 1..];
            let mut out: Vec<String> = Vec::new();
            match t[1] {
                "bits" => { let mut it = v.iter(); for c in calls { out.push(bool_call_fwd(&mut it, c)); } },
                "one" => { let mut it = v.one_iter(); for c in calls { out.push(pair_call_fwd(&mut it, c)); } },
                "zero" => { let mut it = v.zero_iter(); for c in calls { out.push(pair_call_fwd(&mut it, c)); } },
                "sel" => { let mut it = v.select_iter(parse_usize(t[2])); for c in calls { out.push(pair_call_fwd(&mut it, c)); } },
                "sel0" => { let mut it = v.select_zero_iter(parse_usize(t[2])); for c in calls { out.push(pair_call_fwd(&mut it, c)); } },
                "pred" => { let mut it = v.predecessor(parse_usize(t[2])); for c in calls { out.push(pair_call_fwd(&mut it, c)); } },
                "succ" => { let mut it = v.successor(parse_usize(t[2])); for c in calls { out.push(pair_call_fwd(&mut it, c)); } },
                "run" => { let mut it = v.run_iter(); for c in calls { out.push(pair_call(&mut it, c, None)); } },
                _ => panic!("harness: bad rl iterator kind"),
            }
            out.join(" ")
        },
        _ => panic!("harness: unknown rl op {}", t[0]),
    }
}
