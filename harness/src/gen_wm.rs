use crate::gen::*;
pub fn c04(_g: &mut Gen) { panic!("harness: generator c04 not built yet"); }
pub fn c09_wm(_g: &mut Gen) {}
pub fn c10_wm(_g: &mut Gen) {}
