// Generators for the wavelet matrix: C04, and the WM parts of C09 / C10.
use crate::gen::*;
use crate::gen_bv::call_sequences;

fn vals_str(v: &[u64]) -> String { v.iter().map(|x| x.to_string()).collect::<Vec<_>>().join(" ") }

fn wm_queries(g: &mut Gen, ty: &str, vals: &[u64], samples: usize, lines: &mut Vec<String>) {
    let n = vals.len() as u64;
    let maxv = vals.iter().cloned().max().unwrap_or(0);
    lines.push("wm A len".to_string()); lines.push("wm A width".to_string());
    let mut values: Vec<u64> = vec![0, 1, maxv, maxv + 1, maxv / 2, maxv.wrapping_mul(2), 1u64 << 40, MAXU];
    for _ in 0..samples { if !vals.is_empty() { values.push(vals[g.rng.below(n) as usize]); } values.push(g.rng.below(maxv + 2)); }
    values.sort(); values.dedup();
    let mut idx: Vec<u64> = vec![0, 1, n.saturating_sub(1), n, n + 1, n / 2];
    for _ in 0..samples { idx.push(g.rng.below(n + 2)); }
    idx.sort(); idx.dedup();
    for i in &idx {
        if *i < n { lines.push(format!("wm A get {}", i)); }
        lines.push(format!("wm A invsel {}", i));
        if vals.len() <= 100 { lines.push(format!("wm A core {} mapdown {} : {}", ty, i, vals_str(vals))); }
    }
    for v in &values {
        lines.push(format!("wm A contains {}", v));
        for i in idx.iter().take(8) {
            lines.push(format!("wm A rank {} {}", i, v));
            lines.push(format!("wm A select {} {}", i, v));
            lines.push(format!("wm A pred {} {}", i, v));
            lines.push(format!("wm A succ {} {}", i, v));
            if vals.len() <= 100 { lines.push(format!("wm A core {} mapdownwith {} {} : {}", ty, i, v, vals_str(vals))); }
        }
    }
    // map up inverts map down on every position
    for i in idx.iter().filter(|i| **i < n && vals.len() <= 100).take(10) {
        lines.push(format!("wm A core {} mapdown2 {} {} {} : {}", ty, i, n, vals[*i as usize], vals_str(vals)));
    }
    lines.push("wm A items".to_string());
}

pub fn c04(g: &mut Gen) {
    // exhaustive: every vector up to length L over widths 1..3, every (index, rank, value) incl. values >= 2^width
    for width in 1..=3u32 {
        let sigma = 1u64 << width;
        let maxlen = match (g.thorough, width) { (true, 1) => 7, (true, 2) => 5, (true, _) => 4, (false, 1) => 5, (false, 2) => 4, (false, _) => 3 };
        for len in 0..=maxlen {
            let total = sigma.pow(len as u32);
            for code in 0..total {
                let mut c = code; let mut vals: Vec<u64> = Vec::new();
                for _ in 0..len { vals.push(c % sigma); c /= sigma; }
                let ty = ["u8", "u16", "u32", "u64", "usize"][(code % 5) as usize];
                let mut lines = vec![format!("wm A from {} {}", ty, vals_str(&vals))];
                lines.push("wm A len".to_string()); lines.push("wm A width".to_string());
                for i in 0..(len as u64 + 2) {
                    if i < len as u64 { lines.push(format!("wm A get {}", i)); }
                    lines.push(format!("wm A invsel {}", i));
                    lines.push(format!("wm A core {} mapdown {} : {}", ty, i, vals_str(&vals)));
                    for v in 0..(sigma + 1) {
                        lines.push(format!("wm A rank {} {}", i, v));
                        lines.push(format!("wm A select {} {}", i, v));
                        lines.push(format!("wm A pred {} {}", i, v));
                        lines.push(format!("wm A succ {} {}", i, v));
                        lines.push(format!("wm A core {} mapdownwith {} {} : {}", ty, i, v, vals_str(&vals)));
                    }
                }
                for v in 0..(sigma + 1) { lines.push(format!("wm A contains {}", v)); lines.push(format!("wm A it value {} : n n n n n n n n", v)); }
                // map_up(map_down) on every valid position; every index in the value's range maps up
                let mut sorted = vals.clone(); sorted.sort_by_key(|x| x.reverse_bits());
                for (pos, v) in sorted.iter().enumerate() { lines.push(format!("wm A core {} mapupwith {} {} : {}", ty, pos, v, vals_str(&vals))); }
                g.group(lines);
            }
        }
    }
    // random: skewed / single-symbol / power-of-two-boundary alphabets, widths 1..16 (and wider item types), sparse alphabets
    let samples = if g.thorough { 12 } else { 4 };
    let lens: Vec<usize> = if g.thorough { vec![1, 2, 63, 64, 65, 100, 300, 1000, 5000] } else { vec![1, 64, 65, 100, 600] };
    let widths: Vec<u32> = if g.thorough { vec![1, 2, 3, 5, 8, 9, 12, 14, 16] } else { vec![1, 2, 3, 5, 8, 9, 12, 13] };
    for width in widths {
        for len in &lens {
            // the model rebuilds `first` over the whole alphabet: keep the wide alphabets to a few vectors
            if width >= 13 && *len != 65 && !(g.thorough && *len == 1000) { continue; }
            for shape in 0..4 {
                if !g.thorough && (shape + width as usize + len) % 2 == 0 { continue; }
                let sigma = 1u64 << width;
                let vals: Vec<u64> = (0..*len).map(|_| match shape {
                    0 => g.rng.below(sigma),
                    1 => sigma - 1,                                              // single symbol at the top of the alphabet
                    2 => { let r = g.rng.below(100); if r < 80 { 0 } else if r < 95 { sigma / 2 } else { sigma - 1 } },  // skewed
                    _ => (g.rng.below(4)) * (sigma / 4).max(1) ,                 // sparse alphabet with missing values
                }).collect();
                let ty = match width { 1..=8 => *g.rng.pick(&["u8", "u16", "u64"]), 9..=13 => *g.rng.pick(&["u16", "u32", "usize"]), 14..=16 => *g.rng.pick(&["u16", "u32", "usize"]), _ => "u64" };
                let mut lines = vec![format!("wm A from {} {}", ty, vals_str(&vals))];
                wm_queries(g, ty, &vals, samples, &mut lines);
                if *len <= 300 { lines.push("wm A ser".to_string()); }
                g.group(lines);
            }
        }
    }
    // wide values in the wide item types
    for ty in ["u32", "u64", "usize"] {
        // `first` has one entry per alphabet value up to the maximum, so the alphabet is kept at 2^16
        let top: u64 = (1u64 << 12) - 1;
        let vals: Vec<u64> = (0..40).map(|i| match i % 4 { 0 => top, 1 => 0, 2 => top / 3, _ => g.rng.next() & top }).collect();
        let mut lines = vec![format!("wm A from {} {}", ty, vals_str(&vals))];
        lines.push("wm A len".to_string()); lines.push("wm A width".to_string()); lines.push("wm A items".to_string());
        for v in [0u64, top, top / 3, 1] { for i in [0u64, 1, 20, 40, 41] { lines.push(format!("wm A rank {} {}", i, v)); lines.push(format!("wm A select {} {}", i, v)); } lines.push(format!("wm A contains {}", v)); }
        g.group(lines);
    }
    // a matrix of more than 2^20 items (every level has more than 2048 rank samples and more than 2^14 data words), built,
    // written, loaded back and queried in the upper half of the positions.  Thorough scale only (about 20 s in the driver).
    if g.thorough {
        let n: u64 = 1_150_000;
        let vals: Vec<u64> = (0..n).map(|i| (i.wrapping_mul(2654435761) >> 7) % 8).collect();
        let mut lines = vec![format!("wm A from u8 {}", vals_str(&vals)), "ser reload A B extra=0".to_string(), "wm B len".to_string(), "wm B width".to_string()];
        for i in [0u64, 4095, 4096, 262_144, 524_287, 524_288, 524_289, 800_000, 1_048_575, 1_048_576, 1_048_577, 1_100_000, n - 1, n] {
            if i < n { lines.push(format!("wm B get {}", i)); lines.push(format!("wm B invsel {}", i)); }
            for v in [0u64, 3, 7, 8] { lines.push(format!("wm B rank {} {}", i, v)); lines.push(format!("wm B pred {} {}", i, v)); lines.push(format!("wm B succ {} {}", i, v)); }
        }
        for v in [0u64, 5, 7] { for r in [0u64, 1, 70_000, 131_071, 131_072, 140_000, 143_000] { lines.push(format!("wm B select {} {}", r, v)); } }
        g.group(lines);
    }
}

pub fn c09_wm(g: &mut Gen) {
    // … and vectors whose length is a power of two (or just above one) over alphabets with ABSENT values, where the sentinel
    // stored for an absent value is the widest entry of the `first` array
    for vals in [vec![], vec![0u64], vec![0, 1], vec![3, 1, 3, 3, 0, 2, 3], (0..200).map(|i| (i * 7) % 13).collect::<Vec<u64>>(),
                 vec![0, 0, 0, 0, 1, 1, 3, 3], vec![2, 2], vec![0, 3, 3, 0], vec![5, 5, 5, 5, 5, 5, 5, 5, 1], (0..64).map(|i| if i < 40 { 0 } else { 6 }).collect::<Vec<u64>>(),
                 (0..16).map(|i| [1u64, 4, 4, 9][i % 4]).collect::<Vec<u64>>()] {
        let n = vals.len() as u64;
        let maxv = vals.iter().cloned().max().unwrap_or(0);
        let mut lines = vec![format!("wm A from u64 {}", vals_str(&vals))];
        for v in 0..=(maxv + 1) { lines.push(format!("wm A contains {}", v)); lines.push(format!("wm A rank {} {}", MAXU, v)); lines.push(format!("wm A rank {} {}", n, v)); lines.push(format!("wm A select 0 {}", v)); }
        lines.push("wm A ser".to_string());
        for i in boundary_values(n) {
            lines.push(format!("wm A invsel {}", i));
            lines.push(format!("wm A core u64 mapdown {} : {}", i, vals_str(&vals)));
            for v in [0u64, 1, maxv, maxv + 1, 1u64 << 63, MAXU] {
                lines.push(format!("wm A rank {} {}", i, v));
                lines.push(format!("wm A select {} {}", i, v));
                lines.push(format!("wm A pred {} {}", i, v));
                lines.push(format!("wm A succ {} {}", i, v));
                lines.push(format!("wm A core u64 mapdownwith {} {} : {}", i, v, vals_str(&vals)));
                lines.push(format!("wm A core u64 mapupwith {} {} : {}", i, v, vals_str(&vals)));
                lines.push(format!("wm A it sel {} {} : n n", i, v));
            }
            // the two-position variant clamps both positions like the one-position variant: any pair of positions, any value
            for j in [0u64, n / 2, n, n + 1, 2 * n + 1, (1u64 << 63) + 1, MAXU - 1, MAXU] {
                for v in [0u64, 1, maxv, maxv / 2, maxv + 1] {
                    lines.push(format!("wm A core u64 mapdown2 {} {} {} : {}", i, j, v, vals_str(&vals)));
                    lines.push(format!("wm A core u64 mapdown2 {} {} {} : {}", j, i, v, vals_str(&vals)));
                }
            }
        }
        for v in [0u64, 1, maxv, maxv + 1, MAXU] { lines.push(format!("wm A contains {}", v)); lines.push(format!("wm A it value {} : N{} n", v, MAXU)); }
        for k in boundary_values(n) { lines.push(format!("wm A it items : N{} l n b", k)); lines.push(format!("wm A it items : n B{} l n b", k)); }
        let _ = &g;
        g.group(lines);
    }
}

pub fn c10_wm(g: &mut Gen) {
    let depth = if g.thorough { 4 } else { 3 };
    for vals in [vec![], vec![2u64], vec![1, 0, 1, 1, 3, 1], vec![5, 5, 5, 5]] {
        let n = vals.len() as u64;
        let mut lines = vec![format!("wm A from u8 {}", vals_str(&vals))];
        for seq in call_sequences(&crate::gen_bv::de_alphabet(n), depth) { lines.push(format!("wm A it items : {}", seq.join(" "))); }
        for seq in call_sequences(&crate::gen_bv::fwd_alphabet(n), depth) { lines.push(format!("wm A it into : {}", seq.join(" "))); }
        let alpha: Vec<String> = vec!["n", "N0", "N1", "N2", "N7", "c", "L"].into_iter().map(|s| s.to_string()).collect();
        for v in [0u64, 1, 3, 5, 9] {
            for seq in call_sequences(&alpha, depth) { lines.push(format!("wm A it value {} : {}", v, seq.join(" "))); }
            for r in 0..(n + 2) { lines.push(format!("wm A it sel {} {} : L c n n N1 L n c", r, v)); lines.push(format!("wm A it pred {} {} : L n c n n", r, v)); lines.push(format!("wm A it succ {} {} : L c n n n L", r, v)); }
        }
        lines.push("wm A into_iter".to_string());
        g.group(lines);
    }
}
