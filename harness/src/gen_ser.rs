// Generators for serialization, writers, memory maps, temp names: C06, C07, C12, C13, C14, C18, C19, C20.
// The encoders in this file are written from SERIALIZATION.md only (they never call the library).
use crate::gen::*;
use crate::gen_bv::{bitstring, make_bits, words_of_bits};

fn ws(v: &[u64]) -> String { v.iter().map(|x| x.to_string()).collect::<Vec<_>>().join(" ") }
fn hex(bs: &[u8]) -> String { if bs.is_empty() { "-".to_string() } else { bs.iter().map(|b| format!("{:02x}", b)).collect() } }

// ---- document-level encoders ---------------------------------------------------------------------------
pub fn doc_bytes(bs: &[u8]) -> Vec<u64> {
    let mut out = vec![bs.len() as u64];
    for c in bs.chunks(8) { let mut w = [0u8; 8]; w[..c.len()].copy_from_slice(c); out.push(u64::from_le_bytes(w)); }
    out
}
pub fn doc_vec(v: &[u64]) -> Vec<u64> { let mut out = vec![v.len() as u64]; out.extend_from_slice(v); out }
pub fn pack_bits(bits: &[bool]) -> Vec<u64> {
    let mut words: Vec<u64> = vec![0; (bits.len() + 63) / 64];
    for (i, b) in bits.iter().enumerate() { if *b { words[i / 64] |= 1u64 << (i % 64); } }
    words
}
pub fn doc_raw(bits: &[bool]) -> Vec<u64> { let mut out = vec![bits.len() as u64]; out.extend(doc_vec(&pack_bits(bits))); out }
pub fn doc_int(items: &[u64], width: u64) -> Vec<u64> {
    let mut bits: Vec<bool> = Vec::new();
    for x in items { for i in 0..width { bits.push((x >> i) & 1 == 1); } }
    let mut out = vec![items.len() as u64, width]; out.extend(doc_raw(&bits)); out
}
/// plain bitvector with no support structures
pub fn doc_bv(bits: &[bool]) -> Vec<u64> {
    let mut out = vec![bits.iter().filter(|b| **b).count() as u64];
    out.extend(doc_raw(bits)); out.extend([0u64, 0, 0]); out
}
/// sparse vector with an arbitrary admissible low width
pub fn doc_sparse(n: u64, vals: &[u64], w: u64) -> Vec<u64> {
    // arithmetic on u128 so that the document's `x >> w` and `x mod 2^w` are meaningful for every width 1..=64
    let shr = |x: u64| ((x as u128) >> w) as u64;
    let lowp = |x: u64| ((x as u128) & ((1u128 << w) - 1)) as u64;
    let buckets = shr(n) + if lowp(n) != 0 { 1 } else { 0 };
    let mut high: Vec<bool> = Vec::new();
    let mut i = 0usize;
    for b in 0..buckets { while i < vals.len() && shr(vals[i]) == b { high.push(true); i += 1; } high.push(false); }
    let low: Vec<u64> = vals.iter().map(|v| lowp(*v)).collect();
    let mut out = vec![n]; out.extend(doc_bv(&high)); out.extend(doc_int(&low, w)); out
}
fn rl_code(mut v: u64, out: &mut Vec<u64>) { while v > 7 { out.push((v & 7) | 8); v >>= 3; } out.push(v); }
/// run-length vector; `extra_width` widens the samples beyond the minimum (any sufficient width is admissible on input)
pub fn doc_rl(len: u64, runs: &[(u64, u64)], extra_width: u64) -> Vec<u64> {
    let mut units: Vec<u64> = Vec::new();
    let mut samples: Vec<(u64, u64)> = Vec::new();
    let (mut tail, mut ones) = (0u64, 0u64);
    for (s, l) in runs {
        let mut code: Vec<u64> = Vec::new();
        rl_code(s - tail, &mut code); rl_code(l - 1, &mut code);
        if units.len() + code.len() > samples.len() * 64 { while units.len() < samples.len() * 64 { units.push(0); } samples.push((ones, tail)); }
        units.extend(code); tail = s + l; ones += l;
    }
    let maxv = samples.last().map(|p| p.1).unwrap_or(0);
    let width = std::cmp::min(64, (64 - (maxv | 1).leading_zeros()) as u64 + extra_width);
    let flat: Vec<u64> = samples.iter().flat_map(|p| vec![p.0, p.1]).collect();
    let mut out = vec![len, ones]; out.extend(doc_int(&flat, width)); out.extend(doc_int(&units, 4)); out
}
/// wavelet matrix, levels without support structures
pub fn doc_wm(vals: &[u64]) -> Vec<u64> { doc_wm_with(vals, &|_, bits| doc_bv(bits)) }
/// The one exception to "never call the library": the document leaves the CONTENT of the three optional support structures
/// to the implementation, so a level that carries some of them can only get those elements from the library's own
/// writer (`enable_*` + `serialize`); everything around them is still laid out by the document's rules.
pub fn lib_bv(bits: &[bool], flags: &str) -> Vec<u64> {
    use simple_sds::ops::{Rank, Select, SelectZero};
    use simple_sds::serialize::Serialize;
    let mut bv: simple_sds::bit_vector::BitVector = bits.iter().cloned().collect();
    if flags.contains('r') { bv.enable_rank(); }
    if flags.contains('s') { bv.enable_select(); }
    if flags.contains('z') { bv.enable_select_zero(); }
    let mut bytes: Vec<u8> = Vec::new();
    bv.serialize(&mut bytes).unwrap();
    bytes.chunks(8).map(|c| { let mut w = [0u8; 8]; w.copy_from_slice(c); u64::from_le_bytes(w) }).collect()
}
pub fn doc_wm_with(vals: &[u64], level_enc: &dyn Fn(u64, &[bool]) -> Vec<u64>) -> Vec<u64> {
    let maxv = vals.iter().cloned().max().unwrap_or(0);
    let width = (64 - (maxv | 1).leading_zeros()) as u64;
    let mut out = vec![vals.len() as u64, width];
    let mut cur: Vec<u64> = vals.to_vec();
    for level in 0..width {
        let bit = 1u64 << (width - 1 - level);
        let bits: Vec<bool> = cur.iter().map(|v| v & bit != 0).collect();
        out.extend(level_enc(level, &bits));
        let mut next: Vec<u64> = cur.iter().filter(|v| *v & bit == 0).cloned().collect();
        next.extend(cur.iter().filter(|v| *v & bit != 0).cloned());
        cur = next;
    }
    // first: position of the first occurrence of each alphabet value in the reordered vector, or len
    let mut first: Vec<u64> = vec![vals.len() as u64; (maxv + 1) as usize];
    for (pos, v) in cur.iter().enumerate() { if first[*v as usize] == vals.len() as u64 { first[*v as usize] = pos as u64; } }
    let fw = (64 - (first.iter().cloned().max().unwrap_or(0) | 1).leading_zeros()) as u64;
    out.extend(doc_int(&first, fw));
    out
}

// ---- object zoo ---------------------------------------------------------------------------------------
/// recipe lines creating one object of every serializable structure type (names Z0, Z1, …); returns the names
fn zoo(g: &mut Gen, lines: &mut Vec<String>, size: usize) -> Vec<String> {
    let mut names = Vec::new();
    let bits = make_bits(g, size, 2);
    lines.push(format!("raw Z0 from_words {} {}", bits.len(), words_of_bits(&bits))); names.push("Z0".to_string());
    let w = 1 + g.rng.below(64);
    let items: Vec<u64> = (0..(size / 8 + 1)).map(|_| g.rng.next() & if w == 64 { !0 } else { (1u64 << w) - 1 }).collect();
    lines.push(format!("iv Z1 new {}", w)); lines.push(format!("iv Z1 extend {}", ws(&items))); names.push("Z1".to_string());
    let sub = g.rng.below(8);
    lines.push(format!("bv Z2 from_raw {} {}", bits.len(), words_of_bits(&bits)));
    let flags: String = ["", "r", "s", "z", "rs", "rz", "sz", "rsz"][sub as usize].to_string();
    if !flags.is_empty() { lines.push(format!("bv Z2 enable {}", flags)); }
    names.push("Z2".to_string());
    let sp_bits = make_bits(g, size, 3);
    let ones: Vec<String> = sp_bits.iter().enumerate().filter(|(_, b)| **b).map(|(i, _)| i.to_string()).collect();
    lines.push(format!("sp Z3 build {} 0 {}", sp_bits.len(), ones.join(" "))); names.push("Z3".to_string());
    let rl_bits = make_bits(g, size, 6);
    lines.push(format!("bv Z4src from_bits {}", bitstring(&rl_bits)));
    lines.push("rl Z4 copy_of Z4src".to_string()); names.push("Z4".to_string());
    let vals: Vec<u64> = (0..(size / 4 + 1)).map(|_| g.rng.below(40)).collect();
    lines.push(format!("wm Z5 from u8 {}", ws(&vals))); names.push("Z5".to_string());
    names
}

/// integer vectors PRODUCED BY LOADING must be the vectors that were saved: empty ones of every kind of width (fresh, cleared,
/// popped empty) keep their width — equality, bytes, and what a later push stores; also non-empty ones after pops
pub fn iv_reload_groups(g: &mut Gen) {
    for w in [1u64, 2, 7, 13, 31, 32, 33, 63, 64] {
        let mut lines = vec![format!("iv E new {}", w)];
        lines.push("ser sizes E".to_string()); lines.push("ser file E".to_string()); lines.push("ser reload E Y extra=1".to_string());
        lines.push("iv E eq Y".to_string()); lines.push(format!("iv Y push {}", MAXU)); lines.push("iv Y items".to_string()); lines.push("iv Y ser".to_string());
        lines.push(format!("iv C with_len 3 {} {}", w, 5 & if w == 64 { MAXU } else { (1u64 << w) - 1 }));
        lines.push("iv C clear".to_string()); lines.push("ser reload C Y2 extra=0".to_string()); lines.push("iv C eq Y2".to_string());
        lines.push(format!("iv Y2 push {}", MAXU - 1)); lines.push("iv Y2 items".to_string());
        lines.push(format!("iv P with_len 2 {} 1", w)); lines.push("iv P pop".to_string()); lines.push("iv P pop".to_string());
        lines.push("ser reload P Y3 extra=2".to_string()); lines.push("iv P eq Y3".to_string()); lines.push("iv Y3 push 1".to_string()); lines.push("iv Y3 ser".to_string());
        lines.push("ser seq E C P E".to_string());
        g.group(lines);
    }
    for w in [1u64, 5, 13, 64] {
        let mask = if w == 64 { MAXU } else { (1u64 << w) - 1 };
        let items: Vec<u64> = (0..9).map(|_| g.rng.next() & mask).collect();
        let mut lines = vec![format!("iv A new {}", w), format!("iv A extend {}", ws(&items)), "iv A pop".to_string(), "iv A pop".to_string()];
        lines.push("ser reload A Y extra=1".to_string()); lines.push("iv A eq Y".to_string()); lines.push("iv Y items".to_string());
        lines.push(format!("iv Y push {}", MAXU)); lines.push("iv Y ser".to_string());
        g.group(lines);
    }
    // vectors built by EVERY public route (`From<Vec<T>>` for each item type, `FromIterator`, `Extend`), at lengths around
    // the number of items per word, written, sized and loaded back with trailing data
    for ty in ["u8", "u16", "u32", "u64", "usize", "iter64"] {
        let top: u64 = match ty { "u8" => 255, "u16" => 65535, "u32" => (1u64 << 32) - 1, _ => MAXU };
        let mut lines = Vec::new();
        for n in [0usize, 1, 2, 3, 4, 5, 7, 8, 9, 15, 16, 17, 33] {
            let items: Vec<u64> = (0..n).map(|i| if i % 3 == 0 { top } else { g.rng.next() & top }).collect();
            lines.push(format!("iv V from_vec {} {}", ty, ws(&items)).trim_end().to_string());
            lines.push("iv V ser".to_string()); lines.push("ser sizes V".to_string()); lines.push("ser reload V Y extra=1".to_string());
            lines.push("iv V eq Y".to_string()); lines.push("iv Y items".to_string());
        }
        g.group(lines);
    }
}

pub fn c06(g: &mut Gen) {
    crate::gen_sp::sparse_top_universes(g);
    big_vec_reload(g);
    // plain values: every Serialize type at boundary sizes; serialize (checked against the document) and load back with
    // trailing data in the stream
    let mut lines = Vec::new();
    for x in [0u64, 1, 255, 256, 1 << 32, MAXU] {
        lines.push(format!("ser val u64 {}", x)); lines.push(format!("ser val usize {}", x));
        lines.push(format!("ser val pair {} {}", x, MAXU - x));
        lines.push(format!("ser val optu64 {}", x));
        lines.push(format!("ser load u64 cut=- x=ok : {} 77", x));
        lines.push(format!("ser load pair cut=- x=ok : {} {} 77 78", x, x ^ 5));
        lines.push(format!("ser load optu64 cut=- x=ok : 1 {} 77", x));
    }
    lines.push("ser val optu64 none".to_string()); lines.push("ser load optu64 cut=- x=ok : 0 5 6".to_string());
    lines.push("ser absent".to_string());
    for n in [0usize, 1, 2, 7, 8, 9, 63, 64, 65, 200] {
        let v: Vec<u64> = (0..n).map(|_| g.rng.word()).collect();
        lines.push(format!("ser val vecu64 {}", ws(&v)));
        lines.push(format!("ser val vecusize {}", ws(&v)));
        lines.push(format!("ser load vecu64 cut=- x=ok : {} 1 2 3", ws(&doc_vec(&v))));
        if n % 2 == 0 { lines.push(format!("ser val vecpair {}", ws(&v))); let mut d = vec![(n / 2) as u64]; d.extend(&v); lines.push(format!("ser load vecpair cut=- x=ok : {} 9", ws(&d))); }
        lines.push(format!("ser val optvecu64 some {}", ws(&v)));
        let bs: Vec<u8> = (0..n).map(|_| g.rng.next() as u8).collect();
        lines.push(format!("ser val bytes {}", hex(&bs)));
        lines.push(format!("ser load bytes cut=- x=ok : {} 4 5", ws(&doc_bytes(&bs))));
        lines.push(format!("ser val optbytes some {}", hex(&bs)));
        let st: Vec<u8> = (0..n).map(|i| b"simple-sds \xc3\xa4"[i % 12]).collect();
        let st = String::from_utf8_lossy(&st).to_string().into_bytes();
        lines.push(format!("ser val string {}", hex(&st)));
        lines.push(format!("ser load string cut=- x=ok : {} 4 5", ws(&doc_bytes(&st))));
        lines.push(format!("ser val optstring some {}", hex(&st)));
    }
    lines.push("ser load string cut=- x=err : 2 65535".to_string()); // invalid UTF-8
    lines.push("ser val optvecu64 none".to_string()); lines.push("ser val optbytes none".to_string());
    g.group(lines);
    // structures: exact sizes, file round trip, reload with trailing data, back-to-back streams, equal answers after reload
    let sizes: Vec<usize> = if g.thorough { vec![0, 1, 63, 64, 65, 513, 4097, 9000] } else { vec![0, 1, 64, 65, 600, 4200] };
    for size in sizes {
        for rep in 0..(if g.thorough { 4 } else { 2 }) {
            let mut lines = Vec::new();
            let names = zoo(g, &mut lines, size);
            for (i, n) in names.iter().enumerate() {
                lines.push(format!("ser sizes {}", n));
                lines.push(format!("ser file {}", n));
                lines.push(format!("ser reload {} Y{} extra={}", n, i, (rep + i) % 3));
            }
            // loaded values answer as the originals
            lines.push("bv Y2 supports".to_string()); lines.push("bv Z2 supports".to_string());
            lines.push("bv Y2 enable rsz".to_string()); lines.push("bv Y2 rank 5".to_string()); lines.push("bv Y2 select 1".to_string());
            lines.push("sp Y3 rank 7".to_string()); lines.push("sp Y3 select 0".to_string()); lines.push("sp Y3 succ 3".to_string());
            lines.push("rl Y4 rank 7".to_string()); lines.push("rl Y4 select 0".to_string()); lines.push("rl Y4 runs".to_string());
            lines.push("wm Y5 rank 3 1".to_string()); lines.push("wm Y5 items".to_string());
            lines.push("iv Y1 items".to_string());
            lines.push(format!("ser seq {}", names.join(" ")));
            lines.push(format!("ser seq {} {}", names[5], names[2]));
            g.group(lines);
        }
    }
    // values reached through mutation histories (pops and shrinking resizes must leave exactly the words the length needs):
    // sizes as predicted, round trip, back-to-back
    let nh = if g.thorough { 400 } else { 80 };
    for i in 0..nh {
        let w = [64u64, 1, 8, 13, 32, 33, 63, 21, 7, 16][i % 10];
        let n = g.rng.range(1, 24) as usize;
        let mut ops: Vec<usize> = (0..n).map(|_| 0).collect();
        for _ in 0..g.rng.range(1, 10) { ops.push(*g.rng.pick(&[2usize, 2, 2, 6, 0])); }
        let mut lines = crate::gen_more::iv_history(g, w, &ops, false);
        lines.push("ser sizes A".to_string()); lines.push("ser reload A Y extra=1".to_string()); lines.push("iv Y items".to_string()); lines.push("ser seq A B A".to_string());
        g.group(lines);
        let n = g.rng.range(1, 20) as usize;
        let mut ops: Vec<usize> = (0..n).map(|_| 1).collect();
        for _ in 0..g.rng.range(1, 12) { ops.push(*g.rng.pick(&[3usize, 3, 3, 2, 7, 1])); }
        let mut lines = crate::gen_more::raw_history(g, &ops);
        lines.push("ser sizes A".to_string()); lines.push("ser reload A Y extra=2".to_string()); lines.push("ser seq A B A".to_string());
        g.group(lines);
    }
    // degenerate values through save / load: EMPTY integer vectors of every kind of width (fresh, cleared, popped empty —
    // the loaded vector must keep the width: equality, bytes, and what a later push stores), all-zero / single-symbol /
    // one-item wavelet matrices, all-zero and all-one bitvectors with every support subset, empty sparse and run-length vectors
    iv_reload_groups(g);
    for (i, vals) in [vec![0u64; 1], vec![0; 2], vec![0; 9], vec![0; 64], vec![0; 65], vec![5; 7], vec![1; 64], vec![255; 3], vec![0, 0, 1], vec![1, 0, 0], vec![0, 2, 0, 2],
                      vec![7], vec![0, 1, 2, 3], vec![3, 3, 3, 3, 0]].iter().enumerate() {
        let ty = ["u8", "u64", "u16", "usize", "u32"][i % 5];
        let mut lines = vec![format!("wm W from {} {}", ty, ws(vals))];
        lines.push("ser sizes W".to_string()); lines.push("ser file W".to_string()); lines.push("ser reload W Y extra=1".to_string());
        lines.push("wm W eq Y".to_string()); lines.push("wm Y items".to_string());
        for v in [0u64, 1, 2, 5, 255] { lines.push(format!("wm Y rank {} {}", vals.len(), v)); lines.push(format!("wm Y select 0 {}", v)); }
        lines.push("ser seq W W".to_string());
        g.group(lines);
    }
    for n in [1usize, 63, 64, 65, 512, 513, 4096, 4097] {
        for fill in [false, true] {
            for flags in ["", "r", "s", "z", "rs", "rz", "sz", "rsz"] {
                let bits = vec![fill; n];
                let mut lines = vec![format!("bv B from_raw {} {}", n, words_of_bits(&bits))];
                if !flags.is_empty() { lines.push(format!("bv B enable {}", flags)); }
                lines.push("ser sizes B".to_string()); lines.push("ser reload B Y extra=1".to_string()); lines.push("bv Y supports".to_string());
                lines.push("bv Y enable rsz".to_string()); lines.push(format!("bv Y rank {}", n / 2)); lines.push("bv Y select 0".to_string()); lines.push("bv Y select0 0".to_string());
                g.group(lines);
            }
        }
    }
    {
        let mut lines = vec!["sp S build 0 0".to_string(), "ser reload S Y extra=1".to_string(), "sp S eq Y".to_string()];
        lines.push("sp T build 77 0".to_string()); lines.push("ser reload T Y2 extra=1".to_string()); lines.push("sp T eq Y2".to_string()); lines.push("sp Y2 rank 77".to_string());
        lines.push("rl R build : l0".to_string()); lines.push("ser reload R Z extra=1".to_string()); lines.push("rl R eq Z".to_string());
        lines.push("rl Q build : l500".to_string()); lines.push("ser reload Q Z2 extra=1".to_string()); lines.push("rl Q eq Z2".to_string()); lines.push("rl Z2 rank 500".to_string());
        lines.push("rl O build : s0,500".to_string()); lines.push("ser reload O Z3 extra=1".to_string()); lines.push("rl O eq Z3".to_string()); lines.push("rl Z3 rank 500".to_string());
        lines.push("ser seq S T R Q O".to_string());
        g.group(lines);
    }
    long_partial_superblocks(g);
    // sparse and run-length vectors over universes up to usize::MAX written and loaded back
    for (n, vals) in [(MAXU, vec![3u64, 1 << 40, MAXU - 9, MAXU - 1]), (MAXU, vec![7]), (MAXU - 1, vec![0, MAXU - 2]), ((1u64 << 63) + (1u64 << 59), vec![5, 1u64 << 63]), (0xFEDC_BA98_7654_3211, vec![1, 0x1234_5678_9ABC_DEF0, 0xFEDC_BA98_7654_3210])] {
        let mut lines = vec![format!("sp S build {} 0 {}", n, ws(&vals))];
        lines.push("ser sizes S".to_string()); lines.push("ser file S".to_string()); lines.push("ser reload S Y extra=1".to_string()); lines.push("sp S eq Y".to_string());
        for x in [0u64, 7, 1u64 << 63, n - 1, n] { lines.push(format!("sp Y rank {}", x)); lines.push(format!("sp Y succ {}", x)); }
        let runs: Vec<String> = vals.iter().map(|v| format!("s{},1", v)).collect();
        lines.push(format!("rl R build : {} l{}", runs.join(" "), n));
        lines.push("ser sizes R".to_string()); lines.push("ser file R".to_string()); lines.push("ser reload R Z extra=1".to_string()); lines.push("rl R eq Z".to_string());
        for x in [0u64, 7, 1u64 << 63, n - 1, n] { lines.push(format!("rl Z rank {}", x)); lines.push(format!("rl Z succ {}", x)); }
        lines.push("ser seq S R S".to_string());
        g.group(lines);
    }
    // structures whose loaders REBUILD what is not stored: run-length vectors with more than 8 blocks (the three sample
    // indexes have more than one sample only then), and bitvectors / sparse vectors with several select superblocks
    for nruns in (if g.thorough { vec![300usize, 700, 3300] } else { vec![300usize, 700] }) {
        let mut runs: Vec<(u64, u64)> = Vec::new(); let mut pos = 0u64;
        for i in 0..nruns as u64 { let gap = 1 + g.rng.below(if i % 50 == 0 { 1 << 20 } else { 40 }); let l = 1 + g.rng.below(30); runs.push((pos + gap, l)); pos += gap + l; }
        let len = pos + 17;
        let calls: Vec<String> = runs.iter().map(|(a, l)| format!("s{},{}", a, l)).collect();
        let mut lines = vec![format!("rl R build : {} l{}", calls.join(" "), len)];
        lines.push("ser sizes R".to_string()); lines.push("ser file R".to_string());
        lines.push("ser reload R Y extra=2".to_string());
        lines.push("rl R eq Y".to_string());
        let ones: u64 = runs.iter().map(|r| r.1).sum();
        for k in 0..=40u64 {
            let x = len * k / 40;
            if x < len { lines.push(format!("rl Y get {}", x)); }
            lines.push(format!("rl Y rank {}", x)); lines.push(format!("rl Y pred {}", x)); lines.push(format!("rl Y succ {}", x));
            lines.push(format!("rl Y select {}", ones * k / 40)); lines.push(format!("rl Y select0 {}", (len - ones) * k / 40));
        }
        for (a, l) in runs.iter().step_by(37) { lines.push(format!("rl Y get {}", a)); lines.push(format!("rl Y get {}", a + l)); lines.push(format!("rl Y rank {}", a + l - 1)); }
        lines.push("rl Y runs".to_string());
        lines.push("ser seq R R".to_string());
        g.group(lines);
    }
    for (size, kind) in [(20000usize, 2usize), (20000, 3), (70000, 5), (9000, 1), (9000, 0)] {
        let bits = make_bits(g, size, kind);
        let mut lines = vec![format!("bv B from_raw {} {}", bits.len(), words_of_bits(&bits)), "bv B enable rsz".to_string()];
        lines.push("ser sizes B".to_string()); lines.push("ser reload B Y extra=1".to_string());
        let ones = bits.iter().filter(|b| **b).count() as u64;
        for k in 0..=20u64 { lines.push(format!("bv Y rank {}", size as u64 * k / 20)); lines.push(format!("bv Y select {}", ones * k / 20)); lines.push(format!("bv Y select0 {}", (size as u64 - ones) * k / 20)); }
        let pos: Vec<String> = bits.iter().enumerate().filter(|(_, b)| **b).map(|(i, _)| i.to_string()).collect();
        if pos.len() <= 12000 {
            lines.push(format!("sp S build {} 0 {}", size, pos.join(" ")));
            lines.push("ser reload S T extra=0".to_string());
            for k in 0..=20u64 { lines.push(format!("sp T rank {}", size as u64 * k / 20)); lines.push(format!("sp T select {}", ones * k / 20)); lines.push(format!("sp T select0 {}", (size as u64 - ones) * k / 20)); }
        }
        g.group(lines);
    }
    for c in [0u64, 1, 63, 64, 65, 1000] {
        g.one(format!("ser size_by_params raw {}", c));
        for w in [1u64, 13, 64] { g.one(format!("ser size_by_params iv {} {}", c, w)); }
    }
}

/// optional structures whose size is around multiples of 8192 elements (64 KiB), followed by marker words
pub fn big_options(g: &mut Gen) {
    let mut lines = Vec::new();
    let sizes: Vec<usize> = if g.thorough { vec![8190, 8191, 8192, 8193, 16383, 16384, 16385, 24576, 65536] } else { vec![8191, 8192, 8193, 16384] };
    for n in sizes {
        let body: Vec<String> = (0..n).map(|i| ((i * 7 + 3) % 10).to_string()).collect();
        lines.push(format!("ser skipopt cut=- : {} {} 77 78", n, body.join(" ")));
        lines.push(format!("ser skipopt cut={} : {} {} 77 78", 8 * n, n, body.join(" ")));
    }
    g.group(lines);
}

/// bitvectors whose serialized parts are MULTI-MEGABYTE vectors (more than 2^20 words of data; more than 4096 and more
/// than 2^19 rank samples): written with all supports, loaded back (`hreload` keeps the loaded copy) and queried over
/// the whole range by the closed-form reference for fill-and-flip vectors.  Thorough scale only.
pub fn big_vec_reload(g: &mut Gen) {
    if !g.thorough { return; }
    for (len, fill) in [(64u64 * ((1u64 << 20) + 5) - 17, 1u64), (2_200_000, 0), (2_200_000, 1), (64u64 * ((1u64 << 20) + 5) - 17, 0)] {
        let mut flips: Vec<u64> = vec![0, 1, 63, 64, 4095 * 64 + 7, 4096 * 64, 4096 * 64 + 1, 524_287, 524_288, 1_048_575, 1_048_576, 2_097_151, 2_097_152,
                                       len / 2, len - 70, len - 2, len - 1];
        if len > (1u64 << 26) { flips.extend([64 * (1u64 << 19), 64 * (1u64 << 19) + 1, 64 * (1u64 << 20) - 1, 64 * (1u64 << 20), 64 * (1u64 << 20) + 64, 512 * (1u64 << 17) + 3]); }
        flips.retain(|x| *x < len); flips.sort(); flips.dedup();
        let k = flips.len() as u64;
        let fl: Vec<String> = flips.iter().map(|x| x.to_string()).collect();
        let mut lines = vec![format!("bv H huge {} {} rsz {}", len, fill, fl.join(" ")), "bv H hreload".to_string()];
        lines.push("bv H len".to_string()); lines.push("bv H ones".to_string()); lines.push("bv H zeros".to_string());
        let mut xs: Vec<u64> = flips.clone();
        for f in &flips { xs.push(f + 1); xs.push(f.saturating_sub(1)); }
        for i in 0..40u64 { xs.push(i * (len / 40) + (i * 37) % 64); }
        xs.push(len); xs.sort(); xs.dedup();
        for x in xs {
            if x < len { lines.push(format!("bv H get {}", x)); }
            lines.push(format!("bv H rank {}", x)); lines.push(format!("bv H pred {}", x)); lines.push(format!("bv H succ {}", x));
        }
        let ones = if fill == 1 { len - k } else { k };
        for (op, c) in [("select", ones), ("select0", len - ones)] {
            let mut rs: Vec<u64> = vec![0, 1, k.saturating_sub(1), k, 4095, 4096, 4097, c / 3, c / 2, c.saturating_sub(4097), c.saturating_sub(2), c.saturating_sub(1), c];
            for i in 0..20u64 { rs.push(i * (c / 20)); }
            rs.sort(); rs.dedup();
            for r in rs { lines.push(format!("bv H {} {}", op, r)); }
        }
        g.group(lines);
    }
}

/// bitvectors of >= 83,521 bits whose last (or only) select superblock is LONG and partially filled — for set bits
/// (very sparse) and for unset bits (very dense): written with every subset of supports, reloaded, compared, queried
pub fn long_partial_superblocks(g: &mut Gen) {
    for (len, dense) in [(100_000usize, false), (100_000, true), (200_000, false)] {
        let mut bits = vec![dense; len];
        for p in [0usize, 1, 70_000, len - 1] { bits[p] = !dense; }
        if len > 150_000 { for p in (100_000..100_000 + 4096).step_by(1) { bits[p] = !dense; } }   // a full dense superblock, then a sparse tail
        let mut lines = vec![format!("bv FULL from_raw {} {}", len, words_of_bits(&bits)), "bv FULL enable rsz".to_string()];
        for (si, sub) in ["s", "z", "sz", "rsz"].iter().enumerate() {
            lines.push(format!("bv A{} from_raw {} {}", si, len, words_of_bits(&bits)));
            lines.push(format!("bv A{} enable {}", si, sub));
            lines.push(format!("ser sizes A{}", si));
            lines.push(format!("ser reload A{} L{} extra=1", si, si));
            lines.push(format!("bv L{} supports", si));
            lines.push(format!("bv L{} enable rsz", si)); lines.push(format!("bv L{} eq FULL", si));
            for r in [0usize, 1, 2, 3, 4, 4095, 4096, 4099, 4100, len / 2, len - 5, len - 4] { lines.push(format!("bv L{} select {}", si, r)); lines.push(format!("bv L{} select0 {}", si, r)); }
        }
        g.group(lines);
    }
}

/// iterators with LONG skips (`nth` of 512 and more, after items were taken from the back) over the same vector under every
/// subset of supports: a support structure may speed a skip up, it must not change what the iterator yields afterwards
pub fn long_skips_under_supports(g: &mut Gen) {
    for (len, kind) in [(6000usize, 2usize), (3000, 6)] {
        let bits = crate::gen_bv::make_bits(g, len, kind);
        let ones = bits.iter().filter(|b| **b).count();
        let zeros = len - ones;
        for sub in ["-", "r", "s", "z", "sz", "rsz"] {
            let mut lines = vec![format!("bv A from_raw {} {}", len, crate::gen_bv::words_of_bits(&bits))];
            if sub != "-" { lines.push(format!("bv A enable {}", sub)); }
            for (what, cnt) in [("one", ones), ("zero", zeros)] {
                if cnt < 1300 { continue; }
                lines.push(format!("bv A it {} : b b l N512 l n b l N600 l n l", what));
                lines.push(format!("bv A it {} : N511 b N512 l b n l", what));
                lines.push(format!("bv A it {} : b N{} l n b", what, cnt - 2));
                lines.push(format!("bv A it {} : b N{} l n b", what, cnt - 1));
                // skips from the BACK after items were taken from the front: in range, exactly the remainder, overshooting
                lines.push(format!("bv A it {} : n n B{} l b n", what, cnt - 4));
                lines.push(format!("bv A it {} : n n n B{} l b n", what, cnt - 3));
                lines.push(format!("bv A it {} : n N600 B{} l b", what, cnt - 2));
                lines.push(format!("bv A it {} : n B520 l B{} l b n", what, cnt - 1));
            }
            if ones >= 1300 && sub.contains('s') { lines.push("bv A it sel 5 : b b N513 l n b l".to_string()); lines.push(format!("bv A it sel 700 : n B{} l b", ones - 3)); lines.push(format!("bv A it sel 700 : B{} l b n", ones - 700)); }
            if ones >= 1300 && sub.contains('s') && sub.contains('r') { lines.push("bv A it succ 70 : b N700 l n l".to_string()); }
            if zeros >= 1300 && sub.contains('z') { lines.push("bv A it sel0 5 : b b N513 l n b l".to_string()); }
            g.group(lines);
        }
    }
}

pub fn c19(g: &mut Gen) {
    long_skips_under_supports(g);
    big_vec_reload(g);
    big_options(g);
    long_partial_superblocks(g);
    // 8 subsets of supports at write time x orders of enable_* interleaved with serialize / load
    let orders = ["rsz", "rzs", "srz", "szr", "zrs", "zsr"];
    for (len, kind) in [(0usize, 0usize), (1, 1), (70, 2), (600, 3), (5000, 2), (4200, 4)] {
        let bits = make_bits(g, len, kind);
        let mut lines = vec![format!("bv FULL from_raw {} {}", len, words_of_bits(&bits)), "bv FULL enable rsz".to_string()];
        for (si, sub) in ["", "r", "s", "z", "rs", "rz", "sz", "rsz"].iter().enumerate() {
            let a = format!("A{}", si);
            lines.push(format!("bv {} from_raw {} {}", a, len, words_of_bits(&bits)));
            if !sub.is_empty() { lines.push(format!("bv {} enable {}", a, sub)); }
            lines.push(format!("ser reload {} L{} extra=1", a, si));
            lines.push(format!("bv L{} supports", si));
            // enabling the rest in some order yields the fully enabled original; enabling is idempotent
            let ord = orders[(si + len) % 6];
            for c in ord.chars() { lines.push(format!("bv L{} enable {}", si, c)); if si % 2 == 0 { lines.push(format!("ser reload L{} L{} extra=0", si, si)); } }
            lines.push(format!("bv L{} enable {}", si, ord));
            lines.push(format!("bv L{} eq FULL", si));
            lines.push(format!("bv L{} ser", si));
            for i in [0usize, 1, len / 2, len] { lines.push(format!("bv L{} rank {}", si, i)); lines.push(format!("bv L{} select {}", si, i / 3)); lines.push(format!("bv L{} select0 {}", si, i / 3)); }
        }
        lines.push("bv FULL ser".to_string());
        g.group(lines);
    }
    // every sequence of enable_* calls incl. enable_pred_succ (`p` = rank + select), from every starting subset, also
    // after a reload of a partial subset: supports reported, equality with the fully enabled value, answers
    for (len, kind) in [(0usize, 0usize), (70, 2), (700, 3)] {
        let bits = make_bits(g, len, kind);
        let mut lines = vec![format!("bv FULL from_raw {} {}", len, words_of_bits(&bits)), "bv FULL enable rsz".to_string(),
                             format!("bv RS from_raw {} {}", len, words_of_bits(&bits)), "bv RS enable rs".to_string()];
        let alpha = ["r", "s", "z", "p"];
        let mut id = 0;
        for a in alpha { for b in alpha { for c in ["", "r", "s", "z", "p"] {
            id += 1;
            let n = format!("E{}", id);
            lines.push(format!("bv {} from_raw {} {}", n, len, words_of_bits(&bits)));
            lines.push(format!("bv {} enable {}", n, a));
            if id % 3 == 0 { lines.push(format!("ser reload {} {} extra=0", n, n)); }
            lines.push(format!("bv {} enable {}", n, b)); lines.push(format!("bv {} supports", n));
            if !c.is_empty() { lines.push(format!("bv {} enable {}", n, c)); lines.push(format!("bv {} supports", n)); }
            // after `p` anywhere in the history predecessor / successor must work
            if a == "p" || b == "p" || c == "p" {
                for x in [0usize, len / 2, len] { lines.push(format!("bv {} pred {}", n, x)); lines.push(format!("bv {} succ {}", n, x)); }
                if a != "z" && b != "z" && c != "z" { lines.push(format!("bv {} eq RS", n)); }
            }
            lines.push(format!("bv {} enable rsz", n)); lines.push(format!("bv {} eq FULL", n));
        } } }
        g.group(lines);
    }
    // composite structures load from files whose embedded bitvectors carry no support structures (document-level encoder)
    for n in [0u64, 1, 70, 1000] {
        let m = std::cmp::min(n, 40);
        let mut vals: Vec<u64> = (0..m).map(|_| g.rng.below(n.max(1))).collect(); vals.sort(); vals.dedup();
        let w = 1 + g.rng.below(5);
        let mut lines = vec![format!("ser load sp cut=- x=ok store=S : {}", ws(&doc_sparse(n, &vals, w)))];
        lines.push(format!("sp S ref {} {}", n, ws(&vals)));
        for i in [0u64, 1, n / 2, n] { lines.push(format!("sp S rank {}", i)); lines.push(format!("sp S select {}", i % (m + 1))); lines.push(format!("sp S select0 {}", i)); lines.push(format!("sp S pred {}", i)); }
        // …for every low width the file format admits (1..=64), not only the ones the crate's own builder chooses
        for w2 in [7u64, 20, 33, 62, 63, 64] {
            lines.push(format!("ser load sp cut=- x=ok store=S2 : {}", ws(&doc_sparse(n, &vals, w2))));
            lines.push("sp S2 len".to_string()); lines.push("sp S2 ones".to_string());
            for i in [0u64, n / 2, n] { lines.push(format!("sp S2 rank {}", i)); lines.push(format!("sp S2 select {}", i % (m + 1))); lines.push(format!("sp S2 select0 {}", i)); lines.push(format!("sp S2 succ {}", i)); }
        }
        let wmv: Vec<u64> = (0..m).map(|_| g.rng.below(9)).collect();
        lines.push(format!("ser load wm cut=- x=ok store=W : {}", ws(&doc_wm(&wmv))));
        lines.push(format!("wm W ref {}", ws(&wmv)));
        lines.push("wm W items".to_string());
        for v in 0..10u64 { lines.push(format!("wm W rank {} {}", m / 2, v)); lines.push(format!("wm W select 0 {}", v)); }
        // … and the same files as PRESENT optional structures (length prefix = the size in the file, which is smaller than the
        // loaded value once `load` has rebuilt the supports), and as absent ones
        let dsp = doc_sparse(n, &vals, w);
        lines.push(format!("ser load optsp cut=- x=ok : {} {} 4242", dsp.len(), ws(&dsp)));
        let dwm = doc_wm(&wmv);
        lines.push(format!("ser load optwm cut=- x=ok : {} {} 4242", dwm.len(), ws(&dwm)));
        lines.push("ser load optsp cut=- x=ok : 0 4242".to_string()); lines.push("ser load optwm cut=- x=ok : 0 4242".to_string());
        lines.push("ser load optrl cut=- x=ok : 0 4242".to_string());
        g.group(lines);
    }
    // skipping an optional structure moves the reader exactly past it, whatever it contains
    let mut lines = Vec::new();
    for n in [0u64, 1, 2, 5, 64] {
        let body: Vec<u64> = (0..n).map(|_| g.rng.word()).collect();
        let mut stream = vec![n]; stream.extend(&body); stream.extend([11u64, 12]);
        lines.push(format!("ser skipopt cut=- : {}", ws(&stream)));
    }
    g.group(lines);
}

pub fn c14(g: &mut Gen) {
    big_options(g);
    // every strict prefix of a serialization is refused; every write budget below the size fails
    let sizes: Vec<usize> = if g.thorough { vec![0, 1, 70, 130, 700] } else { vec![0, 1, 70, 300] };
    for size in sizes {
        let mut lines = Vec::new();
        let names = zoo(g, &mut lines, size);
        g.group(lines.clone());
        for n in &names {
            // the generator does not know the size: cut points are dense near the start and swept in steps; the driver
            // knows the size and states the expectation for each line
            let mut l2 = lines.clone();
            let limit = 64 + size * 3;
            let step = if size <= 70 || g.thorough { 1 } else { 7 };
            let mut k = 0; while k <= limit { l2.push(format!("ser cutload {} {}", n, k)); l2.push(format!("ser sink {} {}", k, n)); k += if k < 80 { 1 } else { step }; }
            g.group(l2);
        }
    }
    // plain values and optionals cut at every byte
    let mut lines = Vec::new();
    let v: Vec<u64> = vec![5, 6, 7];
    let enc = doc_vec(&v);
    for k in 0..(8 * enc.len()) { lines.push(format!("ser load vecu64 cut={} x=err : {}", k, ws(&enc))); }
    let bs = doc_bytes(b"hello world");
    for k in 0..(8 * bs.len()) { lines.push(format!("ser load bytes cut={} x=err : {}", k, ws(&bs))); lines.push(format!("ser load string cut={} x=err : {}", k, ws(&bs))); }
    let opt = { let mut o = vec![enc.len() as u64]; o.extend(&enc); o };
    for k in 0..(8 * opt.len()) { lines.push(format!("ser load optvecu64 cut={} x=err : {}", k, ws(&opt))); lines.push(format!("ser skipopt cut={} : {}", k, ws(&opt))); }
    lines.push(format!("ser skipopt cut=- : {}", ws(&opt)));
    g.group(lines);
    // a mapped view of a structure cut short by truncation is refused (element granularity)
    let mut lines = Vec::new();
    let raw = doc_raw(&make_bits(g, 200, 2));
    for k in 1..raw.len() { lines.push(format!("map raw 0 trunc={} x=err : {}", k, ws(&raw))); }
    let iv = doc_int(&[1, 2, 3, 4, 5, 6, 7, 8, 9, 10, 11, 12], 13);
    for k in 1..iv.len() { lines.push(format!("map int 0 trunc={} x=err : {}", k, ws(&iv))); }
    let by = doc_bytes(b"0123456789abcdefXYZ");
    for k in 1..by.len() { lines.push(format!("map bytes 0 trunc={} x=err : {}", k, ws(&by))); lines.push(format!("map str 0 trunc={} x=err : {}", k, ws(&by))); }
    g.group(lines);
    // serialize_to (the path-based entry point) onto a device that is full: the error must surface, whatever buffering
    // the implementation uses
    for size in [0usize, 1, 64, 700, 9000] {
        let mut lines = Vec::new();
        let names = zoo(g, &mut lines, size);
        for n in &names { lines.push(format!("ser fullto {}", n)); }
        g.group(lines);
    }
    // buffered writers under a file size limit never report success for an incomplete file
    let limits: Vec<u64> = if g.thorough { (2..40).map(|k| k * 8).collect() } else { vec![16, 24, 32, 40, 64, 72, 128, 200, 264] };
    for lim in limits {
        let mut lines = Vec::new();
        let pushes: Vec<String> = (0..30).map(|_| format!("i{},{}", g.rng.word(), 1 + g.rng.below(64))).collect();
        lines.push(format!("wr limit {} raw 64 : {} c", lim, pushes.join(" ")));
        lines.push(format!("wr limit {} raw 256 : {} c c", lim, pushes.join(" ")));
        let vals: Vec<String> = (0..40).map(|_| format!("p{}", g.rng.next())).collect();
        lines.push(format!("wr limit {} int 17 8 : {} c", lim, vals.join(" ")));
        lines.push(format!("wr limit {} int 64 2 : {} c", lim, vals.join(" ")));
        // retries: a second / third close() after a failed one, and close() after pushes that panicked, must not turn
        // the failure into a reported success
        lines.push(format!("wr limit {} raw 64 : {} c c c", lim, pushes.join(" ")));
        lines.push(format!("wr limit {} raw 1000000 : {} c c", lim, pushes.join(" ")));
        lines.push(format!("wr limit {} int 17 8 : {} c c", lim, vals.join(" ")));
        lines.push(format!("wr limit {} int 33 100000 : {} c c c", lim, vals.join(" ")));
        g.group(lines);
    }
}

pub fn c12(g: &mut Gen) {
    let widths: Vec<u64> = if g.thorough { (1..=64).collect() } else { vec![1, 2, 7, 8, 13, 31, 32, 33, 63, 64] };
    for w in &widths {
        let mut bufs: Vec<u64> = vec![0, 1, 2, 63 / w + 1, 64 / w, 64 / w + 1, 128 / w + 1, 10, 100];
        bufs.sort(); bufs.dedup();
        let mut lines = Vec::new();
        for b in &bufs {
            for n in [0usize, 1, 5, 64, 200] {
                if !g.thorough && n == 200 && *b > 10 { continue; }
                let vals: Vec<u64> = (0..n).map(|_| g.rng.word()).collect();
                let calls: Vec<String> = vals.iter().map(|v| format!("p{}", v)).collect();
                match (n + *b as usize) % 4 {
                    0 => lines.push(format!("wr int {} {} : {} c", w, b, calls.join(" "))),
                    1 => lines.push(format!("wr int {} {} : {} l o c c o l", w, b, calls.join(" "))),     // close is idempotent
                    2 => lines.push(format!("wr int {} {} : {}", w, b, calls.join(" "))),                 // dropped while open
                    _ => lines.push(format!("wr int {} {} : e{} l c", w, b, vals.iter().map(|v| v.to_string()).collect::<Vec<_>>().join(","))),
                }
            }
        }
        g.group(lines);
    }
    g.group(vec!["wr int 0 8 : p1 c".to_string(), "wr int 65 8 : p1 c".to_string(), "wr int 8 default : p1 p2 p300 c".to_string()]);
    // `Extend` with every item type (u8 / u16 / u32 / u64), into writers narrower and wider than the item type, mixed with push
    let mut lines = Vec::new();
    for w in [3u64, 8, 9, 13, 16, 17, 32, 33, 64] {
        for b in [0u64, 5, 100] {
            let v8: Vec<String> = (0..7).map(|_| (g.rng.next() & 0xFF).to_string()).collect();
            let v16: Vec<String> = (0..5).map(|_| (g.rng.next() & 0xFFFF).to_string()).collect();
            let v32: Vec<String> = (0..4).map(|_| (g.rng.next() & 0xFFFF_FFFF).to_string()).collect();
            lines.push(format!("wr int {} {} : x{} l c", w, b, v8.join(",")));
            lines.push(format!("wr int {} {} : p{} y{} z{} l", w, b, g.rng.word(), v16.join(","), v32.join(",")));
            lines.push(format!("wr int {} {} : z{} x{} e{} c c", w, b, v32.join(","), v8.join(","), g.rng.word()));
        }
    }
    g.group(lines);
    // raw writer: bit and 0..64-bit integer pushes mixed, buffer sizes incl. 0 and non-multiples of 64
    for b in [0u64, 1, 63, 64, 65, 127, 128, 130, 1000] {
        let mut lines = Vec::new();
        for rep in 0..(if g.thorough { 12 } else { 4 }) {
            let n = g.rng.range(0, 80) as usize;
            let calls: Vec<String> = (0..n).map(|_| match g.rng.below(4) { 0 => format!("b{}", g.rng.below(2)), 1 => format!("i{},0", g.rng.next()), 2 => format!("i{},64", g.rng.word()), _ => format!("i{},{}", g.rng.word(), g.rng.range(1, 63)) }).collect();
            match rep % 3 {
                0 => lines.push(format!("wr raw {} : {} c", b, calls.join(" "))),
                1 => lines.push(format!("wr raw {} : {} l o c o c l", b, calls.join(" "))),
                _ => lines.push(format!("wr raw {} : {}", b, calls.join(" "))),
            }
        }
        g.group(lines);
    }
    g.group(vec!["wr raw default : b1 i5,3 i0,0 c".to_string()]);
}

pub fn c13(g: &mut Gen) {
    // raw vectors whose bit length is 0, a multiple of 64, or one off: bits, `count_ones` and integers through the view
    let mut lines = Vec::new();
    for n in [0usize, 1, 63, 64, 65, 127, 128, 129, 192, 640, 641, 4096] {
        for kind in [1usize, 2] {
            let b = make_bits(g, n, kind);
            let mut file = vec![77u64]; file.extend(doc_raw(&b)); file.push(78);
            lines.push(format!("map rawbits 1 trunc=- x=ok : {}", ws(&file)));
            lines.push(format!("map raw 1 trunc=- x=ok : {}", ws(&file)));
        }
    }
    g.group(lines);
    // a file made of a concatenation of serialized structures; every mapped type at its structure's offset, at every other
    // offset inside (no expectation beyond agreement with the model), at every offset >= file length, and under truncation
    let nfiles = if g.thorough { 40 } else { 10 };
    for _ in 0..nfiles {
        let mut file: Vec<u64> = Vec::new();
        let mut parts: Vec<(&str, usize, usize)> = Vec::new();   // (map type, offset, length in elements)
        let k = 2 + g.rng.below(5);
        for _ in 0..k {
            let off = file.len();
            let (ty, enc): (&str, Vec<u64>) = match g.rng.below(7) {
                0 => { let n = g.rng.below(10) as usize; ("slice1", doc_vec(&(0..n).map(|_| g.rng.word()).collect::<Vec<u64>>())) },
                1 => { let n = g.rng.below(6) as usize; let v: Vec<u64> = (0..2 * n).map(|_| g.rng.word()).collect(); let mut e = vec![n as u64]; e.extend(&v); ("slice2", e) },
                2 => { let n = g.rng.below(30) as usize; ("bytes", doc_bytes(&(0..n).map(|_| g.rng.next() as u8).collect::<Vec<u8>>())) },
                3 => { let n = g.rng.below(30) as usize; ("str", doc_bytes(&(0..n).map(|i| b"abcdefghijklmnopqrstuvwxyz"[i % 26]).collect::<Vec<u8>>())) },
                4 => { let n = g.rng.below(300) as usize; let b = make_bits(g, n, 2); ("raw", doc_raw(&b)) },
                5 => { let w = 1 + g.rng.below(64); let n = g.rng.below(40) as usize; ("int", doc_int(&(0..n).map(|_| g.rng.next() & if w == 64 { !0 } else { (1u64 << w) - 1 }).collect::<Vec<u64>>(), w)) },
                _ => { if g.rng.chance(1, 2) { ("optslice1", vec![0]) } else { let v = doc_vec(&[1, 2, 3]); let mut e = vec![v.len() as u64]; e.extend(v); ("optslice1", e) } },
            };
            parts.push((ty, off, enc.len()));
            file.extend(enc);
        }
        let fs = ws(&file);
        let mut lines = Vec::new();
        for (ty, off, _len) in &parts {
            lines.push(format!("map {} {} trunc=- x=ok : {}", ty, off, fs));
            if *ty == "int" { lines.push(format!("map intget {} trunc=- x=ok : {}", off, fs)); lines.push(format!("map intgetor {} trunc=- x=ok : {}", off, fs)); }
            if *ty == "raw" { lines.push(format!("map rawbits {} trunc=- x=ok : {}", off, fs)); lines.push(format!("map rawints {} trunc=- x=ok : {}", off, fs)); }
        }
        // integer views of the widest widths (items straddle words at every alignment)
        if parts.iter().all(|p| p.0 != "int") || g.rng.chance(1, 2) {
            for w in [57u64, 58, 59, 61, 63, 64] {
                let items: Vec<u64> = (0..25).map(|_| g.rng.word() & if w == 64 { !0 } else { (1u64 << w) - 1 }).collect();
                lines.push(format!("map intget 0 trunc=- x=ok : {}", ws(&doc_int(&items, w))));
            }
        }
        // views tile the file: the harness prints off= and len= of every view; the driver's model values are the offsets
        // computed from the serialized sizes, so a view that does not end where the next structure starts disagrees
        for ty in ["slice1", "slice2", "bytes", "str", "raw", "int", "optslice1", "optraw", "optbytes"] {
            for off in [file.len() as u64, file.len() as u64 + 1, file.len() as u64 * 2, 1 << 63, MAXU - 1, MAXU] {
                lines.push(format!("map {} {} trunc=- x=eof : {}", ty, off, fs));
            }
        }
        // every 8-byte truncation that cuts the last structure short
        let (lty, loff, llen) = parts[parts.len() - 1];
        for cut in (loff + 1)..(loff + llen) { lines.push(format!("map {} {} trunc={} x=err : {}", lty, loff, cut, fs)); }
        g.group(lines);
    }
}

pub fn c18(g: &mut Gen) {
    let sizes: Vec<u64> = if g.thorough { vec![0, 8, 16, 4088, 4096, 4104, 8192, 12288, 32 * 4096, 1000 * 4096, 3, 4097] } else { vec![0, 8, 4088, 4096, 4104, 8192, 32 * 4096, 5] };
    let mut lines = Vec::new();
    for s in sizes { for mode in ["ro", "rw"] { lines.push(format!("mmap cycle {} {} {}", s, mode, if g.thorough { 5 } else { 3 })); } }
    lines.push("mmap missing".to_string());
    // each line is its own group so that leaked mappings of one case are not attributed to another file
    for l in lines { g.one(l); }
}

pub fn c20(g: &mut Gen) {
    let cases: Vec<(u64, u64)> = if g.thorough { vec![(2, 100_000), (16, 50_000), (64, 10_000), (1, 1000)] } else { vec![(2, 20_000), (16, 5_000), (64, 1_000), (1, 100)] };
    // one group (one process): the counter is process-wide, so all cases share it
    let mut lines: Vec<String> = cases.iter().map(|(t, c)| format!("tmp {} {} name-part", t, c)).collect();
    for part in ["name-part", "a_b", "x_1_2", "7", "_", "simple-sds"] { lines.push(format!("tmp name {}", part)); }
    // long name parts (the name must still end in the process id and the counter)
    for n in [200usize, 245, 250, 253, 255, 256, 300, 1000] { let part: String = (0..n).map(|i| (b'a' + (i % 26) as u8) as char).collect(); lines.push(format!("tmp name {}", part)); lines.push(format!("tmp 2 {} {}", if g.thorough { 2000 } else { 300 }, part)); }
    g.group(lines);
}

pub fn c07(g: &mut Gen) {
    big_vec_reload(g);
    // files produced by the WRITERS are documents too: empty, one item, exactly one buffer, closed / closed twice / dropped
    let mut lines = Vec::new();
    for w in [1u64, 7, 13, 32, 63, 64] {
        for b in [0u64, 1, 64 / w + 1, 100] {
            lines.push(format!("wr int {} {} : c", w, b)); lines.push(format!("wr int {} {} :", w, b)); lines.push(format!("wr int {} {} : c c", w, b));
            lines.push(format!("wr int {} {} : p{} c", w, b, g.rng.word())); lines.push(format!("wr int {} {} : p{} p{}", w, b, g.rng.word(), g.rng.word()));
        }
    }
    for b in [0u64, 64, 128, 1024] {
        lines.push(format!("wr raw {} : c", b)); lines.push(format!("wr raw {} :", b));
        // exactly one and exactly two rounded buffers of bits, closed and dropped
        let per = std::cmp::max(64, (b + 63) / 64 * 64);
        for k in [1u64, 2] { let calls: Vec<String> = (0..(per * k / 64)).map(|_| format!("i{},64", g.rng.word())).collect(); lines.push(format!("wr raw {} : {} c", b, calls.join(" "))); lines.push(format!("wr raw {} : {}", b, calls.join(" "))); }
    }
    g.group(lines);
    // direction 1: the bytes written for every structure decode, by the rules of the document alone, into the same content
    // (`doc` lines are evaluated by the Lean document decoder on the implementation's bytes)
    let sizes: Vec<usize> = if g.thorough { vec![0, 1, 63, 64, 65, 513, 4097] } else { vec![0, 1, 64, 65, 700] };
    for size in sizes {
        for _ in 0..(if g.thorough { 4 } else { 2 }) {
            let mut lines = Vec::new();
            let names = zoo(g, &mut lines, size);
            let kinds = ["raw", "iv", "bv", "sp", "rl", "wm"];
            for (i, n) in names.iter().enumerate() { lines.push(format!("{} {} ser", kinds[i], n)); lines.push(format!("{} {} doc", kinds[i], n)); }
            g.group(lines);
        }
    }
    // degenerate contents, where "minimal width" and "no padding" are decided by special cases: empty, one item, all zero,
    // one symbol, one run, one bucket
    {
        let mut lines = Vec::new();
        for (i, vals) in [vec![], vec![0u64], vec![0, 0, 0], vec![0; 100], vec![1], vec![255], vec![0, 1], vec![7; 65]].iter().enumerate() {
            let n = format!("W{}", i);
            lines.push(format!("wm {} from u8 {}", n, ws(vals))); lines.push(format!("wm {} ser", n)); lines.push(format!("wm {} doc", n));
            lines.push(format!("iv I{} from_vec u64 {}", i, ws(vals))); lines.push(format!("iv I{} pack", i)); lines.push(format!("iv I{} ser", i)); lines.push(format!("iv I{} doc", i));
        }
        for (i, (len, calls)) in [(0u64, ""), (1, ""), (1, "s0,1"), (64, "s0,64"), (100, "s99,1"), (100, "s0,1 s2,1 s4,1")].iter().enumerate() {
            let n = format!("R{}", i);
            lines.push(format!("rl {} build : {} l{}", n, calls, len)); lines.push(format!("rl {} ser", n)); lines.push(format!("rl {} doc", n));
        }
        for (i, (n, vals)) in [(0u64, vec![]), (1u64, vec![]), (1, vec![0u64]), (2, vec![0, 1]), (64, vec![63]), (1000, vec![]), (1000, vec![0]), (1 << 20, vec![5])].iter().enumerate() {
            let nm = format!("S{}", i);
            lines.push(format!("sp {} build {} 0 {}", nm, n, ws(vals))); lines.push(format!("sp {} ser", nm)); lines.push(format!("sp {} doc", nm));
        }
        for (i, bits) in ["", "0", "1", "0000000000000000000000000000000000000000000000000000000000000000", "1111111111111111111111111111111111111111111111111111111111111111"].iter().enumerate() {
            let nm = format!("B{}", i);
            if bits.is_empty() { lines.push(format!("bv {} from_bits", nm)); } else { lines.push(format!("bv {} from_bits {}", nm, bits)); }
            lines.push(format!("bv {} enable rsz", nm)); lines.push(format!("bv {} ser", nm)); lines.push(format!("bv {} doc", nm));
        }
        g.group(lines);
    }
    // structures reached through mutation histories (push / pop / set / resize / pack …): whatever the history, the bytes
    // written must be a file of the document (unused bits zero, minimal word count, announced lengths)
    let nh = if g.thorough { 600 } else { 120 };
    for i in 0..nh {
        let w = [1u64, 3, 7, 10, 13, 21, 31, 33, 47, 63, 64][i % 11];
        let n = g.rng.range(4, 40) as usize;
        // push-heavy prefix, then a mix with pops / shrinking resizes (the operations that must re-zero the tail)
        let mut ops: Vec<usize> = (0..n).map(|_| if g.rng.chance(3, 4) { 0 } else { 1 }).collect();
        for _ in 0..g.rng.range(1, 12) { ops.push(*g.rng.pick(&[2usize, 2, 2, 6, 0, 3, 5, 9])); }
        let mut lines = crate::gen_more::iv_history(g, w, &ops, false);
        lines.push("iv A ser".to_string()); lines.push("iv A doc".to_string());
        g.group(lines);
        let n = g.rng.range(3, 30) as usize;
        let mut ops: Vec<usize> = (0..n).map(|_| if g.rng.chance(1, 4) { 0 } else { 1 }).collect();
        for _ in 0..g.rng.range(1, 10) { ops.push(*g.rng.pick(&[3usize, 3, 3, 2, 1, 5, 7])); }
        let mut lines = crate::gen_more::raw_history(g, &ops);
        lines.push("raw A ser".to_string()); lines.push("raw A doc".to_string());
        g.group(lines);
    }
    // RL: many blocks, blocks closed early, final block not full
    for n in [1usize, 40, 300] {
        let mut runs: Vec<(u64, u64)> = Vec::new(); let mut pos = 0u64;
        for i in 0..n { let gap = 1 + g.rng.below(if i % 7 == 0 { 1 << 30 } else { 9 }); let len = 1 + g.rng.below(if i % 11 == 0 { 1 << 25 } else { 9 }); runs.push((pos + gap, len)); pos += gap + len; }
        let calls: Vec<String> = runs.iter().map(|(a, l)| format!("s{},{}", a, l)).collect();
        g.group(vec![format!("rl R build : {} l{}", calls.join(" "), pos + 3), "rl R ser".to_string(), "rl R doc".to_string()]);
    }
    // direction 2: files produced from the document's rules alone — supports absent, any admissible parameter — load and
    // answer all queries correctly
    for n in [0u64, 1, 2, 5, 63, 64, 65, 1000, 1 << 20, 1 << 40, (1 << 63) + 12345, u64::MAX] {
        let m = std::cmp::min(n, if g.thorough { 200 } else { 50 });
        let mut vals: Vec<u64> = (0..m).map(|_| g.rng.below(n.max(1))).collect(); vals.sort(); vals.dedup();
        if n == 0 { vals.clear(); }
        // every low width the document allows (`w >= 1`, an integer vector has width 1..=64), incl. far from the ideal
        for w in [1u64, 2, 5, 13, 20, 33, 47, 58, 63, 64] {
            if ((n as u128) >> w) > 5000 { continue; }
            let mut lines = vec![format!("ser load sp cut=- x=ok store=S : {}", ws(&doc_sparse(n, &vals, w)))];
            lines.push(format!("sp S ref {} {}", n, ws(&vals)));
            lines.push("sp S len".to_string()); lines.push("sp S ones".to_string());
            for i in [0u64, 1, n / 3, n / 2, n.saturating_sub(1), n, n.saturating_add(1)] {
                if i < n { lines.push(format!("sp S get {}", i)); }
                lines.push(format!("sp S rank {}", i)); lines.push(format!("sp S pred {}", i)); lines.push(format!("sp S succ {}", i));
                lines.push(format!("sp S select {}", i % (vals.len() as u64 + 2))); lines.push(format!("sp S select0 {}", i));
            }
            lines.push(format!("sp S it one : {} l", vec!["n"; vals.len()].join(" ")));
            g.group(lines);
        }
    }
    // run-length files of the document with lengths in the top half of the usize range
    for (len, runs) in [(MAXU, vec![(5u64, 3u64)]), ((1u64 << 63) + 5, vec![(0, 1), (1u64 << 63, 3)]), (MAXU - 1, vec![(1u64 << 62, 1u64 << 62), ((1u64 << 63) + 9, 1u64 << 61)]), (1u64 << 63, vec![])] {
        let mut lines = Vec::new();
        for extra in [0u64, 3] {
            lines.push(format!("ser load rl cut=- x=ok store=R{} : {}", extra, ws(&doc_rl(len, &runs, extra))));
            lines.push(format!("rl R{} ref {} {}", extra, len, runs.iter().map(|(a, l)| format!("{},{}", a, l)).collect::<Vec<_>>().join(" ")));
            lines.push(format!("rl R{} len", extra)); lines.push(format!("rl R{} ones", extra)); lines.push(format!("rl R{} runs", extra));
            for x in [0u64, 5, 7, 8, 1u64 << 62, 1u64 << 63, (1u64 << 63) + 2, len / 2, len - 1, len] {
                if x < len { lines.push(format!("rl R{} get {}", extra, x)); }
                lines.push(format!("rl R{} rank {}", extra, x)); lines.push(format!("rl R{} pred {}", extra, x)); lines.push(format!("rl R{} succ {}", extra, x));
                lines.push(format!("rl R{} select0 {}", extra, x));
            }
            for r in [0u64, 1, 2, 3, 1u64 << 61] { lines.push(format!("rl R{} select {}", extra, r)); }
            lines.push(format!("rl R{} ser", extra));
        }
        g.group(lines);
    }
    for size in [0usize, 1, 64, 65, 1000, 5000] {
        let bits = make_bits(g, size, if size % 2 == 0 { 2 } else { 6 });
        let mut lines = vec![format!("ser load bv cut=- x=ok store=B : {}", ws(&doc_bv(&bits)))];
        lines.push(format!("bv B ref {}", if bits.is_empty() { "-".to_string() } else { bitstring(&bits) }));
        lines.push("bv B supports".to_string()); lines.push("bv B enable rsz".to_string());
        for i in [0usize, 1, size / 2, size] { lines.push(format!("bv B rank {}", i)); lines.push(format!("bv B select {}", i / 3)); lines.push(format!("bv B select0 {}", i / 3)); lines.push(format!("bv B pred {}", i)); }
        // run-length vector from the document's rules, with minimal and with wider-than-minimal samples
        let mut runs: Vec<(u64, u64)> = Vec::new();
        for (i, b) in bits.iter().enumerate() { if *b { if let Some(l) = runs.last_mut() { if l.0 + l.1 == i as u64 { l.1 += 1; continue; } } runs.push((i as u64, 1)); } }
        for extra in [0u64, 1, 7] {
            lines.push(format!("ser load rl cut=- x=ok store=R{} : {}", extra, ws(&doc_rl(size as u64, &runs, extra))));
            lines.push(format!("rl R{} ref {} {}", extra, size, runs.iter().map(|(a, l)| format!("{},{}", a, l)).collect::<Vec<_>>().join(" ")));
            lines.push(format!("rl R{} runs", extra));
            for i in [0usize, 1, size / 2, size] { lines.push(format!("rl R{} rank {}", extra, i)); lines.push(format!("rl R{} select {}", extra, i / 3)); lines.push(format!("rl R{} select0 {}", extra, i / 3)); lines.push(format!("rl R{} succ {}", extra, i)); }
        }
        let vals: Vec<u64> = (0..std::cmp::min(size, 300)).map(|_| g.rng.below(if size % 2 == 0 { 6 } else { 300 })).collect();
        lines.push(format!("ser load wm cut=- x=ok store=W : {}", ws(&doc_wm(&vals))));
        lines.push(format!("wm W ref {}", ws(&vals)));
        lines.push("wm W items".to_string()); lines.push("wm W width".to_string());
        for v in [0u64, 1, 5, 299, 300] { lines.push(format!("wm W rank {} {}", vals.len() / 2, v)); lines.push(format!("wm W select 1 {}", v)); lines.push(format!("wm W contains {}", v)); }
        g.group(lines);
        // the same matrix with levels that carry SOME of the optional supports (each subset; a different one per level):
        // an admissible writer-side choice, and the loader has to complete whatever is missing
        if !vals.is_empty() {
            let subsets = ["", "r", "s", "z", "rs", "rz", "sz", "rsz"];
            for shift in [4u64, 1, 6] {
                let mut lines = vec![format!("ser load wm cut=- x=ok store=W : {}", ws(&doc_wm_with(&vals, &|level, bits| lib_bv(bits, subsets[((level + shift) % 8) as usize]))))];
                lines.push(format!("wm W ref {}", ws(&vals)));
                lines.push("wm W items".to_string());
                let mut vs: Vec<u64> = vec![0, 1, 5, 299, 300]; vs.extend(vals.iter().take(6));
                for v in vs {
                    for i in [0usize, 1, vals.len() / 2, vals.len()] { lines.push(format!("wm W rank {} {}", i, v)); lines.push(format!("wm W pred {} {}", i, v)); lines.push(format!("wm W succ {} {}", i, v)); }
                    for r in [0usize, 1, 2, vals.len() / 7] { lines.push(format!("wm W select {} {}", r, v)); }
                    lines.push(format!("wm W contains {}", v));
                }
                for i in [0usize, vals.len() / 3, vals.len() - 1] { lines.push(format!("wm W invsel {}", i)); }
                g.group(lines);
            }
        }
    }
}
