use crate::gen::*;
pub fn c06(_g: &mut Gen) { panic!("harness: generator c06 not built yet"); }
pub fn c07(_g: &mut Gen) { panic!("harness: generator c07 not built yet"); }
pub fn c12(_g: &mut Gen) { panic!("harness: generator c12 not built yet"); }
pub fn c13(_g: &mut Gen) { panic!("harness: generator c13 not built yet"); }
pub fn c14(_g: &mut Gen) { panic!("harness: generator c14 not built yet"); }
pub fn c18(_g: &mut Gen) { panic!("harness: generator c18 not built yet"); }
pub fn c19(_g: &mut Gen) { panic!("harness: generator c19 not built yet"); }
pub fn c20(_g: &mut Gen) { panic!("harness: generator c20 not built yet"); }
