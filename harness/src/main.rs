// Correspondence harness: drives the real simple-sds crate with generated / enumerated recipes and prints a
// transcript `recipe => outcome`, one operation per line.  The Lean driver replays the same lines on the model.
//
//   sds-harness gen  <property> <tier> <seed>      print recipes only
//   sds-harness run  <property> <tier> <seed>      generate and execute (transcript on stdout)
//   sds-harness exec                               execute recipes read from stdin
//   sds-harness replay <file>                      execute the recipes of a transcript / replay file
mod exec;
mod exec_bv;
mod exec_rl;
mod exec_ser;
mod exec_sparse;
mod exec_wm;
mod gen;
mod gen_more;
mod gen_bv;
mod gen_sp;
mod gen_rl;
mod gen_wm;
mod gen_ser;
mod util;

use std::io::{BufRead, Write};

fn run_lines<I: Iterator<Item = String>>(lines: I) {
    let mut st = exec::State::default();
    let stdout = std::io::stdout();
    let mut out = std::io::BufWriter::new(stdout.lock());
    for line in lines {
        let recipe = match line.find(" => ") { Some(p) => line[..p].to_string(), None => line.trim_end().to_string() };
        if recipe.is_empty() { continue; }
        if recipe.starts_with('#') || recipe.starts_with('@') {
            if recipe == "@reset" { st = exec::State::default(); }
            writeln!(out, "{}", recipe).unwrap();
            continue;
        }
        let outcome = exec::exec_line(&mut st, &recipe);
        writeln!(out, "{} => {}", recipe, outcome).unwrap();
    }
    out.flush().unwrap();
}

fn main() {
    util::install_panic_hook();
    let args: Vec<String> = std::env::args().collect();
    if args.len() < 2 {
        eprintln!("usage: sds-harness gen|run <property> <tier> <seed> | exec | replay <file>");
        std::process::exit(2);
    }
    match args[1].as_str() {
        "gen" | "run" => {
            let prop = &args[2];
            let tier = &args[3];
            let seed: u64 = args[4].parse().unwrap();
            let shard: (usize, usize) = if args.len() > 6 { (args[5].parse().unwrap(), args[6].parse().unwrap()) } else { (0, 1) };
            let recipes = gen::generate(prop, tier, seed, shard);
            if args[1] == "gen" {
                for r in recipes { println!("{}", r); }
            } else {
                run_lines(recipes.into_iter());
            }
        },
        "exec" => {
            let stdin = std::io::stdin();
            run_lines(stdin.lock().lines().map(|l| l.unwrap()));
        },
        "child-limit" => {
            // child process of `wr limit`: apply the file size limit, ignore SIGXFSZ, run the writer recipe
            let bytes: u64 = args[2].parse().unwrap();
            unsafe {
                libc::signal(libc::SIGXFSZ, libc::SIG_IGN);
                let lim = libc::rlimit { rlim_cur: bytes, rlim_max: bytes };
                libc::setrlimit(libc::RLIMIT_FSIZE, &lim);
            }
            let toks: Vec<&str> = args[3].split_whitespace().collect();
            println!("{}", exec_ser::exec_writer(&toks));
        },
        "replay" => {
            let f = std::fs::File::open(&args[2]).expect("cannot open replay file");
            run_lines(std::io::BufReader::new(f).lines().map(|l| l.unwrap()));
        },
        _ => { eprintln!("unknown command"); std::process::exit(2); },
    }
}
