// Wavelet matrix (and its core) operations.
use crate::exec::{ser_words, Obj, State};
use crate::exec_bv::pair_call;
use crate::util::*;
use simple_sds::ops::*;
use simple_sds::wavelet_matrix::wm_core::WMCore;
use simple_sds::wavelet_matrix::WaveletMatrix;

pub fn wm_from(ty: &str, vals: &[u64]) -> WaveletMatrix {
    match ty {
        "u8" => WaveletMatrix::from(vals.iter().map(|x| *x as u8).collect::<Vec<u8>>()),
        "u16" => WaveletMatrix::from(vals.iter().map(|x| *x as u16).collect::<Vec<u16>>()),
        "u32" => WaveletMatrix::from(vals.iter().map(|x| *x as u32).collect::<Vec<u32>>()),
        "u64" => WaveletMatrix::from(vals.to_vec()),
        "usize" => WaveletMatrix::from(vals.iter().map(|x| *x as usize).collect::<Vec<usize>>()),
        _ => panic!("harness: bad item type {}", ty),
    }
}

pub fn wmc_from(ty: &str, vals: &[u64]) -> WMCore {
    match ty {
        "u8" => WMCore::from(vals.iter().map(|x| *x as u8).collect::<Vec<u8>>()),
        "u16" => WMCore::from(vals.iter().map(|x| *x as u16).collect::<Vec<u16>>()),
        "u32" => WMCore::from(vals.iter().map(|x| *x as u32).collect::<Vec<u32>>()),
        "u64" => WMCore::from(vals.to_vec()),
        "usize" => WMCore::from(vals.iter().map(|x| *x as usize).collect::<Vec<usize>>()),
        _ => panic!("harness: bad item type {}", ty),
    }
}

fn opt_pair_u64(x: Option<(usize, u64)>) -> String {
    match x { Some((a, b)) => format!("some {} {}", a, b), None => "none".to_string() }
}

pub fn exec_wm(st: &mut State, name: &str, t: &[&str]) -> String {
    match t[0] {
        "from" => {
            let vals: Vec<u64> = t[2..].iter().map(|x| parse_u64(x)).collect();
            let v = wm_from(t[1], &vals);
            let s = format!("ok {}", words_to_string(&ser_words(&v)));
            st.objs.insert(name.to_string(), Obj::Wm(v));
            return s;
        },
        // core queries build the core on the fly (WMCore is not reachable through WaveletMatrix)
        "core" => {
            // core <type> <op> <args…> : values…
            let colon = t.iter().position(|x| *x == ":").expect("harness: core needs ':'");
            let vals: Vec<u64> = t[colon + 1..].iter().map(|x| parse_u64(x)).collect();
            let c = wmc_from(t[1], &vals);
            return match t[2] {
                "len" => c.len().to_string(),
                "width" => c.width().to_string(),
                "mapdown" => opt_pair_u64(c.map_down(parse_usize(t[3]))),
                "mapdownwith" => c.map_down_with(parse_usize(t[3]), parse_u64(t[4])).to_string(),
                "mapdown2" => { let (a, b) = c.map_down_with_two_positions(parse_usize(t[3]), parse_usize(t[4]), parse_u64(t[5])); format!("{} {}", a, b) },
                "mapupwith" => opt_usize(c.map_up_with(parse_usize(t[3]), parse_u64(t[4]))),
                "ser" => words_to_string(&ser_words(&c)),
                _ => panic!("harness: bad core op"),
            };
        },
        "ref" => return "ok".to_string(),
        "eq" => {
            let other = st.wm(t[1]).clone();
            return (*st.wm(name) == other).to_string();
        },
        _ => (),
    }
    let v = st.wm(name);
    match t[0] {
        "len" => v.len().to_string(),
        "width" => v.width().to_string(),
        "get" => v.get(parse_usize(t[1])).to_string(),
        "rank" => v.rank(parse_usize(t[1]), parse_u64(t[2])).to_string(),
        "select" => opt_usize(v.select(parse_usize(t[1]), parse_u64(t[2]))),
        "invsel" => opt_pair_u64(v.inverse_select(parse_usize(t[1]))),
        "contains" => (v.contains(parse_u64(t[1])) as u8).to_string(),
        "pred" => opt_pair(v.predecessor(parse_usize(t[1]), parse_u64(t[2])).next()),
        "succ" => opt_pair(v.successor(parse_usize(t[1]), parse_u64(t[2])).next()),
        "ser" | "doc" => words_to_string(&ser_words(v)),
        "items" => { let xs: Vec<u64> = v.iter().collect(); words_to_string(&xs) },
        "into_iter" => { let xs: Vec<u64> = v.clone().into_iter().collect(); words_to_string(&xs) },
        "it" => {
            let colon = t.iter().position(|x| *x == ":").expect("harness: it needs ':'");
            let calls = &t[colon + 1..];
            let mut out: Vec<String> = Vec::new();
            match t[1] {
                "items" => { let mut it = v.iter(); for c in calls { out.push(crate::exec::iter_call_u64(&mut it, c)); } },
                "into" => { let mut it = v.clone().into_iter(); for c in calls { out.push(crate::exec::iter_call_fwd_u64(&mut it, c)); } },
                "value" => { let mut it = v.value_iter(parse_u64(t[2])); for c in calls { out.push(pair_call(&mut it, c, None)); } },
                "sel" => { let mut it = v.select_iter(parse_usize(t[2]), parse_u64(t[3])); for c in calls { out.push(pair_call(&mut it, c, None)); } },
                "pred" => { let mut it = v.predecessor(parse_usize(t[2]), parse_u64(t[3])); for c in calls { out.push(pair_call(&mut it, c, None)); } },
                "succ" => { let mut it = v.successor(parse_usize(t[2]), parse_u64(t[3])); for c in calls { out.push(pair_call(&mut it, c, None)); } },
                _ => panic!("harness: bad wm iterator kind"),
            }
            out.join(" ")
        },
        _ => panic!("harness: unknown wm op {}", t[0]),
    }
}
