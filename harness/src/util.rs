// Shared helpers: PRNG, panic capture, canonical formatting.
use std::cell::RefCell;
use std::panic;

pub struct Rng(pub u64);

impl Rng {
    pub fn new(seed: u64) -> Rng {
        Rng(seed.wrapping_mul(0x9E37_79B9_7F4A_7C15) ^ 0xD1B5_4A32_D192_ED03)
    }
    pub fn next(&mut self) -> u64 {
        self.0 = self.0.wrapping_add(0x9E37_79B9_7F4A_7C15);
        let mut z = self.0;
        z = (z ^ (z >> 30)).wrapping_mul(0xBF58_476D_1CE4_E5B9);
        z = (z ^ (z >> 27)).wrapping_mul(0x94D0_49BB_1331_11EB);
        z ^ (z >> 31)
    }
    pub fn below(&mut self, n: u64) -> u64 {
        if n == 0 { 0 } else { self.next() % n }
    }
    pub fn range(&mut self, lo: u64, hi: u64) -> u64 {
        lo + self.below(hi - lo + 1)
    }
    pub fn chance(&mut self, num: u64, den: u64) -> bool {
        self.below(den) < num
    }
    pub fn pick<'a, T>(&mut self, xs: &'a [T]) -> &'a T {
        &xs[self.below(xs.len() as u64) as usize]
    }
    /// word with an "interesting" bit pattern
    pub fn word(&mut self) -> u64 {
        match self.below(8) {
            0 => 0,
            1 => !0u64,
            2 => 1u64 << self.below(64),
            3 => !(1u64 << self.below(64)),
            4 => self.next() & self.next() & self.next(),
            5 => self.next() | self.next() | self.next(),
            _ => self.next(),
        }
    }
}

thread_local! {
    static LAST_PANIC: RefCell<String> = RefCell::new(String::new());
}

pub fn install_panic_hook() {
    panic::set_hook(Box::new(|info| {
        let msg = if let Some(s) = info.payload().downcast_ref::<&str>() {
            s.to_string()
        } else if let Some(s) = info.payload().downcast_ref::<String>() {
            s.clone()
        } else {
            "?".to_string()
        };
        LAST_PANIC.with(|p| *p.borrow_mut() = msg);
    }));
}

pub fn panic_kind(msg: &str) -> &'static str {
    if msg.contains("verif_hooks: oob") {
        "oob"
    } else if msg.contains("with overflow") {
        "panic:overflow"
    } else if msg.contains("out of bounds") && msg.contains("index") || msg.contains("out of range for slice")
        || msg.contains("slice index") || msg.contains("range end index") || msg.contains("range start index") {
        "panic:index"
    } else if msg.contains("unwrap()") {
        "panic:unwrap"
    } else if msg.contains("assertion") || msg.contains("Index is out of bounds") || msg.contains("SampleIndex::new") {
        "panic:assert"
    } else {
        "panic:other"
    }
}

/// Runs `f`, mapping a panic to its canonical kind.
pub fn guarded<F: FnOnce() -> String + panic::UnwindSafe>(f: F) -> String {
    match panic::catch_unwind(f) {
        Ok(s) => s,
        Err(_) => {
            let msg = LAST_PANIC.with(|p| p.borrow().clone());
            panic_kind(&msg).to_string()
        }
    }
}

pub fn opt_usize(x: Option<usize>) -> String {
    match x {
        Some(v) => format!("some {}", v),
        None => "none".to_string(),
    }
}

pub fn opt_pair(x: Option<(usize, usize)>) -> String {
    match x {
        Some((a, b)) => format!("some {} {}", a, b),
        None => "none".to_string(),
    }
}

pub fn io_err(e: &std::io::Error) -> String {
    match e.kind() {
        std::io::ErrorKind::UnexpectedEof => "err:eof".to_string(),
        std::io::ErrorKind::InvalidData => "err:invalid".to_string(),
        _ => "err:other".to_string(),
    }
}

pub fn parse_u64(tok: &str) -> u64 {
    if let Some(h) = tok.strip_prefix("0x") {
        u64::from_str_radix(h, 16).unwrap_or_else(|_| panic!("bad hex token {}", tok))
    } else {
        tok.parse::<u64>().unwrap_or_else(|_| panic!("bad integer token {}", tok))
    }
}

pub fn parse_usize(tok: &str) -> usize {
    parse_u64(tok) as usize
}

pub fn words_to_string(ws: &[u64]) -> String {
    ws.iter().map(|w| w.to_string()).collect::<Vec<_>>().join(" ")
}

pub fn bytes_to_words(bytes: &[u8]) -> Vec<u64> {
    assert!(bytes.len() % 8 == 0, "serialized size is not a multiple of 8");
    bytes.chunks(8).map(|c| u64::from_le_bytes([c[0], c[1], c[2], c[3], c[4], c[5], c[6], c[7]])).collect()
}
