// Plain bitvector operations.
use crate::exec::{raw_from_words, ser_words, Obj, State};
use crate::util::*;
use simple_sds::bit_vector::{BitVector, Complement, Identity, Transformation};
use simple_sds::bit_vector::rank_support::RankSupport;
use simple_sds::bit_vector::select_support::SelectSupport;
use simple_sds::ops::*;
use simple_sds::raw_vector::AccessRaw;
use simple_sds::serialize::Serialize;
use simple_sds::rl_vector::RLVector;
use simple_sds::sparse_vector::SparseVector;

pub fn pair_call<I: Iterator<Item = (usize, usize)> + Clone>(it: &mut I, c: &str, len: Option<usize>) -> String {
    let f = |x: Option<(usize, usize)>| match x { Some((a, b)) => format!("s{},{}", a, b), None => "-".to_string() };
    match c.as_bytes()[0] {
        b'c' => format!("c{}", it.clone().count()),
        b'L' => format!("L{}", f(it.clone().last())),
        b'n' => f(it.next()),
        b'N' => f(it.nth(parse_usize(&c[1..]))),
        b'l' => match len { Some(l) => format!("l{}", l), None => "l?".to_string() },
        _ => panic!("harness: bad iterator call {}", c),
    }
}

pub fn pair_call_de<I: Iterator<Item = (usize, usize)> + DoubleEndedIterator + ExactSizeIterator + Clone>(it: &mut I, c: &str) -> String {
    let f = |x: Option<(usize, usize)>| match x { Some((a, b)) => format!("s{},{}", a, b), None => "-".to_string() };
    match c.as_bytes()[0] {
        b'c' => format!("c{}", it.clone().count()),
        b'L' => format!("L{}", f(it.clone().last())),
        b'h' => { let (lo, hi) = it.size_hint(); format!("h{},{}", lo, hi.map(|x| x.to_string()).unwrap_or("?".to_string())) },
        b'n' => f(it.next()),
        b'b' => f(it.next_back()),
        b'N' => f(it.nth(parse_usize(&c[1..]))),
        b'B' => f(it.nth_back(parse_usize(&c[1..]))),
        b'l' => format!("l{}", it.len()),
        _ => panic!("harness: bad iterator call {}", c),
    }
}

pub fn pair_call_fwd<I: Iterator<Item = (usize, usize)> + ExactSizeIterator + Clone>(it: &mut I, c: &str) -> String {
    let f = |x: Option<(usize, usize)>| match x { Some((a, b)) => format!("s{},{}", a, b), None => "-".to_string() };
    match c.as_bytes()[0] {
        b'c' => format!("c{}", it.clone().count()),
        b'L' => format!("L{}", f(it.clone().last())),
        b'h' => { let (lo, hi) = it.size_hint(); format!("h{},{}", lo, hi.map(|x| x.to_string()).unwrap_or("?".to_string())) },
        b'n' => f(it.next()),
        b'N' => f(it.nth(parse_usize(&c[1..]))),
        b'l' => format!("l{}", it.len()),
        _ => panic!("harness: bad iterator call {}", c),
    }
}

pub fn bool_call_de<I: Iterator<Item = bool> + DoubleEndedIterator + ExactSizeIterator + Clone>(it: &mut I, c: &str) -> String {
    let f = |x: Option<bool>| match x { Some(v) => format!("s{}", v as u8), None => "-".to_string() };
    match c.as_bytes()[0] {
        b'c' => format!("c{}", it.clone().count()),
        b'L' => format!("L{}", f(it.clone().last())),
        b'h' => { let (lo, hi) = it.size_hint(); format!("h{},{}", lo, hi.map(|x| x.to_string()).unwrap_or("?".to_string())) },
        b'n' => f(it.next()),
        b'b' => f(it.next_back()),
        b'N' => f(it.nth(parse_usize(&c[1..]))),
        b'B' => f(it.nth_back(parse_usize(&c[1..]))),
        b'l' => format!("l{}", it.len()),
        _ => panic!("harness: bad iterator call {}", c),
    }
}

pub fn bool_call_fwd<I: Iterator<Item = bool> + ExactSizeIterator + Clone>(it: &mut I, c: &str) -> String {
    let f = |x: Option<bool>| match x { Some(v) => format!("s{}", v as u8), None => "-".to_string() };
    match c.as_bytes()[0] {
        b'c' => format!("c{}", it.clone().count()),
        b'L' => format!("L{}", f(it.clone().last())),
        b'h' => { let (lo, hi) = it.size_hint(); format!("h{},{}", lo, hi.map(|x| x.to_string()).unwrap_or("?".to_string())) },
        b'n' => f(it.next()),
        b'N' => f(it.nth(parse_usize(&c[1..]))),
        b'l' => format!("l{}", it.len()),
        _ => panic!("harness: bad iterator call {}", c),
    }
}

fn bv_summary(v: &BitVector) -> String {
    format!("{} {}", v.len(), v.count_ones())
}

pub fn exec_bv(st: &mut State, name: &str, t: &[&str]) -> String {
    match t[0] {
        "from_raw" => {
            let raw = raw_from_words(parse_usize(t[1]), &t[2..]);
            let v = BitVector::from(raw);
            let s = bv_summary(&v);
            st.objs.insert(name.to_string(), Obj::Bv(v));
            return s;
        },
        "from_bits" => {
            let v: BitVector = if t.len() > 1 { t[1].bytes().map(|c| c == b'1').collect() } else { Vec::<bool>::new().into_iter().collect() };
            let s = bv_summary(&v);
            st.objs.insert(name.to_string(), Obj::Bv(v));
            return s;
        },
        "copy_of" => {
            let v = match st.objs.get(t[1]) {
                Some(Obj::Bv(x)) => BitVector::copy_bit_vec(x),
                Some(Obj::Sparse(x)) => BitVector::copy_bit_vec(x),
                Some(Obj::Rl(x)) => BitVector::copy_bit_vec(x),
                _ => panic!("harness: copy_of: no source {}", t[1]),
            };
            let s = bv_summary(&v);
            st.objs.insert(name.to_string(), Obj::Bv(v));
            return s;
        },
        // of_raw <raw object> : `BitVector::from(raw.clone())` — a plain bitvector over a raw vector with a history
        // (pushes, pops, resizes, overwrites)
        "of_raw" => {
            let raw = match st.objs.get(t[1]) { Some(Obj::Raw(x)) => x.clone(), _ => panic!("harness: of_raw: no raw vector {}", t[1]) };
            let v = BitVector::from(raw);
            let s = bv_summary(&v);
            st.objs.insert(name.to_string(), Obj::Bv(v));
            return s;
        },
        "from" => {
            // consuming conversion (From<T>)
            let src = st.objs.remove(t[1]).unwrap_or_else(|| panic!("harness: from: no source {}", t[1]));
            let v = match src {
                Obj::Sparse(x) => BitVector::from(x),
                Obj::Rl(x) => BitVector::from(x),
                Obj::Bv(x) => x,
                _ => panic!("harness: from: bad source"),
            };
            let s = bv_summary(&v);
            st.objs.insert(name.to_string(), Obj::Bv(v));
            return s;
        },
        // huge <len> <fill> <supports> [flipped positions…] : a vector too large for a word-by-word recipe (beyond 2^32 bits)
        "huge" => {
            let len = parse_usize(t[1]);
            let fill = t[2] == "1";
            let mut raw = simple_sds::raw_vector::RawVector::with_len(len, fill);
            for x in &t[4..] { raw.set_bit(parse_usize(x), !fill); }
            let mut v = BitVector::from(raw);
            for c in t[3].chars() { match c { 'r' => v.enable_rank(), 's' => v.enable_select(), 'z' => v.enable_select_zero(), '-' => (), _ => panic!("harness: bad support flag") } }
            let s = bv_summary(&v);
            st.objs.insert(name.to_string(), Obj::Bv(v));
            return s;
        },
        "ref" => return "ok".to_string(),
        "eq" => {
            let other = st.bv(t[1]).clone();
            return (*st.bv(name) == other).to_string();
        },
        _ => (),
    }
    let v = st.bv(name);
    match t[0] {
        "enable" => {
            for c in t[1].chars() {
                match c {
                    'r' => v.enable_rank(),
                    's' => v.enable_select(),
                    'z' => v.enable_select_zero(),
                    'p' => v.enable_pred_succ(),
                    _ => panic!("harness: bad support flag"),
                }
            }
            "ok".to_string()
        },
        // hreload : serialize the vector with the supports it has, load the bytes back, keep the LOADED copy under the same
        // name (for vectors too large for a word-by-word recipe: the round trip of multi-megabyte `Vec`s)
        "hreload" => {
            let mut buf: Vec<u8> = Vec::new();
            v.serialize(&mut buf).expect("harness: serialize into a Vec failed");
            let size_ok = buf.len() == v.size_in_bytes();
            match BitVector::load(&mut &buf[..]) {
                Ok(l) => { let eq = l == *v; *v = l; format!("ok {} {}", size_ok as u8, eq as u8) },
                Err(e) => format!("err:{:?}", e.kind()),
            }
        },
        "supports" => format!("{} {} {} {}", v.supports_rank() as u8, v.supports_select() as u8, v.supports_select_zero() as u8, v.supports_pred_succ() as u8),
        "len" => v.len().to_string(),
        "ones" => v.count_ones().to_string(),
        "zeros" => v.count_zeros().to_string(),
        "get" => (v.get(parse_usize(t[1])) as u8).to_string(),
        "rank" => v.rank(parse_usize(t[1])).to_string(),
        "rank0" => v.rank_zero(parse_usize(t[1])).to_string(),
        "select" => opt_usize(v.select(parse_usize(t[1]))),
        "select0" => opt_usize(v.select_zero(parse_usize(t[1]))),
        "pred" => opt_pair(v.predecessor(parse_usize(t[1])).next()),
        "succ" => opt_pair(v.successor(parse_usize(t[1])).next()),
        "ser" | "doc" => words_to_string(&ser_words(v)),
        // the public, safe support-level API (bit_vector::{Identity, Complement, rank_support, select_support}):
        // tword I|C <index> ; tbit I|C <index> ; sup rank <index> ; sup sel I|C <rank>
        "tword" => {
            let i = parse_usize(t[2]);
            match t[1] { "I" => Identity::word(v, i).to_string(), "C" => Complement::word(v, i).to_string(), _ => panic!("harness: bad transformation") }
        },
        "tbit" => {
            let i = parse_usize(t[2]);
            match t[1] { "I" => (Identity::bit(v, i) as u8).to_string(), "C" => (Complement::bit(v, i) as u8).to_string(), _ => panic!("harness: bad transformation") }
        },
        "sup" => {
            match t[1] {
                "rank" => RankSupport::new(v).rank(v, parse_usize(t[2])).to_string(),
                "sel" => match t[2] {
                    "I" => SelectSupport::<Identity>::new(v).select(v, parse_usize(t[3])).to_string(),
                    "C" => SelectSupport::<Complement>::new(v).select(v, parse_usize(t[3])).to_string(),
                    _ => panic!("harness: bad transformation"),
                },
                _ => panic!("harness: bad support op"),
            }
        },
        // it <kind> [arg] : calls…
        "it" => {
            let colon = t.iter().position(|x| *x == ":").expect("harness: it needs ':'");
            let calls = &t[colon + 1..];
            let mut out: Vec<String> = Vec::new();
            match t[1] {
                "bits" => { let mut it = v.iter(); for c in calls { out.push(bool_call_de(&mut it, c)); } },
                "one" => { let mut it = v.one_iter(); for c in calls { out.push(pair_call_de(&mut it, c)); } },
                "zero" => { let mut it = v.zero_iter(); for c in calls { out.push(pair_call_de(&mut it, c)); } },
                "sel" => { let mut it = v.select_iter(parse_usize(t[2])); for c in calls { out.push(pair_call_de(&mut it, c)); } },
                "sel0" => { let mut it = v.select_zero_iter(parse_usize(t[2])); for c in calls { out.push(pair_call_de(&mut it, c)); } },
                "pred" => { let mut it = v.predecessor(parse_usize(t[2])); for c in calls { out.push(pair_call_de(&mut it, c)); } },
                "succ" => { let mut it = v.successor(parse_usize(t[2])); for c in calls { out.push(pair_call_de(&mut it, c)); } },
                _ => panic!("harness: bad bv iterator kind"),
            }
            out.join(" ")
        },
        _ => panic!("harness: unknown bv op {}", t[0]),
    }
}

#[allow(dead_code)]
fn _uses(_: &RLVector, _: &SparseVector) {}
