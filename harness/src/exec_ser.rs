// Serialization, writers, memory maps, temp file names.
use crate::exec::{ser_words, Obj, State};
use crate::util::*;
use simple_sds::bit_vector::BitVector;
use simple_sds::int_vector::{IntVector, IntVectorMapper, IntVectorWriter};
use simple_sds::ops::*;
use simple_sds::raw_vector::{AccessRaw, PushRaw, RawVector, RawVectorMapper, RawVectorWriter};
use simple_sds::rl_vector::RLVector;
use simple_sds::serialize::{self, MappedBytes, MappedOption, MappedSlice, MappedStr, MappingMode, MemoryMap, MemoryMapped, Serialize};
use simple_sds::sparse_vector::SparseVector;
use simple_sds::wavelet_matrix::wm_core::WMCore;
use simple_sds::wavelet_matrix::WaveletMatrix;
use std::io::{self, Read, Write};
use std::sync::atomic::{AtomicUsize, Ordering};
use std::sync::{Arc, Barrier};

static FILE_COUNTER: AtomicUsize = AtomicUsize::new(0);

pub fn scratch_dir() -> std::path::PathBuf {
    let d = std::env::var("VERIF_TMP").map(std::path::PathBuf::from).unwrap_or_else(|_| std::env::temp_dir());
    let _ = std::fs::create_dir_all(&d);
    d
}

fn scratch_file(tag: &str) -> std::path::PathBuf {
    let mut p = scratch_dir();
    p.push(format!("sdsh_{}_{}_{}", tag, std::process::id(), FILE_COUNTER.fetch_add(1, Ordering::SeqCst)));
    p
}

fn words_to_bytes(ws: &[u64]) -> Vec<u8> {
    let mut out = Vec::with_capacity(ws.len() * 8);
    for w in ws { out.extend_from_slice(&w.to_le_bytes()); }
    out
}

fn hex_bytes(tok: &str) -> Vec<u8> {
    if tok == "-" { return Vec::new(); }
    (0..tok.len() / 2).map(|i| u8::from_str_radix(&tok[2 * i..2 * i + 2], 16).unwrap()).collect()
}

fn to_hex(bs: &[u8]) -> String {
    if bs.is_empty() { "-".to_string() } else { bs.iter().map(|b| format!("{:02x}", b)).collect() }
}

// A sink that accepts `budget` bytes and then fails.
struct Sink { budget: usize, written: usize }
impl Write for Sink {
    fn write(&mut self, buf: &[u8]) -> io::Result<usize> {
        if self.budget == 0 { return Err(io::Error::new(io::ErrorKind::Other, "sink full")); }
        let n = std::cmp::min(self.budget, buf.len());
        self.budget -= n; self.written += n;
        Ok(n)
    }
    fn flush(&mut self) -> io::Result<()> { Ok(()) }
}

fn ser_val_words(ty: &str, v: &[&str]) -> (Vec<u64>, usize) {
    fn both<T: Serialize>(x: &T) -> (Vec<u64>, usize) { (ser_words(x), x.size_in_elements()) }
    match ty {
        "u64" => both(&parse_u64(v[0])),
        "usize" => both(&parse_usize(v[0])),
        "pair" => both(&(parse_u64(v[0]), parse_u64(v[1]))),
        "vecu64" => both(&v.iter().map(|x| parse_u64(x)).collect::<Vec<u64>>()),
        "vecusize" => both(&v.iter().map(|x| parse_usize(x)).collect::<Vec<usize>>()),
        "vecpair" => both(&v.chunks(2).map(|c| (parse_u64(c[0]), parse_u64(c[1]))).collect::<Vec<(u64, u64)>>()),
        "bytes" => both(&hex_bytes(v[0])),
        "string" => both(&String::from_utf8(hex_bytes(v[0])).expect("harness: string value must be utf-8")),
        "optu64" => both(&(if v[0] == "none" { None } else { Some(parse_u64(v[0])) })),
        "optvecu64" => both(&(if v[0] == "none" { None } else { Some(v[1..].iter().map(|x| parse_u64(x)).collect::<Vec<u64>>()) })),
        "optbytes" => both(&(if v[0] == "none" { None } else { Some(hex_bytes(v[1])) })),
        "optstring" => both(&(if v[0] == "none" { None } else { Some(String::from_utf8(hex_bytes(v[1])).unwrap()) })),
        _ => panic!("harness: bad value type {}", ty),
    }
}

/// a reader that hands out at most 3 bytes per `read()` call (pipes, decompressors and small `BufReader`s do the same):
/// `load` must consume exactly the structure whatever the chunking
struct Chunky<'a> { data: &'a [u8], pos: usize }
impl<'a> io::Read for Chunky<'a> {
    fn read(&mut self, buf: &mut [u8]) -> io::Result<usize> {
        let n = std::cmp::min(std::cmp::min(3, buf.len()), self.data.len() - self.pos);
        buf[..n].copy_from_slice(&self.data[self.pos..self.pos + n]);
        self.pos += n;
        Ok(n)
    }
}

fn load_report<T: Serialize>(bytes: &[u8]) -> Result<(T, usize), String> {
    if bytes.len() <= (1 << 16) {
        let mut cur = Chunky { data: bytes, pos: 0 };
        return match T::load(&mut cur) {
            Ok(x) => Ok((x, bytes.len() - cur.pos)),
            Err(e) => Err(io_err(&e)),
        };
    }
    let mut cur = io::Cursor::new(bytes);
    match T::load(&mut cur) {
        Ok(x) => Ok((x, bytes.len() - cur.position() as usize)),
        Err(e) => Err(io_err(&e)),
    }
}

fn load_val(ty: &str, bytes: &[u8]) -> String {
    fn rep<T: Serialize>(bytes: &[u8]) -> String {
        match load_report::<T>(bytes) {
            Ok((x, rest)) => format!("ok rest={} | {}", rest, words_to_string(&ser_words(&x))),
            Err(e) => e,
        }
    }
    match ty {
        "u64" => rep::<u64>(bytes),
        "usize" => rep::<usize>(bytes),
        "pair" => rep::<(u64, u64)>(bytes),
        "vecu64" => rep::<Vec<u64>>(bytes),
        "vecusize" => rep::<Vec<usize>>(bytes),
        "vecpair" => rep::<Vec<(u64, u64)>>(bytes),
        "bytes" => rep::<Vec<u8>>(bytes),
        "string" => rep::<String>(bytes),
        "optu64" => rep::<Option<u64>>(bytes),
        "optvecu64" => rep::<Option<Vec<u64>>>(bytes),
        "optbytes" => rep::<Option<Vec<u8>>>(bytes),
        "optstring" => rep::<Option<String>>(bytes),
        "raw" => rep::<RawVector>(bytes),
        "iv" => rep::<IntVector>(bytes),
        "bv" => rep::<BitVector>(bytes),
        "sp" => rep::<SparseVector>(bytes),
        "rl" => rep::<RLVector>(bytes),
        "wm" => rep::<WaveletMatrix>(bytes),
        "wmc" => rep::<WMCore>(bytes),
        "optbv" => rep::<Option<BitVector>>(bytes),
        "optiv" => rep::<Option<IntVector>>(bytes),
        "optsp" => rep::<Option<SparseVector>>(bytes),
        "optwm" => rep::<Option<WaveletMatrix>>(bytes),
        "optrl" => rep::<Option<RLVector>>(bytes),
        _ => panic!("harness: bad load type {}", ty),
    }
}

fn cut_of(tok: &str) -> Option<usize> {
    let v = tok.split('=').nth(1).unwrap();
    if v == "-" { None } else { Some(parse_usize(v)) }
}

pub fn exec_ser(st: &mut State, t: &[&str]) -> String {
    match t[0] {
        // val <type> values… : serialize a plain value
        "val" => {
            let (ws, size) = ser_val_words(t[1], &t[2..]);
            format!("size={} | {}", size, words_to_string(&ws))
        },
        // load <type> cut=<k|-> [store=<name>] : words…
        "load" => {
            let colon = t.iter().position(|x| *x == ":").expect("harness: load needs ':'");
            let ws: Vec<u64> = t[colon + 1..].iter().map(|x| parse_u64(x)).collect();
            let mut bytes = words_to_bytes(&ws);
            if let Some(k) = cut_of(t[2]) { bytes.truncate(k); }
            let store = t[3..colon].iter().find(|x| x.starts_with("store=")).map(|x| x[6..].to_string());
            if let Some(name) = store {
                macro_rules! st_load { ($ty:ty, $variant:ident) => {
                    match load_report::<$ty>(&bytes) {
                        Ok((x, rest)) => { let s = format!("ok rest={} | {}", rest, words_to_string(&ser_words(&x))); st.objs.insert(name, Obj::$variant(x)); s },
                        Err(e) => e,
                    }
                } }
                return match t[1] {
                    "raw" => st_load!(RawVector, Raw),
                    "iv" => st_load!(IntVector, Int),
                    "bv" => st_load!(BitVector, Bv),
                    "sp" => st_load!(SparseVector, Sparse),
                    "rl" => st_load!(RLVector, Rl),
                    "wm" => st_load!(WaveletMatrix, Wm),
                    _ => panic!("harness: cannot store type {}", t[1]),
                };
            }
            load_val(t[1], &bytes)
        },
        // reload <name> <newname> extra=<k> : serialize, append k junk elements, load back, store under the new name
        "reload" => {
            let extra = cut_of(t[3]).unwrap_or(0);
            macro_rules! rl { ($x:expr, $ty:ty, $variant:ident) => {{
                let mut buf: Vec<u8> = Vec::new();
                $x.serialize(&mut buf).unwrap();
                for i in 0..extra { buf.extend_from_slice(&(0xDEAD_0000u64 + i as u64).to_le_bytes()); }
                match load_report::<$ty>(&buf) {
                    Ok((y, rest)) => { let s = format!("ok rest={} eq={} | {}", rest, (y == *$x) as u8, words_to_string(&ser_words(&y))); (s, Some(Obj::$variant(y))) },
                    Err(e) => (e, None),
                }
            }} }
            let (s, obj) = match st.objs.get(t[1]) {
                Some(Obj::Raw(x)) => rl!(x, RawVector, Raw), Some(Obj::Int(x)) => rl!(x, IntVector, Int), Some(Obj::Bv(x)) => rl!(x, BitVector, Bv),
                Some(Obj::Sparse(x)) => rl!(x, SparseVector, Sparse), Some(Obj::Rl(x)) => rl!(x, RLVector, Rl), Some(Obj::Wm(x)) => rl!(x, WaveletMatrix, Wm),
                None => panic!("harness: reload: no object"),
            };
            if let Some(o) = obj { st.objs.insert(t[2].to_string(), o); }
            s
        },
        // seq <name>… : serialize back to back into one stream, then load back in sequence
        "seq" => {
            let mut buf: Vec<u8> = Vec::new();
            for n in &t[1..] {
                match st.objs.get(*n) {
                    Some(Obj::Raw(x)) => x.serialize(&mut buf).unwrap(), Some(Obj::Int(x)) => x.serialize(&mut buf).unwrap(),
                    Some(Obj::Bv(x)) => x.serialize(&mut buf).unwrap(), Some(Obj::Sparse(x)) => x.serialize(&mut buf).unwrap(),
                    Some(Obj::Rl(x)) => x.serialize(&mut buf).unwrap(), Some(Obj::Wm(x)) => x.serialize(&mut buf).unwrap(),
                    None => panic!("harness: seq: no object"),
                }
            }
            let mut cur = io::Cursor::new(&buf[..]);
            let mut flags: Vec<String> = Vec::new();
            for n in &t[1..] {
                let okeq = match st.objs.get(*n) {
                    Some(Obj::Raw(x)) => RawVector::load(&mut cur).map(|y| y == *x), Some(Obj::Int(x)) => IntVector::load(&mut cur).map(|y| y == *x),
                    Some(Obj::Bv(x)) => BitVector::load(&mut cur).map(|y| y == *x), Some(Obj::Sparse(x)) => SparseVector::load(&mut cur).map(|y| y == *x),
                    Some(Obj::Rl(x)) => RLVector::load(&mut cur).map(|y| y == *x), Some(Obj::Wm(x)) => WaveletMatrix::load(&mut cur).map(|y| y == *x),
                    None => unreachable!(),
                };
                flags.push(match okeq { Ok(b) => (b as u8).to_string(), Err(_) => "err".to_string() });
            }
            format!("ok {} rest={}", flags.join(" "), buf.len() - cur.position() as usize)
        },
        // cutload <name> <k> : serialize, cut to k bytes, load
        "cutload" => {
            let k = parse_usize(t[2]);
            macro_rules! cl { ($x:expr, $ty:ty) => {{
                let mut buf: Vec<u8> = Vec::new();
                $x.serialize(&mut buf).unwrap();
                buf.truncate(k);
                match load_report::<$ty>(&buf) { Ok((_, rest)) => format!("ok rest={}", rest), Err(e) => e }
            }} }
            match st.objs.get(t[1]) {
                Some(Obj::Raw(x)) => cl!(x, RawVector), Some(Obj::Int(x)) => cl!(x, IntVector), Some(Obj::Bv(x)) => cl!(x, BitVector),
                Some(Obj::Sparse(x)) => cl!(x, SparseVector), Some(Obj::Rl(x)) => cl!(x, RLVector), Some(Obj::Wm(x)) => cl!(x, WaveletMatrix),
                None => panic!("harness: cutload: no object"),
            }
        },
        // sizes <name> : size_in_elements size_in_bytes actual_bytes
        "sizes" => {
            fn sz<T: Serialize>(x: &T) -> String {
                let mut buf: Vec<u8> = Vec::new();
                x.serialize(&mut buf).unwrap();
                format!("{} {} {}", x.size_in_elements(), x.size_in_bytes(), buf.len())
            }
            match st.objs.get(t[1]) {
                Some(Obj::Raw(x)) => sz(x), Some(Obj::Int(x)) => sz(x), Some(Obj::Bv(x)) => sz(x),
                Some(Obj::Sparse(x)) => sz(x), Some(Obj::Rl(x)) => sz(x), Some(Obj::Wm(x)) => sz(x),
                None => panic!("harness: sizes: no object"),
            }
        },
        "size_by_params" => match t[1] {
            "raw" => RawVector::size_by_params(parse_usize(t[2])).to_string(),
            "iv" => IntVector::size_by_params(parse_usize(t[2]), parse_usize(t[3])).to_string(),
            _ => panic!("harness: bad size_by_params"),
        },
        // sink <budget> <name> : serialize into a sink that fails after <budget> bytes
        "sink" => {
            let mut sink = Sink { budget: parse_usize(t[1]), written: 0 };
            let r = match st.objs.get(t[2]) {
                Some(Obj::Raw(x)) => x.serialize(&mut sink), Some(Obj::Int(x)) => x.serialize(&mut sink),
                Some(Obj::Bv(x)) => x.serialize(&mut sink), Some(Obj::Sparse(x)) => x.serialize(&mut sink),
                Some(Obj::Rl(x)) => x.serialize(&mut sink), Some(Obj::Wm(x)) => x.serialize(&mut sink),
                None => panic!("harness: sink: no object"),
            };
            match r { Ok(()) => format!("ok written={}", sink.written), Err(_) => "err".to_string() }
        },
        // skipopt cut=<k|-> : words…
        "skipopt" => {
            let colon = t.iter().position(|x| *x == ":").expect("harness: skipopt needs ':'");
            let ws: Vec<u64> = t[colon + 1..].iter().map(|x| parse_u64(x)).collect();
            let mut bytes = words_to_bytes(&ws);
            if let Some(k) = cut_of(t[1]) { bytes.truncate(k); }
            let mut cur = io::Cursor::new(&bytes[..]);
            match serialize::skip_option(&mut cur) {
                Ok(()) => format!("ok rest={}", bytes.len() - cur.position() as usize),
                Err(e) => io_err(&e),
            }
        },
        "absent" => {
            let mut buf: Vec<u8> = Vec::new();
            serialize::absent_option(&mut buf).unwrap();
            format!("{} | {}", serialize::absent_option_size(), words_to_string(&bytes_to_words(&buf)))
        },
        // file <name> : serialize_to + load_from round trip through a real file, size on disk
        "file" => {
            let path = scratch_file("ser");
            fn via<T: Serialize + PartialEq>(x: &T, path: &std::path::Path) -> String {
                serialize::serialize_to(x, path).unwrap();
                let len = std::fs::metadata(path).unwrap().len() as usize;
                let y: T = serialize::load_from(path).unwrap();
                format!("{} {} {}", len, x.size_in_bytes(), (*x == y) as u8)
            }
            let s = match st.objs.get(t[1]) {
                Some(Obj::Raw(x)) => via(x, &path), Some(Obj::Int(x)) => via(x, &path), Some(Obj::Bv(x)) => via(x, &path),
                Some(Obj::Sparse(x)) => via(x, &path), Some(Obj::Rl(x)) => via(x, &path), Some(Obj::Wm(x)) => via(x, &path),
                None => panic!("harness: file: no object"),
            };
            let _ = std::fs::remove_file(&path);
            s
        },
        // fullto <name> : serialize_to a device that refuses every write (/dev/full: ENOSPC) — the failure must be reported
        "fullto" => {
            let path = std::path::Path::new("/dev/full");
            if !path.exists() { return "err".to_string(); }
            fn via<T: Serialize>(x: &T, path: &std::path::Path) -> String { match serialize::serialize_to(x, path) { Ok(()) => "ok".to_string(), Err(_) => "err".to_string() } }
            match st.objs.get(t[1]) {
                Some(Obj::Raw(x)) => via(x, path), Some(Obj::Int(x)) => via(x, path), Some(Obj::Bv(x)) => via(x, path),
                Some(Obj::Sparse(x)) => via(x, path), Some(Obj::Rl(x)) => via(x, path), Some(Obj::Wm(x)) => via(x, path),
                None => panic!("harness: fullto: no object"),
            }
        },
        _ => panic!("harness: unknown ser op {}", t[0]),
    }
}

fn read_file_words(path: &std::path::Path) -> String {
    let mut bytes: Vec<u8> = Vec::new();
    match std::fs::File::open(path) {
        Ok(mut f) => { f.read_to_end(&mut bytes).unwrap(); },
        Err(_) => return "nofile".to_string(),
    }
    if bytes.len() % 8 != 0 { return format!("oddsize:{}", bytes.len()); }
    words_to_string(&bytes_to_words(&bytes))
}

// wr raw <buflen> : calls…      b0 b1 i<v>,<w> c (close) l (len) o (is_open) ; the writer is dropped at the end
// wr int <width> <buflen> : calls…   p<v> e<v,v,…> c l o
pub fn exec_writer(t: &[&str]) -> String {
    if t[0] == "limit" {
        // limit <bytes> <raw|int …> : run the writer recipe in a child process with RLIMIT_FSIZE = bytes
        let exe = std::env::current_exe().unwrap();
        let out = std::process::Command::new(exe).arg("child-limit").arg(t[1]).arg(t[2..].join(" ")).output().unwrap();
        let s = String::from_utf8_lossy(&out.stdout).trim().to_string();
        if !out.status.success() && s.is_empty() { return format!("child-died:{:?}", out.status.code()); }
        // the property only distinguishes "failure reported" (documented panic on push, or error from close) from a complete file
        // … and "success" is what the LAST close() said: a close() that returns Ok after an earlier failure (a retry, or a
        // close after a caught push panic) claims a complete file, so the file is then compared in full
        let toks: Vec<&str> = s.split_whitespace().take_while(|t| *t != "file=").collect();
        let last_close = toks.iter().rev().find(|t| t.starts_with("c:")).cloned();
        let failed = toks.iter().any(|t| *t == "panic" || *t == "c:err" || *t == "new:err");
        if failed && last_close != Some("c:ok") { return "reported".to_string(); }
        return match s.find("file=") { Some(p) => s[p..].to_string(), None => s };
    }
    let colon = t.iter().position(|x| *x == ":").expect("harness: wr needs ':'");
    let calls = &t[colon + 1..];
    let path = scratch_file("wr");
    // the target path already holds an OLDER, longer file (521 junk words): a writer replaces the file, it does not patch it
    let _ = std::fs::write(&path, vec![0xA5u8; 4168]);
    let mut out: Vec<String> = Vec::new();
    let body = std::panic::catch_unwind(std::panic::AssertUnwindSafe(|| {
        match t[0] {
            "raw" => {
                let mut header: Vec<u64> = Vec::new();
                let mut w = if t[1] == "default" { RawVectorWriter::new(&path, &mut header).unwrap() }
                            else { RawVectorWriter::with_buf_len(&path, &mut header, parse_usize(t[1])).unwrap() };
                for c in calls {
                    // each call is caught on its own: a caller may catch the documented panic of a push and go on to close
                    let r = std::panic::catch_unwind(std::panic::AssertUnwindSafe(|| -> Option<String> {
                        match c.as_bytes()[0] {
                            b'b' => { w.push_bit(&c[1..] == "1"); None },
                            b'i' => { let mut p = c[1..].split(','); let v = parse_u64(p.next().unwrap()); let wd = parse_usize(p.next().unwrap()); unsafe { w.push_int(v, wd); } None },
                            b'c' => Some(match w.close() { Ok(()) => "c:ok".to_string(), Err(_) => "c:err".to_string() }),
                            b'l' => Some(format!("l{}", w.len())),
                            b'o' => Some(format!("o{}", w.is_open() as u8)),
                            _ => panic!("harness: bad writer call {}", c),
                        }
                    }));
                    match r { Ok(Some(x)) => out.push(x), Ok(None) => (), Err(_) => out.push("panic".to_string()) }
                }
            },
            "int" => {
                let width = parse_usize(t[1]);
                let r = if t[2] == "default" { IntVectorWriter::new(&path, width) } else { IntVectorWriter::with_buf_len(&path, width, parse_usize(t[2])) };
                let mut w = match r { Ok(w) => w, Err(_) => { out.push("new:err".to_string()); let _ = std::fs::remove_file(&path); return; } };
                for c in calls {
                    let r = std::panic::catch_unwind(std::panic::AssertUnwindSafe(|| -> Option<String> {
                        match c.as_bytes()[0] {
                            b'p' => { w.push(parse_u64(&c[1..])); None },
                            b'e' => { let vals: Vec<u64> = c[1..].split(',').filter(|x| !x.is_empty()).map(|x| parse_u64(x)).collect(); w.extend(vals); None },
                            b'x' => { let vals: Vec<u8> = c[1..].split(',').filter(|x| !x.is_empty()).map(|x| parse_u64(x) as u8).collect(); w.extend(vals); None },
                            b'y' => { let vals: Vec<u16> = c[1..].split(',').filter(|x| !x.is_empty()).map(|x| parse_u64(x) as u16).collect(); w.extend(vals); None },
                            b'z' => { let vals: Vec<u32> = c[1..].split(',').filter(|x| !x.is_empty()).map(|x| parse_u64(x) as u32).collect(); w.extend(vals); None },
                            b'c' => Some(match w.close() { Ok(()) => "c:ok".to_string(), Err(_) => "c:err".to_string() }),
                            b'l' => Some(format!("l{}", w.len())),
                            b'o' => Some(format!("o{}", w.is_open() as u8)),
                            _ => panic!("harness: bad writer call {}", c),
                        }
                    }));
                    match r { Ok(Some(x)) => out.push(x), Ok(None) => (), Err(_) => out.push("panic".to_string()) }
                }
            },
            _ => panic!("harness: bad writer kind"),
        }
    }));
    if body.is_err() { out.push("panic".to_string()); }
    out.push(format!("file= {}", read_file_words(&path)));
    let _ = std::fs::remove_file(&path);
    out.join(" ")
}

// map <type> <offset> trunc=<k|-> : file words…
pub fn exec_map(_st: &mut State, t: &[&str]) -> String {
    let colon = t.iter().position(|x| *x == ":").expect("harness: map needs ':'");
    let mut ws: Vec<u64> = t[colon + 1..].iter().map(|x| parse_u64(x)).collect();
    if let Some(k) = cut_of(t[2]) { ws.truncate(k); }
    let offset = parse_usize(t[1]);
    let path = scratch_file("map");
    std::fs::write(&path, words_to_bytes(&ws)).unwrap();
    let result = (|| -> String {
        if ws.is_empty() {
            // an empty file cannot be mapped by the kernel; the property is about views, so report the refusal here
            return "err:eof".to_string();
        }
        let map = match MemoryMap::new(&path, MappingMode::ReadOnly) { Ok(m) => m, Err(_) => return "err:map".to_string() };
        let r = std::panic::catch_unwind(std::panic::AssertUnwindSafe(|| -> String {
            fn hdr<'a, T: MemoryMapped<'a>>(v: &T) -> String { format!("ok off={} len={}", v.map_offset(), v.map_len()) }
            match t[0] {
                "slice1" => match MappedSlice::<u64>::new(&map, offset) { Ok(v) => format!("{} n={} | {}", hdr(&v), v.len(), words_to_string(v.as_ref())), Err(e) => io_err(&e) },
                "slice2" => match MappedSlice::<(u64, u64)>::new(&map, offset) {
                    Ok(v) => { let flat: Vec<u64> = v.iter().flat_map(|p| vec![p.0, p.1]).collect(); format!("{} n={} | {}", hdr(&v), v.len(), words_to_string(&flat)) },
                    Err(e) => io_err(&e) },
                "bytes" => match MappedBytes::new(&map, offset) { Ok(v) => format!("{} n={} | {}", hdr(&v), v.len(), to_hex(v.as_ref())), Err(e) => io_err(&e) },
                "str" => match MappedStr::new(&map, offset) { Ok(v) => format!("{} n={} | {}", hdr(&v), v.len(), to_hex(v.as_ref().as_bytes())), Err(e) => io_err(&e) },
                "raw" => match RawVectorMapper::new(&map, offset) {
                    Ok(v) => { let s: &MappedSlice<u64> = v.as_ref(); format!("{} n={} | {}", hdr(&v), v.len(), words_to_string(s.as_ref())) },
                    Err(e) => io_err(&e) },
                "int" => match IntVectorMapper::new(&map, offset) {
                    Ok(v) => { let r: &RawVectorMapper = v.as_ref(); let s: &MappedSlice<u64> = r.as_ref(); format!("{} n={} w={} | {}", hdr(&v), v.len(), v.width(), words_to_string(s.as_ref())) },
                    Err(e) => io_err(&e) },
                "optslice1" => match MappedOption::<MappedSlice<u64>>::new(&map, offset) {
                    Ok(v) => format!("{} some={} | {}", hdr(&v), v.is_some() as u8, match v.as_ref() { Some(s) => words_to_string(s.as_ref()), None => String::new() }),
                    Err(e) => io_err(&e) },
                "optraw" => match MappedOption::<RawVectorMapper>::new(&map, offset) {
                    Ok(v) => format!("{} some={} | {}", hdr(&v), v.is_some() as u8, match v.as_ref() { Some(r) => { let s: &MappedSlice<u64> = r.as_ref(); format!("{} {}", r.len(), words_to_string(s.as_ref())) }, None => String::new() }),
                    Err(e) => io_err(&e) },
                "optbytes" => match MappedOption::<MappedBytes>::new(&map, offset) {
                    Ok(v) => format!("{} some={} | {}", hdr(&v), v.is_some() as u8, match v.as_ref() { Some(s) => to_hex(s.as_ref()), None => String::new() }),
                    Err(e) => io_err(&e) },
                // element-wise access through the view (get / bit) compared with loading
                "intget" => match IntVectorMapper::new(&map, offset) {
                    Ok(v) => { let xs: Vec<u64> = v.iter().collect(); format!("{} | {}", hdr(&v), words_to_string(&xs)) },
                    Err(e) => io_err(&e) },
                // get_or through the view at in-range, boundary and huge indices (default 3735928559)
                "intgetor" => match IntVectorMapper::new(&map, offset) {
                    Ok(v) => {
                        let n = v.len();
                        let w = std::cmp::max(1, v.width());
                        let idx: Vec<usize> = vec![0, n / 2, n.saturating_sub(1), n, n + 1, usize::MAX / w, usize::MAX / w + 1, 1usize << 63, (1usize << 63) + 1, usize::MAX - 1, usize::MAX];
                        let xs: Vec<u64> = idx.iter().map(|i| v.get_or(*i, 3735928559)).collect();
                        format!("{} | {}", hdr(&v), words_to_string(&xs))
                    },
                    Err(e) => io_err(&e) },
                // integers of several widths at every bit alignment, read through the mapped view
                "rawints" => match RawVectorMapper::new(&map, offset) {
                    Ok(v) => {
                        let mut out: Vec<String> = Vec::new();
                        for w in [1usize, 7, 13, 32, 56, 57, 58, 59, 61, 63, 64] {
                            let mut acc: Vec<u64> = Vec::new();
                            let mut o = 0usize;
                            while o + w <= v.len() && acc.len() < 150 { acc.push(unsafe { v.int(o, w) }); o += 1; }
                            out.push(format!("w{}: {}", w, words_to_string(&acc)));
                        }
                        format!("{} | {}", hdr(&v), out.join(" ; "))
                    },
                    Err(e) => io_err(&e) },
                "rawbits" => match RawVectorMapper::new(&map, offset) {
                    Ok(v) => { let bits: String = (0..v.len()).map(|i| if v.bit(i) { '1' } else { '0' }).collect(); format!("{} ones={} | {}", hdr(&v), v.count_ones(), bits) },
                    Err(e) => io_err(&e) },
                _ => panic!("harness: bad map type {}", t[0]),
            }
        }));
        match r { Ok(s) => s, Err(_) => "panic".to_string() }
    })();
    let _ = std::fs::remove_file(&path);
    result
}

fn mapped_bytes_of(path: &std::path::Path) -> usize {
    let maps = std::fs::read_to_string("/proc/self/maps").unwrap_or_default();
    let name = path.to_string_lossy().to_string();
    let mut total = 0usize;
    for line in maps.lines() {
        if line.ends_with(&name) {
            let range = line.split_whitespace().next().unwrap();
            let mut p = range.split('-');
            let a = usize::from_str_radix(p.next().unwrap(), 16).unwrap();
            let b = usize::from_str_radix(p.next().unwrap(), 16).unwrap();
            total += b - a;
        }
    }
    total
}

// mmap cycle <bytes> <ro|rw> <cycles>
pub fn exec_mmap(t: &[&str]) -> String {
    match t[0] {
        "cycle" => {
            let bytes = parse_usize(t[1]);
            let mode = if t[2] == "rw" { MappingMode::Mutable } else { MappingMode::ReadOnly };
            let cycles = parse_usize(t[3]);
            let path = scratch_file("mm");
            let content: Vec<u8> = (0..bytes).map(|i| ((i * 7 + 3) % 251) as u8).collect();
            std::fs::write(&path, &content).unwrap();
            let mut out: Vec<String> = Vec::new();
            for c in 0..cycles {
                match MemoryMap::new(&path, mode) {
                    Err(_) => out.push("new=err".to_string()),
                    Ok(mut map) => {
                        let live = mapped_bytes_of(&path);
                        let len_ok = map.len() * 8 == bytes;
                        let mut content_ok = true;
                        let sane = live >= bytes && bytes > 0;
                        if sane {
                            let s: &[u64] = map.as_ref();
                            let expect = bytes_to_words(&content);
                            content_ok = s == &expect[..];
                            if mode == MappingMode::Mutable && !s.is_empty() {
                                unsafe { map.as_mut_slice()[0] = 0xABCD_0000 + c as u64; }
                            }
                        }
                        drop(map);
                        let leaked = mapped_bytes_of(&path);
                        let mut written = "-".to_string();
                        if mode == MappingMode::Mutable && sane && bytes >= 8 {
                            let now = std::fs::read(&path).unwrap();
                            let w0 = u64::from_le_bytes([now[0], now[1], now[2], now[3], now[4], now[5], now[6], now[7]]);
                            written = if w0 == 0xABCD_0000 + c as u64 { "ok".to_string() } else { "bad".to_string() };
                            std::fs::write(&path, &content).unwrap();
                        }
                        out.push(format!("new=ok live={} lenok={} content={} leaked={} written={}", (live >= bytes && live > 0) as u8, len_ok as u8, content_ok as u8, leaked, written));
                    },
                }
            }
            let _ = std::fs::remove_file(&path);
            out.join(" ; ")
        },
        "missing" => {
            let path = scratch_file("nofile");
            match MemoryMap::new(&path, MappingMode::ReadOnly) { Ok(_) => "new=ok".to_string(), Err(_) => "new=err".to_string() }
        },
        _ => panic!("harness: bad mmap op"),
    }
}

// tmp <threads> <calls> <part>
pub fn exec_tmp(t: &[&str]) -> String {
    if t[0] == "name" {
        // tmp name <part> : two consecutive calls on this thread; the file-name components and
        // the process id / trailing number of the first name (the model renders the name from them)
        let part = if t.len() > 1 { t[1] } else { "" };
        let a = serialize::temp_file_name(part);
        let b = serialize::temp_file_name(part);
        let fa = a.file_name().map(|x| x.to_string_lossy().to_string()).unwrap_or_default();
        let fb = b.file_name().map(|x| x.to_string_lossy().to_string()).unwrap_or_default();
        let c = fa.rsplit('_').next().and_then(|x| x.parse::<u64>().ok()).unwrap_or(0);
        return format!("pid={} count={} name={} next={}", std::process::id(), c, fa, fb);
    }
    let threads = parse_usize(t[0]);
    let calls = parse_usize(t[1]);
    let part = t[2].to_string();
    let barrier = Arc::new(Barrier::new(threads));
    let mut handles = Vec::new();
    for _ in 0..threads {
        let b = barrier.clone();
        let p = part.clone();
        handles.push(std::thread::spawn(move || {
            b.wait();
            let mut names: Vec<String> = Vec::with_capacity(calls);
            for _ in 0..calls { names.push(serialize::temp_file_name(&p).to_string_lossy().to_string()); }
            names
        }));
    }
    let mut all: Vec<String> = Vec::new();
    for h in handles { all.extend(h.join().unwrap()); }
    let n = all.len();
    let contains = all.iter().all(|s| s.contains(&part));
    let mut counters: Vec<u64> = all.iter().filter_map(|s| s.rsplit('_').next().and_then(|x| x.parse::<u64>().ok())).collect();
    let parsed = counters.len() == n;
    all.sort(); all.dedup();
    let distinct = all.len() == n;
    counters.sort();
    let contiguous = parsed && counters.windows(2).all(|w| w[1] == w[0] + 1);
    format!("n={} distinct={} contains={} contiguous={}", n, distinct as u8, contains as u8, contiguous as u8)
}
