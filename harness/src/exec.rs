// Executes recipe lines on the real crate.  One line = one operation; the same lines are replayed by the
// Lean driver on the model and on the spec.
use crate::util::*;
use simple_sds::bit_vector::BitVector;
use simple_sds::bits;
use simple_sds::int_vector::IntVector;
use simple_sds::ops::*;
use simple_sds::raw_vector::{AccessRaw, PopRaw, PushRaw, RawVector};
use simple_sds::rl_vector::RLVector;
use simple_sds::serialize::Serialize;
use simple_sds::sparse_vector::SparseVector;
use simple_sds::wavelet_matrix::WaveletMatrix;
use std::collections::HashMap;
use std::panic::AssertUnwindSafe;

pub enum Obj {
    Raw(RawVector),
    Int(IntVector),
    Bv(BitVector),
    Sparse(SparseVector),
    Rl(RLVector),
    Wm(WaveletMatrix),
}

#[derive(Default)]
pub struct State {
    pub objs: HashMap<String, Obj>,
}

pub fn ser_words<T: Serialize>(x: &T) -> Vec<u64> {
    let mut buf: Vec<u8> = Vec::new();
    x.serialize(&mut buf).unwrap();
    assert_eq!(buf.len(), x.size_in_bytes(), "size_in_bytes mismatch");
    bytes_to_words(&buf)
}

fn raw_state(v: &RawVector) -> String {
    let ws: &[u64] = v.as_ref();
    format!("{} {} | {}", v.len(), v.count_ones(), words_to_string(ws))
}

fn iv_state(v: &IntVector) -> String {
    let raw: &RawVector = v.as_ref();
    let ws: &[u64] = raw.as_ref();
    format!("{} {} {} | {}", v.len(), v.width(), raw.len(), words_to_string(ws))
}

pub fn raw_from_words(len: usize, toks: &[&str]) -> RawVector {
    let mut v = RawVector::with_capacity(len);
    let mut remaining = len;
    for t in toks {
        let w = parse_u64(t);
        let take = std::cmp::min(64, remaining);
        unsafe { v.push_int(w, take); }
        remaining -= take;
    }
    assert_eq!(remaining, 0, "from_words: not enough words");
    v
}

impl State {
    pub fn raw(&mut self, name: &str) -> &mut RawVector {
        match self.objs.get_mut(name) { Some(Obj::Raw(v)) => v, _ => panic!("harness: no raw vector {}", name) }
    }
    pub fn iv(&mut self, name: &str) -> &mut IntVector {
        match self.objs.get_mut(name) { Some(Obj::Int(v)) => v, _ => panic!("harness: no int vector {}", name) }
    }
    pub fn bv(&mut self, name: &str) -> &mut BitVector {
        match self.objs.get_mut(name) { Some(Obj::Bv(v)) => v, _ => panic!("harness: no bitvector {}", name) }
    }
    pub fn sparse(&mut self, name: &str) -> &mut SparseVector {
        match self.objs.get_mut(name) { Some(Obj::Sparse(v)) => v, _ => panic!("harness: no sparse vector {}", name) }
    }
    pub fn rl(&mut self, name: &str) -> &mut RLVector {
        match self.objs.get_mut(name) { Some(Obj::Rl(v)) => v, _ => panic!("harness: no rl vector {}", name) }
    }
    pub fn wm(&mut self, name: &str) -> &mut WaveletMatrix {
        match self.objs.get_mut(name) { Some(Obj::Wm(v)) => v, _ => panic!("harness: no wavelet matrix {}", name) }
    }
}

/// Executes one recipe line; never panics for a panic inside the library (that becomes the outcome).
pub fn exec_line(st: &mut State, line: &str) -> String {
    let toks: Vec<&str> = line.split_whitespace().collect();
    if toks.is_empty() {
        return String::new();
    }
    let st = AssertUnwindSafe(st);
    guarded(move || {
        let mut st = st;
        exec_toks(&mut st, &toks)
    })
}

fn exec_toks(st: &mut State, t: &[&str]) -> String {
    match t[0] {
        "bits" => exec_bits(&t[1..]),
        "raw" => exec_raw(st, t[1], &t[2..]),
        "iv" => exec_iv(st, t[1], &t[2..]),
        "bv" => crate::exec_bv::exec_bv(st, t[1], &t[2..]),
        "sp" => crate::exec_sparse::exec_sparse(st, t[1], &t[2..]),
        "rl" => crate::exec_rl::exec_rl(st, t[1], &t[2..]),
        "wm" => crate::exec_wm::exec_wm(st, t[1], &t[2..]),
        "ser" => crate::exec_ser::exec_ser(st, &t[1..]),
        "wr" => crate::exec_ser::exec_writer(&t[1..]),
        "map" => crate::exec_ser::exec_map(st, &t[1..]),
        "mmap" => crate::exec_ser::exec_mmap(&t[1..]),
        "tmp" => crate::exec_ser::exec_tmp(&t[1..]),
        "drop" => { st.objs.remove(t[1]); "ok".to_string() },
        // obj clone SRC DST : `Clone::clone` of whatever SRC is
        "obj" => {
            if t[1] == "clone_from" {
                // obj clone_from SRC DST : `dst.clone_from(&src)` on an existing DST of the same kind
                let src = st.objs.remove(t[2]).expect("harness: obj clone_from: no such source");
                match (&src, st.objs.get_mut(t[3]).expect("harness: obj clone_from: no such target")) {
                    (Obj::Raw(s), Obj::Raw(d)) => d.clone_from(s), (Obj::Int(s), Obj::Int(d)) => d.clone_from(s), (Obj::Bv(s), Obj::Bv(d)) => d.clone_from(s),
                    (Obj::Sparse(s), Obj::Sparse(d)) => d.clone_from(s), (Obj::Rl(s), Obj::Rl(d)) => d.clone_from(s), (Obj::Wm(s), Obj::Wm(d)) => d.clone_from(s),
                    _ => panic!("harness: obj clone_from: kinds differ"),
                }
                st.objs.insert(t[2].to_string(), src);
                return "ok".to_string();
            }
            assert!(t[1] == "clone", "harness: unknown obj op");
            let c = match st.objs.get(t[2]).expect("harness: obj clone: no such object") {
                Obj::Raw(x) => Obj::Raw(x.clone()), Obj::Int(x) => Obj::Int(x.clone()), Obj::Bv(x) => Obj::Bv(x.clone()),
                Obj::Sparse(x) => Obj::Sparse(x.clone()), Obj::Rl(x) => Obj::Rl(x.clone()), Obj::Wm(x) => Obj::Wm(x.clone()),
            };
            st.objs.insert(t[3].to_string(), c);
            "ok".to_string()
        },
        _ => panic!("harness: unknown op {}", t[0]),
    }
}

fn exec_bits(t: &[&str]) -> String {
    match t[0] {
        "low_set" => bits::low_set(parse_usize(t[1])).to_string(),
        "high_set" => bits::high_set(parse_usize(t[1])).to_string(),
        "low_set_u" => unsafe { bits::low_set_unchecked(parse_usize(t[1])).to_string() },
        "high_set_u" => unsafe { bits::high_set_unchecked(parse_usize(t[1])).to_string() },
        "bit_len" => bits::bit_len(parse_u64(t[1])).to_string(),
        "reverse_low" => bits::reverse_low(parse_u64(t[1]), parse_usize(t[2])).to_string(),
        "select" => unsafe { bits::select(parse_u64(t[1]), parse_usize(t[2])).to_string() },
        "b2w" => bits::bits_to_words(parse_usize(t[1])).to_string(),
        "w2b" => bits::words_to_bits(parse_usize(t[1])).to_string(),
        "by2w" => bits::bytes_to_words(parse_usize(t[1])).to_string(),
        "w2by" => bits::words_to_bytes(parse_usize(t[1])).to_string(),
        "rub" => bits::round_up_to_word_bits(parse_usize(t[1])).to_string(),
        "ruby" => bits::round_up_to_word_bytes(parse_usize(t[1])).to_string(),
        "dru" => bits::div_round_up(parse_usize(t[1]), parse_usize(t[2])).to_string(),
        "split" => { let (a, b) = bits::split_offset(parse_usize(t[1])); format!("{} {}", a, b) },
        "bitoff" => bits::bit_offset(parse_usize(t[1]), parse_usize(t[2])).to_string(),
        "filler" => bits::filler_value(t[1] == "1").to_string(),
        // rw <off> <width> <value> <bg words...> : write then read back
        "rw" => {
            let off = parse_usize(t[1]);
            let width = parse_usize(t[2]);
            let value = parse_u64(t[3]);
            let mut arr: Vec<u64> = t[4..].iter().map(|x| parse_u64(x)).collect();
            unsafe { bits::write_int(&mut arr, off, value, width); }
            let back = unsafe { bits::read_int(&arr, off, width) };
            format!("{} | {}", back, words_to_string(&arr))
        },
        _ => panic!("harness: unknown bits op {}", t[0]),
    }
}

fn exec_raw(st: &mut State, name: &str, t: &[&str]) -> String {
    match t[0] {
        "new" => { st.objs.insert(name.to_string(), Obj::Raw(RawVector::new())); return "0 0 |".to_string(); },
        "with_len" => {
            let v = RawVector::with_len(parse_usize(t[1]), t[2] == "1");
            let s = raw_state(&v);
            st.objs.insert(name.to_string(), Obj::Raw(v));
            return s;
        },
        // huge <len> <fill> : a vector beyond 2^32 bits; only `len count_ones` is reported (no word dump)
        "huge" => {
            let v = RawVector::with_len(parse_usize(t[1]), t[2] == "1");
            let s = format!("{} {}", v.len(), v.count_ones());
            st.objs.insert(name.to_string(), Obj::Raw(v));
            return s;
        },
        "from_words" => {
            let v = raw_from_words(parse_usize(t[1]), &t[2..]);
            let s = raw_state(&v);
            st.objs.insert(name.to_string(), Obj::Raw(v));
            return s;
        },
        "complement_of" => {
            let v = st.raw(t[1]).complement();
            let s = raw_state(&v);
            st.objs.insert(name.to_string(), Obj::Raw(v));
            return s;
        },
        "eq" => {
            let other = st.raw(t[1]).clone();
            return (*st.raw(name) == other).to_string();
        },
        _ => (),
    }
    let v = st.raw(name);
    match t[0] {
        "push_bit" => { v.push_bit(t[1] == "1"); raw_state(v) },
        "push_int" => { unsafe { v.push_int(parse_u64(t[1]), parse_usize(t[2])); } raw_state(v) },
        "pop_bit" => { let r = v.pop_bit(); format!("{} ; {}", match r { Some(b) => format!("some {}", b as u8), None => "none".to_string() }, raw_state(v)) },
        "pop_int" => { let r = unsafe { v.pop_int(parse_usize(t[1])) }; format!("{} ; {}", match r { Some(x) => format!("some {}", x), None => "none".to_string() }, raw_state(v)) },
        "set_bit" => { v.set_bit(parse_usize(t[1]), t[2] == "1"); raw_state(v) },
        "set_int" => { unsafe { v.set_int(parse_usize(t[1]), parse_u64(t[2]), parse_usize(t[3])); } raw_state(v) },
        "bit" => (v.bit(parse_usize(t[1])) as u8).to_string(),
        "int" => unsafe { v.int(parse_usize(t[1]), parse_usize(t[2])).to_string() },
        "word" => v.word(parse_usize(t[1])).to_string(),
        "resize" => { v.resize(parse_usize(t[1]), t[2] == "1"); raw_state(v) },
        // operations on huge vectors report `len count_ones` only
        "hresize" => { v.resize(parse_usize(t[1]), t[2] == "1"); format!("{} {}", v.len(), v.count_ones()) },
        "hset_bit" => { v.set_bit(parse_usize(t[1]), t[2] == "1"); format!("{} {}", v.len(), v.count_ones()) },
        "hpush_bit" => { v.push_bit(t[1] == "1"); format!("{} {}", v.len(), v.count_ones()) },
        "hcount" => format!("{} {}", v.len(), v.count_ones()),
        "clear" => { v.clear(); raw_state(v) },
        "reserve" => { v.reserve(parse_usize(t[1])); raw_state(v) },
        "state" => raw_state(v),
        "ser" | "doc" => words_to_string(&ser_words(v)),
        _ => panic!("harness: unknown raw op {}", t[0]),
    }
}

fn exec_iv(st: &mut State, name: &str, t: &[&str]) -> String {
    match t[0] {
        "new" => {
            return match IntVector::new(parse_usize(t[1])) {
                Ok(v) => { let s = iv_state(&v); st.objs.insert(name.to_string(), Obj::Int(v)); s },
                Err(_) => "err:other".to_string(),
            };
        },
        "with_len" => {
            return match IntVector::with_len(parse_usize(t[1]), parse_usize(t[2]), parse_u64(t[3])) {
                Ok(v) => { let s = iv_state(&v); st.objs.insert(name.to_string(), Obj::Int(v)); s },
                Err(_) => "err:other".to_string(),
            };
        },
        "with_capacity" => {
            return match IntVector::with_capacity(parse_usize(t[1]), parse_usize(t[2])) {
                Ok(v) => { let s = iv_state(&v); st.objs.insert(name.to_string(), Obj::Int(v)); s },
                Err(_) => "err:other".to_string(),
            };
        },
        "from_vec" => {
            // from_vec <type> values...
            let vals: Vec<u64> = t[2..].iter().map(|x| parse_u64(x)).collect();
            let v = match t[1] {
                "u8" => IntVector::from(vals.iter().map(|x| *x as u8).collect::<Vec<u8>>()),
                "u16" => IntVector::from(vals.iter().map(|x| *x as u16).collect::<Vec<u16>>()),
                "u32" => IntVector::from(vals.iter().map(|x| *x as u32).collect::<Vec<u32>>()),
                "u64" => IntVector::from(vals.clone()),
                "usize" => IntVector::from(vals.iter().map(|x| *x as usize).collect::<Vec<usize>>()),
                "iter64" => vals.iter().cloned().collect::<IntVector>(),
                _ => panic!("harness: bad item type"),
            };
            let s = iv_state(&v);
            st.objs.insert(name.to_string(), Obj::Int(v));
            return s;
        },
        "eq" => {
            let other = st.iv(t[1]).clone();
            return (*st.iv(name) == other).to_string();
        },
        _ => (),
    }
    let v = st.iv(name);
    match t[0] {
        "push" => { v.push(parse_u64(t[1])); iv_state(v) },
        "pop" => { let r = v.pop(); format!("{} ; {}", match r { Some(x) => format!("some {}", x), None => "none".to_string() }, iv_state(v)) },
        "set" => { v.set(parse_usize(t[1]), parse_u64(t[2])); iv_state(v) },
        "get" => v.get(parse_usize(t[1])).to_string(),
        "get_or" => v.get_or(parse_usize(t[1]), parse_u64(t[2])).to_string(),
        "resize" => { v.resize(parse_usize(t[1]), parse_u64(t[2])); iv_state(v) },
        "clear" => { v.clear(); iv_state(v) },
        "reserve" => { v.reserve(parse_usize(t[1])); iv_state(v) },
        "pack" => { v.pack(); iv_state(v) },
        "extend" => { let vals: Vec<u64> = t[1..].iter().map(|x| parse_u64(x)).collect(); v.extend(vals); iv_state(v) },
        "state" => iv_state(v),
        "items" => { let xs: Vec<u64> = v.iter().collect(); words_to_string(&xs) },
        "into_iter" => { let xs: Vec<u64> = v.clone().into_iter().collect(); words_to_string(&xs) },
        "ser" | "doc" => words_to_string(&ser_words(v)),
        // owning iterator (IntoIterator for IntVector): forward calls n / N<k> / l
        "into_it" => {
            let mut it = v.clone().into_iter();
            let mut out: Vec<String> = Vec::new();
            for c in &t[1..] { out.push(iter_call_fwd_u64(&mut it, c)); }
            out.join(" ")
        },
        // iterator call history: it <call>*  with call ∈ n (next) b (next_back) N<k> (nth k) B<k> (nth_back k) l (len)
        "it" => {
            let mut it = v.iter();
            let mut out: Vec<String> = Vec::new();
            for c in &t[1..] {
                out.push(iter_call_u64(&mut it, c));
            }
            out.join(" ")
        },
        _ => panic!("harness: unknown iv op {}", t[0]),
    }
}

pub fn iter_call_fwd_u64<I: Iterator<Item = u64> + ExactSizeIterator + Clone>(it: &mut I, c: &str) -> String {
    let f = |x: Option<u64>| match x { Some(v) => format!("s{}", v), None => "-".to_string() };
    match c.as_bytes()[0] {
        b'c' => format!("c{}", it.clone().count()),
        b'L' => format!("L{}", f(it.clone().last())),
        b'h' => { let (lo, hi) = it.size_hint(); format!("h{},{}", lo, hi.map(|x| x.to_string()).unwrap_or("?".to_string())) },
        b'n' => f(it.next()),
        b'N' => f(it.nth(parse_usize(&c[1..]))),
        b'l' => format!("l{}", it.len()),
        _ => panic!("harness: bad iterator call {}", c),
    }
}

pub fn iter_call_u64<I: Iterator<Item = u64> + DoubleEndedIterator + ExactSizeIterator + Clone>(it: &mut I, c: &str) -> String {
    let f = |x: Option<u64>| match x { Some(v) => format!("s{}", v), None => "-".to_string() };
    match c.as_bytes()[0] {
        b'c' => format!("c{}", it.clone().count()),
        b'L' => format!("L{}", f(it.clone().last())),
        b'h' => { let (lo, hi) = it.size_hint(); format!("h{},{}", lo, hi.map(|x| x.to_string()).unwrap_or("?".to_string())) },
        b'n' => f(it.next()),
        b'b' => f(it.next_back()),
        b'N' => f(it.nth(parse_usize(&c[1..]))),
        b'B' => f(it.nth_back(parse_usize(&c[1..]))),
        b'l' => format!("l{}", it.len()),
        _ => panic!("harness: bad iterator call {}", c),
    }
}

