// Generators for the sparse (Elias-Fano) vector: C02 (set semantics), C15 (multisets), C16 (builders), and the
// sparse parts of C09 / C10.
use crate::gen::*;
use crate::gen_bv::{call_sequences, de_alphabet, fwd_alphabet};

fn vals_str(v: &[u64]) -> String { v.iter().map(|x| x.to_string()).collect::<Vec<_>>().join(" ") }

fn sp_queries(g: &mut Gen, name: &str, n: u64, vals: &[u64], samples: usize, set_mode: bool, lines: &mut Vec<String>) {
    let m = vals.len() as u64;
    lines.push(format!("sp {} len", name)); lines.push(format!("sp {} ones", name)); lines.push(format!("sp {} zeros", name));
    let mut args: Vec<u64> = vec![0, 1, n.saturating_sub(1), n, n.saturating_add(1), n / 2];
    for v in vals.iter().take(40) { args.push(v.saturating_sub(1)); args.push(*v); args.push(v.saturating_add(1)); }
    for _ in 0..samples { args.push(g.rng.below(n.saturating_add(2).max(1))); }
    args.sort(); args.dedup();
    for a in &args {
        if *a < n { lines.push(format!("sp {} get {}", name, a)); }
        lines.push(format!("sp {} rank {}", name, a));
        if *a <= n && set_mode { lines.push(format!("sp {} rank0 {}", name, a)); }
        lines.push(format!("sp {} pred {}", name, a));
        lines.push(format!("sp {} succ {}", name, a));
    }
    let mut ranks: Vec<u64> = vec![0, 1, m.saturating_sub(1), m, m + 1, m / 2, 15, 16, 17];
    for _ in 0..samples { ranks.push(g.rng.below(m + 2)); }
    ranks.sort(); ranks.dedup();
    for r in &ranks { lines.push(format!("sp {} select {}", name, r)); }
    if set_mode {
        let z = n - m;
        let mut zr: Vec<u64> = vec![0, 1, z.saturating_sub(1), z, z.saturating_add(1), z / 2];
        for v in vals.iter().take(40) { zr.push(v.saturating_sub(1)); zr.push(*v); }
        for _ in 0..samples { zr.push(g.rng.below(z.saturating_add(2).max(1))); }
        zr.sort(); zr.dedup();
        for r in &zr { lines.push(format!("sp {} select0 {}", name, r)); }
    }
}

fn random_set(g: &mut Gen, n: u64, m: u64) -> Vec<u64> {
    // m distinct sorted values below n
    let mut v: Vec<u64> = Vec::new();
    if m * 2 > n {
        let mut all: Vec<u64> = (0..n).collect();
        while (all.len() as u64) > m { let i = g.rng.below(all.len() as u64) as usize; all.remove(i); }
        return all;
    }
    while (v.len() as u64) < m { let x = g.rng.below(n); if !v.contains(&x) { v.push(x); } }
    v.sort();
    v
}

/// sparse vectors over universes at the top of the usize range: built, queried, written and loaded back
pub fn sparse_top_universes(g: &mut Gen) {
    // universes at the top of the usize range (the last bucket of every low width ends at or beyond 2^64), few values
    for n in [MAXU, MAXU - 1, MAXU - 62, (1u64 << 63) + 1, 1u64 << 63, (1u64 << 63) - 1, 3u64 << 62, MAXU - (1u64 << 61), MAXU - (1u64 << 60) + 5] {
        for k in [1usize, 2, 3, 5, 17] {
            let mut vals: Vec<u64> = (0..k).map(|i| match i { 0 => g.rng.below(1000), 1 => n - 1, 2 => n / 2, _ => g.rng.below(n) }).collect();
            vals.sort(); vals.dedup();
            let mut lines = vec![format!("sp A build {} 0 {}", n, vals_str(&vals))];
            lines.push("sp A len".to_string()); lines.push("sp A ones".to_string()); lines.push("sp A ser".to_string());
            let mut xs: Vec<u64> = vec![0, 1, 999, 1000, n / 2 - 1, n / 2, n / 2 + 1, n - 2, n - 1, n, MAXU];
            xs.extend(vals.iter().cloned());
            for x in xs {
                if x < n { lines.push(format!("sp A get {}", x)); }
                lines.push(format!("sp A rank {}", x)); lines.push(format!("sp A pred {}", x)); lines.push(format!("sp A succ {}", x));
            }
            for r in 0..=(vals.len() as u64) { lines.push(format!("sp A select {}", r)); }
            for r in [0u64, 1, 999, n / 2, n - vals.len() as u64 - 1, n - vals.len() as u64] { lines.push(format!("sp A select0 {}", r)); }
            lines.push(format!("sp A it one : {} l b", vec!["n"; vals.len()].join(" ")));
            // … and back through a file
            lines.push("ser reload A R extra=2".to_string()); lines.push("sp R len".to_string()); lines.push("sp R ones".to_string());
            lines.push(format!("sp R rank {}", n - 1)); lines.push(format!("sp R select {}", vals.len() - 1)); lines.push(format!("sp R pred {}", MAXU));
            lines.push("ser seq A R A".to_string());
            g.group(lines);
        }
    }
}

pub fn c02(g: &mut Gen) {
    // vectors built through the builder's OTHER public routes: `set`, `Extend::extend` in several chunks, mixed — the
    // conversion's bytes are compared, then the same positions are queried through `build`
    for (n, vals) in [(300u64, vec![3u64, 68, 132, 200, 299]), (1000, (0..40).map(|i| i * 23 + 7).collect::<Vec<u64>>()), (70, vec![0, 1, 2, 63, 64, 69]), (5, vec![4])] {
        let k = vals.len();
        let mut lines = Vec::new();
        let strs: Vec<String> = vals.iter().map(|v| v.to_string()).collect();
        lines.push(format!("sp - builder {} {} 0 : e{} c", n, k, strs.join(",")));
        lines.push(format!("sp - builder {} {} 0 : s{} e{} c", n, k, strs[0], strs[1..].join(",")));
        if k >= 3 { lines.push(format!("sp - builder {} {} 0 : e{} e{} e{} c", n, k, strs[..1].join(","), strs[1..k / 2 + 1].join(","), strs[k / 2 + 1..].join(","))); }
        if k >= 3 { lines.push(format!("sp - builder {} {} 0 : t{} e{} s{} c", n, k, strs[0], strs[1..k - 1].join(","), strs[k - 1])); }
        lines.push(format!("sp A build {} 0 {}", n, vals_str(&vals))); lines.push("sp A ser".to_string());
        g.group(lines);
    }
    sparse_top_universes(g);
    // exhaustive: every universe up to N, every subset, every argument
    let maxn = if g.thorough { 10 } else { 8 };
    for n in 0..=maxn {
        for code in 0..(1u32 << n) {
            let vals: Vec<u64> = (0..n).filter(|i| (code >> i) & 1 == 1).map(|i| i as u64).collect();
            let mut lines = vec![format!("sp A build {} 0 {}", n, vals_str(&vals))];
            let m = vals.len() as u64;
            lines.push("sp A len".to_string()); lines.push("sp A ones".to_string()); lines.push("sp A zeros".to_string());
            for i in 0..(n as u64 + 3) {
                if i < n as u64 { lines.push(format!("sp A get {}", i)); }
                lines.push(format!("sp A rank {}", i));
                if i <= n as u64 { lines.push(format!("sp A rank0 {}", i)); }
                lines.push(format!("sp A pred {}", i));
                lines.push(format!("sp A succ {}", i));
                if i <= m + 1 { lines.push(format!("sp A select {}", i)); }
                if i <= n as u64 - m + 1 { lines.push(format!("sp A select0 {}", i)); }
            }
            g.group(lines);
        }
    }
    // every ratio of set bits to universe: empty, one bit, sparse, dense, full; positions at both ends
    let samples = if g.thorough { 80 } else { 20 };
    let universes: Vec<u64> = if g.thorough { vec![1, 2, 63, 64, 65, 100, 1000, 4096, 10_000, 100_000, 1_000_000] } else { vec![1, 64, 65, 1000, 4096, 50_000] };
    for n in universes {
        let mut ms: Vec<u64> = vec![0, 1, 2, 17, 18, n / 1000, n / 100, n / 10, n / 3, n / 2, n - 1, n];
        ms.retain(|m| *m <= n && *m <= 30_000); ms.sort(); ms.dedup();
        for m in ms {
            let mut vals = random_set(g, n, m);
            if m >= 2 && g.rng.chance(1, 2) && n > 2 { vals[0] = 0; let l = vals.len(); vals[l - 1] = n - 1; vals.sort(); vals.dedup(); }
            let mut lines = vec![format!("sp A build {} 0 {}", n, vals_str(&vals))];
            sp_queries(g, "A", n, &vals, samples, true, &mut lines);
            if vals.len() <= 2000 { lines.push("sp A ser".to_string()); }
            g.group(lines);
        }
    }
    // bucket-boundary stress: values ≡ 0 and ≡ 2^w − 1 modulo powers of two, more than 16 zero runs in adversarial layouts
    for k in [3u64, 5, 8, 12] {
        let step = 1u64 << k;
        let n = step * 40 + 7;
        let mut vals: Vec<u64> = Vec::new();
        for b in 0..40 { if b % 3 != 1 { vals.push(b * step); } if b % 2 == 0 { vals.push(b * step + step - 1); } if b % 5 == 0 { vals.push(b * step + 1); } }
        vals.sort(); vals.dedup();
        let mut lines = vec![format!("sp A build {} 0 {}", n, vals_str(&vals))];
        sp_queries(g, "A", n, &vals, samples, true, &mut lines);
        g.group(lines);
    }
    // huge universes with few ones (bounded by memory only through n / 2^w)
    // …including universes one or a few positions above a multiple of the bucket size (the last bucket is a sliver)
    for n in [1u64 << 32, (1u64 << 40) + 1, (1u64 << 53) + 1, (1u64 << 53) - 1, (1u64 << 60) + 3, (1u64 << 62) + 12345, 1u64 << 63, (1u64 << 63) + 1, MAXU - 1, MAXU] {
        for m in [1u64, 2, 4, 17, 64] {
            let mut vals: Vec<u64> = (0..m).map(|_| g.rng.below(n)).collect();
            if m >= 2 { vals[0] = 0; vals[1] = n - 1; }
            vals.sort(); vals.dedup();
            let mut lines = vec![format!("sp A build {} 0 {}", n, vals_str(&vals))];
            sp_queries(g, "A", n, &vals, samples / 2, true, &mut lines);
            lines.push("sp A ser".to_string());
            g.group(lines);
        }
    }
    // large and heavily skewed sets: a dense cluster plus far outliers, so that `high` has several hundred thousand bits
    // and select superblocks of both kinds (many set bits close together; one superblock spanning a huge gap)
    if g.thorough {
        for (n, start, cluster, outliers) in [
            (1u64 << 30, 0u64, 100_000u64, vec![(1u64 << 30) - 1]),
            (1u64 << 30, 0, 150_000, vec![]),
            (1u64 << 34, (1u64 << 33) + 5, 70_000, vec![3, 1u64 << 32, (1u64 << 34) - 2]),
        ] {
            let mut vals: Vec<u64> = (0..cluster).map(|i| start + i).collect();
            vals.extend(outliers.iter()); vals.sort(); vals.dedup();
            let m = vals.len() as u64;
            let mut lines = vec![format!("sp A build {} 0 {}", n, vals_str(&vals))];
            sp_queries(g, "A", n, &vals, samples, true, &mut lines);
            for r in [cluster - 1, cluster, m - 2, m - 1, 4095, 4096, 4097, 8192, 65535, 65536, 98303, 98304, 98305] { if r <= m { lines.push(format!("sp A select {}", r)); } }
            for x in [start, start + cluster - 1, start + cluster, start + cluster + 1, start + cluster / 2, n - 2, n - 1] { lines.push(format!("sp A rank {}", x)); lines.push(format!("sp A pred {}", x)); lines.push(format!("sp A succ {}", x)); if x < n { lines.push(format!("sp A get {}", x)); } }
            g.group(lines);
        }
    }
    // empty vectors over moderately large universes (w = 1, so the bucket sequence has n/2 bits)
    for n in [1u64 << 16, (1u64 << 20) + 1] {
        let mut lines = vec![format!("sp A build {} 0", n)];
        sp_queries(g, "A", n, &[], 10, true, &mut lines);
        g.group(lines);
    }
    // rejected constructions
    g.group(vec!["sp A build 5 0 0 1 2 3 4 5".to_string(), "sp A build 5 0 3 3".to_string(), "sp A build 5 0 4 2".to_string(),
                 "sp A build 5 0 1 7".to_string(), "sp A build 3 0 0 1 2 3".to_string()]);
}

/// all non-decreasing sequences of `k` values below `n`
fn multisets(n: u64, k: usize) -> Vec<Vec<u64>> {
    let mut out: Vec<Vec<u64>> = vec![vec![]];
    for _ in 0..k {
        let mut next = Vec::new();
        for s in &out { let lo = s.last().cloned().unwrap_or(0); for v in lo..n { let mut t = s.clone(); t.push(v); next.push(t); } }
        out = next;
    }
    out
}

pub fn c15(g: &mut Gen) {
    let (maxn, maxk) = if g.thorough { (6u64, 6usize) } else { (5, 5) };
    for n in 1..=maxn {
        for k in 0..=maxk {
            for vals in multisets(n, k) {
                let mut lines = vec![format!("sp A build {} 1 {}", n, vals_str(&vals))];
                lines.push("sp A ones".to_string()); lines.push("sp A zeros".to_string()); lines.push("sp A len".to_string());
                for i in 0..(n + 2) {
                    if i < n { lines.push(format!("sp A get {}", i)); }
                    lines.push(format!("sp A rank {}", i));
                    lines.push(format!("sp A pred {}", i));
                    lines.push(format!("sp A succ {}", i));
                }
                for r in 0..(k as u64 + 2) { lines.push(format!("sp A select {}", r)); }
                let kk = k as u64;
                lines.push(format!("sp A it one : {} l n b", vec!["n"; k].join(" ")));
                lines.push(format!("sp A it one : {} l b n", vec!["b"; k].join(" ")));
                lines.push(format!("sp A it one : n b N{} l", kk / 2));
                lines.push(format!("sp A it bits : {} l n b", vec!["n"; n as usize].join(" ")));
                lines.push(format!("sp A it bits : {} l b n", vec!["b"; n as usize].join(" ")));
                lines.push("sp A it bits : n b n b b n l n b".to_string());
                g.group(lines);
            }
        }
    }
    // long duplicate runs at bucket boundaries, at 0 and at n−1; overfull multisets
    for (n, pattern) in [(64u64, vec![(0u64, 20usize), (31, 1), (32, 30), (63, 25)]), (1000, vec![(0, 3), (255, 40), (256, 40), (999, 100)]),
                         (5, vec![(0, 10), (4, 10)]), (3, vec![(1, 50)]), (1 << 40, vec![(0, 5), ((1 << 39) - 1, 5), (1 << 39, 5), ((1 << 40) - 1, 5)])] {
        let mut vals: Vec<u64> = Vec::new();
        for (v, c) in pattern { for _ in 0..c { vals.push(v); } }
        let mut lines = vec![format!("sp A build {} 1 {}", n, vals_str(&vals))];
        sp_queries(g, "A", n, &vals, 15, false, &mut lines);
        let m = vals.len();
        lines.push(format!("sp A it one : {} l n b", vec!["n b"; m / 2 + 1].join(" ")));
        if n <= 1000 {
            lines.push(format!("sp A it bits : {} l", vec!["n b"; (n as usize) / 2 + 1].join(" ")));
            lines.push(format!("sp A it bits : {} l", vec!["n"; n as usize + 1].join(" ")));
            lines.push(format!("sp A it bits : {} l", vec!["b"; n as usize + 1].join(" ")));
        }
        lines.push("sp A ser".to_string());
        g.group(lines);
    }
    // heavily overfull multisets over universes of SEVERAL HUNDRED positions (dozens of copies per position, some positions
    // absent): low width 1, so `high` is dense in ones and sparse in zeros — more than 64 unset bits, fewer than one per word
    for (n, copies) in [(600u64, 40u64), (300, 0), (1200, 33)] {
        let mut vals: Vec<u64> = Vec::new();
        for v in 0..n { let c = if copies > 0 { copies } else { (v * 37 + 11) % 90 }; for _ in 0..c { vals.push(v); } }
        for via in ["build", "from_iter"] {
            let mut lines = if via == "build" { vec![format!("sp A build {} 1 {}", n, vals_str(&vals))] } else { vec![format!("sp A from_iter {}", vals_str(&vals))] };
            lines.push("sp A len".to_string()); lines.push("sp A ones".to_string()); lines.push("sp A zeros".to_string());
            for x in (0..=n).step_by(7).chain([127u64, 128, 129, 255, 256, n - 1, n].into_iter()) {
                if x < n { lines.push(format!("sp A get {}", x)); }
                lines.push(format!("sp A rank {}", x)); lines.push(format!("sp A pred {}", x)); lines.push(format!("sp A succ {}", x));
            }
            let m = vals.len() as u64;
            for r in (0..m).step_by(std::cmp::max(1, m as usize / 60)) { lines.push(format!("sp A select {}", r)); }
            lines.push(format!("sp A it bits : {} l", vec!["n"; n as usize].join(" ")));
            g.group(lines);
        }
    }
    // a LARGE overfull multiset: low width 1, `high` has several hundred thousand bits and its unset bits form one long,
    // partially filled select superblock
    if g.thorough {
        let counts: [u64; 8] = [50_000, 40_000, 60_000, 30_000, 0, 70_000, 45_000, 65_000];
        let mut vals: Vec<u64> = Vec::new();
        for (v, c) in counts.iter().enumerate() { for _ in 0..*c { vals.push(v as u64); } }
        let mut lines = vec![format!("sp A build 8 1 {}", vals_str(&vals))];
        lines.push("sp A len".to_string()); lines.push("sp A ones".to_string());
        for x in 0..10u64 { if x < 8 { lines.push(format!("sp A get {}", x)); } lines.push(format!("sp A rank {}", x)); lines.push(format!("sp A pred {}", x)); lines.push(format!("sp A succ {}", x)); }
        for r in [0u64, 1, 49_999, 50_000, 89_999, 90_000, 180_000, 250_000, 359_999, 360_000] { lines.push(format!("sp A select {}", r)); }
        g.group(lines);
        let mut it: Vec<u64> = Vec::new();
        for (v, c) in [(0u64, 120_000u64), (3, 1), (9, 150_000)] { for _ in 0..c { it.push(v); } }
        let mut lines = vec![format!("sp I from_iter {}", vals_str(&it))];
        lines.push("sp I len".to_string()); lines.push("sp I ones".to_string());
        for x in 0..11u64 { lines.push(format!("sp I rank {}", x)); lines.push(format!("sp I succ {}", x)); }
        g.group(lines);
    }
    // multisets over universes in the top part of the usize range (bucket arithmetic must not overflow)
    for (n, vals) in [
        (MAXU, vec![0u64, 0, 7, 7, 7, 1 << 40, MAXU - 3, MAXU - 1, MAXU - 1]),
        (MAXU, vec![5u64]), (MAXU - 1, vec![MAXU - 2, MAXU - 2]), ((1u64 << 63) + (1u64 << 59), vec![12345]),
        ((1u64 << 63) + 1, vec![0, 1u64 << 63, 1u64 << 63]), (MAXU, (0..100).map(|i| (i / 3) * ((1u64 << 57) + 11)).collect::<Vec<u64>>()),
    ] {
        let mut lines = vec![format!("sp A build {} 1 {}", n, vals_str(&vals))];
        sp_queries(g, "A", n, &vals, 10, false, &mut lines);
        lines.push(format!("sp A it one : {} l n b", vec!["n b"; vals.len() / 2 + 1].join(" ")));
        lines.push("sp A ser".to_string());
        g.group(lines);
    }
    // try_from_iter accepts exactly the non-decreasing sequences and sizes the universe to last + 1
    let mut lines = Vec::new();
    for vals in [vec![3u64, 3, 1 << 62, MAXU - 1, MAXU - 1], vec![MAXU - 1], vec![0, MAXU - 1], vec![(1u64 << 63) + 5, (1u64 << 63) + 5, (1u64 << 63) + 9]] {
        lines.push(format!("sp I from_iter {}", vals_str(&vals)));
        lines.push("sp I len".to_string()); lines.push("sp I ones".to_string()); lines.push("sp I select 0".to_string());
        lines.push(format!("sp I select {}", vals.len() - 1)); lines.push(format!("sp I rank {}", MAXU)); lines.push(format!("sp I pred {}", MAXU)); lines.push("sp I succ 4".to_string());
    }
    for vals in [vec![], vec![0u64], vec![5], vec![1, 1, 1], vec![0, 3, 3, 9], vec![3, 2], vec![1, 5, 4, 9], vec![7, 7, 6], vec![0, 0, 0, 0, 0, 0, 0, 0]] {
        lines.push(format!("sp I from_iter {}", vals_str(&vals)));
        if vals.windows(2).all(|w| w[0] <= w[1]) { lines.push("sp I len".to_string()); lines.push("sp I ones".to_string()); lines.push("sp I select 0".to_string()); }
    }
    g.group(lines);
}

pub fn c16(g: &mut Gen) {
    // all call sequences up to length L over an alphabet of valid and invalid calls, several (universe, capacity)
    let depth = if g.thorough { 5 } else { 4 };
    for (n, cap, multi) in [(5u64, 3u64, 0), (5, 5, 0), (4, 0, 0), (3, 4, 1), (6, 3, 1), (1, 1, 0)] {
        let mut alphabet: Vec<String> = Vec::new();
        for i in [0u64, 1, 2, n - 1, n, n + 1, MAXU] { alphabet.push(format!("t{}", i)); }
        alphabet.sort(); alphabet.dedup();
        alphabet.push(format!("s{}", n / 2)); alphabet.push(format!("e{},{}", 1, n - 1)); alphabet.push("c".to_string());
        let mut lines = Vec::new();
        for d in 0..=depth.min(if cap == 0 { 2 } else { depth }) {
            for seq in call_sequences(&alphabet, d) { lines.push(format!("sp - builder {} {} {} : {} c", n, cap, multi, seq.join(" "))); }
        }
        g.group(lines);
    }
    g.group(vec!["sp - builder 5 6 0 : t0".to_string(), "sp - builder 5 6 1 : t0 t0 t0 t0 t0 t0 c".to_string()]);
    // vectors built through `try_from_iter` from the TAIL of another sparse vector's own iterator (sets and multisets):
    // the internal builder sees `size_hint`, one `next_back`, then the forward iteration
    for (n, multi, vals) in [(40u64, 0u64, vec![0u64, 7, 8, 9, 31, 32, 39]), (9, 1, vec![0, 0, 3, 3, 3, 8]), (5, 1, vec![4, 4, 4, 4]), (100, 0, (0..30).map(|i| i * 3 + 1).collect::<Vec<u64>>()), (1, 0, vec![0])] {
        let mut lines = vec![format!("sp S build {} {} {}", n, multi, vals_str(&vals))];
        for k in 0..=(vals.len() as u64 + 1) {
            lines.push(format!("sp T from_skip S {}", k));
            if k < vals.len() as u64 {
                lines.push("sp T len".to_string()); lines.push("sp T ones".to_string()); lines.push("sp T ser".to_string());
                for r in [0u64, 1, (vals.len() as u64 - k) / 2, vals.len() as u64 - k - 1, vals.len() as u64 - k] { lines.push(format!("sp T select {}", r)); }
                for x in [0u64, n / 2, n - 1, n] { lines.push(format!("sp T rank {}", x)); }
            }
        }
        g.group(lines);
    }
    // builders over universes up to usize::MAX: parameters, acceptance and conversion must not depend on the magnitude
    for (n, cap, multi) in [(MAXU, 3u64, 0), (MAXU, 100, 0), (MAXU, 2, 1), ((1u64 << 63) + (1u64 << 59), 1, 0), ((1u64 << 63) + 7, 4, 1), (MAXU - 1, 1, 0)] {
        let step = n / (cap + 1);
        let good: Vec<String> = (0..cap).map(|i| format!("t{}", i * step + (i % 2))).collect();
        let mut lines = vec![format!("sp - builder {} {} {} : {} c", n, cap, multi, good.join(" "))];
        lines.push(format!("sp - builder {} {} {} : {} t{} c", n, cap, multi, good.join(" "), n - 1));
        lines.push(format!("sp - builder {} {} {} : t{} t{} t0 c", n, cap, multi, n - 1, n));
        lines.push(format!("sp - builder {} {} {} : t{} c", n, cap, multi, MAXU));
        lines.push(format!("sp B build {} {} {}", n, multi, (0..cap).map(|i| (i * step + (i % 2)).to_string()).collect::<Vec<_>>().join(" ")));
        lines.push("sp B len".to_string()); lines.push("sp B ones".to_string());
        for r in [0, cap / 2, cap.saturating_sub(1), cap] { lines.push(format!("sp B select {}", r)); }
        for x in [0u64, step, n / 2, n - 1, n] { lines.push(format!("sp B rank {}", x)); lines.push(format!("sp B succ {}", x)); }
        g.group(lines);
    }
    crate::gen_rl::c16_rl(g);
}

pub fn c09_sp(g: &mut Gen) {
    // constructors with invalid sizes of every magnitude: an error, never a panic
    g.group(vec!["sp - builder 10 11 0 : c".to_string(), format!("sp - builder 10 {} 0 : c", MAXU), format!("sp - builder 0 {} 0 : c", MAXU - 1),
                 format!("sp - builder 7 {} 0 : t1 c", 1u64 << 40), format!("sp - builder {} {} 0 : c", MAXU - 1, MAXU), "sp - builder 0 1 0 : c".to_string()]);
    for (n, vals) in [(0u64, vec![]), (1, vec![0u64]), (10, vec![]), (100, vec![0, 50, 99]), (100, vec![99]), (1000, (0..1000).step_by(7).collect::<Vec<u64>>()), (MAXU, vec![0, 1, MAXU - 1])] {
        let m = vals.len() as u64;
        let mut lines = vec![format!("sp A build {} 0 {}", n, vals_str(&vals))];
        for a in boundary_values(n) {
            lines.push(format!("sp A rank {}", a)); lines.push(format!("sp A pred {}", a)); lines.push(format!("sp A succ {}", a));
            lines.push(format!("sp A it succ {} : l n n", a)); lines.push(format!("sp A it pred {} : l n n", a));
        }
        for a in boundary_values(m) {
            lines.push(format!("sp A select {}", a)); lines.push(format!("sp A it sel {} : l n n", a));
            lines.push(format!("sp A it one : N{} l n b", a)); lines.push(format!("sp A it one : n B{} l n b", a));
        }
        for a in boundary_values(n - m) { lines.push(format!("sp A select0 {}", a)); lines.push(format!("sp A it sel0 {} : l n n", a)); }
        for k in 1..=2u64 { if m >= k { let backs = vec!["b"; k as usize].join(" "); for x in [m - k, m - 1, m] { lines.push(format!("sp A it one : {} N{} l n b", backs, x)); } } }
        if n <= 1000 { for a in boundary_values(n) { if a <= 2000 { lines.push(format!("sp A it bits : N{} l n b", a)); } } }
        g.group(lines);
    }
}

pub fn c10_sp(g: &mut Gen) {
    let depth = if g.thorough { 4 } else { 3 };
    for (n, multi, vals) in [(0u64, 0, vec![]), (1, 0, vec![0u64]), (6, 0, vec![1, 2, 5]), (9, 1, vec![0, 0, 3, 3, 3, 8]), (40, 0, vec![0, 7, 8, 9, 31, 32, 39]), (5, 1, vec![4, 4, 4, 4, 4, 4, 4])] {
        let m = vals.len() as u64;
        let mut lines = vec![format!("sp A build {} {} {}", n, multi, vals_str(&vals))];
        for seq in call_sequences(&de_alphabet(m), depth) { lines.push(format!("sp A it one : {}", seq.join(" "))); }
        let bits_alpha: Vec<String> = de_alphabet(n).into_iter().filter(|c| !c.ends_with(&MAXU.to_string())).collect();
        for seq in call_sequences(&bits_alpha, depth - 1) { lines.push(format!("sp A it bits : {}", seq.join(" "))); }
        if multi == 0 {
            for seq in call_sequences(&fwd_alphabet(n - m), depth - 1) { lines.push(format!("sp A it zero : {}", seq.join(" "))); }
            for r in 0..=(n - m + 1) { lines.push(format!("sp A it sel0 {} : l n n N1 l n", r)); }
        }
        for r in 0..=(m + 1) { for seq in call_sequences(&de_alphabet(m.saturating_sub(r)), 2) { lines.push(format!("sp A it sel {} : {} n l", r, seq.join(" "))); } }
        for x in 0..=(n + 1) { lines.push(format!("sp A it pred {} : l n n b l n", x)); lines.push(format!("sp A it succ {} : l n n b l n", x)); }
        g.group(lines);
    }
}
