use crate::gen::*;
pub fn c02(_g: &mut Gen) { panic!("harness: generator c02 not built yet"); }
pub fn c15(_g: &mut Gen) { panic!("harness: generator c15 not built yet"); }
pub fn c16(_g: &mut Gen) { panic!("harness: generator c16 not built yet"); }
pub fn c09_sp(_g: &mut Gen) {}
pub fn c10_sp(_g: &mut Gen) {}
