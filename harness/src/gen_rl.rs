use crate::gen::*;
pub fn c03(_g: &mut Gen) { panic!("harness: generator c03 not built yet"); }
pub fn c11(_g: &mut Gen) { panic!("harness: generator c11 not built yet"); }
pub fn c09_rl(_g: &mut Gen) {}
pub fn c10_rl(_g: &mut Gen) {}
pub fn c16_rl(_g: &mut Gen) {}
