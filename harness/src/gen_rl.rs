// Generators for the run-length vector: C03 (answers + run iterator), C11 (conversions, construction routes),
// the RL parts of C09 / C10 / C16.
use crate::gen::*;
use crate::gen_bv::{bitstring, call_sequences, fwd_alphabet, make_bits};

fn runs_calls(runs: &[(u64, u64)], len: Option<u64>) -> String {
    let mut s: Vec<String> = runs.iter().map(|(a, l)| format!("s{},{}", a, l)).collect();
    if let Some(n) = len { s.push(format!("l{}", n)); }
    s.join(" ")
}

fn rl_queries(g: &mut Gen, name: &str, runs: &[(u64, u64)], len: u64, samples: usize, lines: &mut Vec<String>) {
    let ones: u64 = runs.iter().map(|r| r.1).sum();
    lines.push(format!("rl {} len", name)); lines.push(format!("rl {} ones", name)); lines.push(format!("rl {} zeros", name));
    let mut args: Vec<u64> = vec![0, 1, len.saturating_sub(1), len, len.saturating_add(1), len / 2];
    let step = std::cmp::max(1, runs.len() / 25);
    for (a, l) in runs.iter().step_by(step) { for x in [a.saturating_sub(1), *a, a + 1, a + l - 1, a + l, (a + l).saturating_add(1)] { args.push(x); } }
    for _ in 0..samples { args.push(g.rng.below(len.saturating_add(2).max(1))); }
    // an even grid over the whole universe (the sample indexes divide the universe evenly, the runs need not)
    for k in 1..64u64 { let x = ((len as u128 * k as u128) / 64) as u64; args.push(x); args.push(x.saturating_add(1)); }
    args.sort(); args.dedup();
    for a in &args {
        if *a < len { lines.push(format!("rl {} get {}", name, a)); }
        lines.push(format!("rl {} rank {}", name, a));
        if *a <= len { lines.push(format!("rl {} rank0 {}", name, a)); }
        lines.push(format!("rl {} pred {}", name, a));
        lines.push(format!("rl {} succ {}", name, a));
    }
    let mut ranks: Vec<u64> = vec![0, 1, ones.saturating_sub(1), ones, ones.saturating_add(1), ones / 2];
    let mut acc = 0u64;
    for (_, l) in runs.iter().step_by(step) { ranks.push(acc); ranks.push(acc + l - 1); acc += l; }
    for _ in 0..samples { ranks.push(g.rng.below(ones.saturating_add(2).max(1))); }
    for k in 1..32u64 { ranks.push(((ones as u128 * k as u128) / 32) as u64); }
    ranks.sort(); ranks.dedup();
    for r in &ranks { lines.push(format!("rl {} select {}", name, r)); }
    let z = len - ones;
    let mut zr: Vec<u64> = vec![0, 1, z.saturating_sub(1), z, z.saturating_add(1), z / 2];
    for (a, _) in runs.iter().step_by(step) { zr.push(*a); zr.push(a.saturating_sub(1)); }
    for _ in 0..samples { zr.push(g.rng.below(z.saturating_add(2).max(1))); }
    for k in 1..32u64 { zr.push(((z as u128 * k as u128) / 32) as u64); }
    zr.sort(); zr.dedup();
    for r in &zr { lines.push(format!("rl {} select0 {}", name, r)); }
    lines.push(format!("rl {} runs", name));
    // positioned iterators continue with consecutive items across run and block boundaries
    let stepi = if runs.len() <= 400 { 1 } else { std::cmp::max(1, runs.len() / 150) };
    for (a, l) in runs.iter().step_by(stepi) {
        // (default `nth` walks item by item: keep the skips small)
        let (k1, k2) = (std::cmp::min(*l, 40), std::cmp::min(l.saturating_mul(2).saturating_add(1), 90));
        for x in [*a, a + (l - 1), a.saturating_add(*l), a.saturating_sub(1)] {
            lines.push(format!("rl {} it pred {} : n n N{} n l N{} n n", name, x, k1, k2));
            lines.push(format!("rl {} it succ {} : n n N{} n l N{} n n", name, x, k1, k2));
        }
    }
    for r in ranks.iter().step_by(std::cmp::max(1, ranks.len() / 8)) { lines.push(format!("rl {} it sel {} : n N5 n l N70 n", name, r)); }
    for r in zr.iter().step_by(std::cmp::max(1, zr.len() / 8)) { lines.push(format!("rl {} it sel0 {} : n N5 n l N70 n", name, r)); }
}

/// runs with gaps / lengths drawn from the given magnitudes
fn make_runs(g: &mut Gen, n: usize, mags: &[u64], start_at_zero: bool) -> (Vec<(u64, u64)>, u64) {
    let mut runs = Vec::new();
    let mut pos: u64 = 0;
    for i in 0..n {
        let gm = *g.rng.pick(mags); let lm = *g.rng.pick(mags);
        let gap = if i == 0 && start_at_zero { 0 } else { 1 + g.rng.below(gm) + gm / 2 };
        let len = 1 + g.rng.below(lm) + lm / 2;
        if pos.checked_add(gap).and_then(|x| x.checked_add(len)).map(|x| x > (1u64 << 63) - 2).unwrap_or(true) { break; }
        runs.push((pos + gap, len));
        pos = pos + gap + len;
    }
    (runs, pos)
}

pub fn c03(g: &mut Gen) {
    let samples = if g.thorough { 60 } else { 15 };
    // no runs at all, with and without length
    for len in [0u64, 1, 64, 1000] {
        let mut lines = vec![format!("rl A build : l{}", len)];
        rl_queries(g, "A", &[], len, 5, &mut lines);
        lines.push("rl A ser".to_string());
        g.group(lines);
    }
    // block 0 (64 code units) holds ONE run starting at position 0 — or one run after a gap — so that the first two blocks
    // have the same number of zeros (or of ones) before them; then short runs for 1, 9, 21 blocks
    for (first_start, first_len, gap2, len2) in [(0u64, (1u64 << 63) + 1, 1u64 << 60, (1u64 << 60) + 1), (0, (1u64 << 62) + 5, 1u64 << 61, (1u64 << 61) + 3),
                                                 (1u64 << 60, (1u64 << 62) + 1, 1u64 << 61, (1u64 << 60) + 1), (0, 1u64 << 63, (1u64 << 62) - 9, 1u64 << 59)] {
        for small in [0usize, 40, 300, 700] {
            let mut runs: Vec<(u64, u64)> = vec![(first_start, first_len)];
            let start = first_start + first_len + gap2;
            runs.push((start, len2));
            let mut pos = start + len2;
            for _ in 0..small { runs.push((pos + 2, 3)); pos += 5; }
            let len = pos + 17;
            let mut lines = vec![format!("rl A build : {}", runs_calls(&runs, Some(len)))];
            rl_queries(g, "A", &runs, len, 6, &mut lines);
            g.group(lines);
        }
    }
    // run at position 0 / not, trailing zeros / not, magnitudes from 1 to 2^62, number of blocks 1, 8, 9, many
    let mag_sets: Vec<Vec<u64>> = vec![vec![1], vec![1, 7, 8], vec![1, 7, 8, 1 << 21], vec![1 << 21, 1 << 32], vec![1, 1 << 32, 1 << 40], vec![1 << 55, 1 << 58]];
    let counts: Vec<usize> = if g.thorough { vec![1, 2, 30, 33, 250, 270, 300, 1000, 3300] } else { vec![1, 2, 33, 260, 300, 700] };
    for mags in &mag_sets {
        for n in &counts {
            for start0 in [false, true] {
                if !g.thorough && *n > 300 && mags.len() > 2 { continue; }
                let (runs, end) = make_runs(g, *n, mags, start0);
                if runs.is_empty() { continue; }
                let trailing = if g.rng.chance(1, 2) { 0 } else { 1 + g.rng.below(1000) };
                let len = end + trailing;
                let mut lines = vec![format!("rl A build : {}", runs_calls(&runs, if trailing > 0 { Some(len) } else { None }))];
                rl_queries(g, "A", &runs, len, samples, &mut lines);
                lines.push("rl A ser".to_string());
                g.group(lines);
            }
        }
    }
    // skewed universes: many short runs (more than 16 blocks) and one huge run or gap at the end / at the start, so that
    // almost all of the sampled universe lies in one block
    for (nruns, big) in [(700usize, 1u64 << 40), (3300, 1u64 << 33), (700, 1u64 << 62)] {
        if !g.thorough && nruns > 1000 { continue; }
        for shape in 0..6 {
            let mut runs: Vec<(u64, u64)> = Vec::new();
            let mut pos = 0u64;
            if shape == 2 { pos = big; }                                   // huge gap first
            if shape == 3 { runs.push((0, big)); pos = big; }              // huge run first
            for i in 0..nruns as u64 {
                let gap = 1 + (i % 3); let l = 1 + (i % 2); runs.push((pos + gap, l)); pos += gap + l;
                // one block in the MIDDLE that is thousands of times heavier than the others (huge gap / huge run)
                if i == nruns as u64 / 2 && shape == 4 { pos += big / 4096 + 200_000; }
                if i == nruns as u64 / 2 && shape == 5 { let l2 = big / 4096 + 200_000; runs.push((pos + 2, l2)); pos += 2 + l2; }
            }
            let mut len = pos;
            if shape == 0 { len = pos + big; }                             // huge trailing gap
            if shape == 1 { runs.push((pos + 1, big)); len = pos + 1 + big; } // huge final run
            let mut lines = vec![format!("rl A build : {}", runs_calls(&runs, Some(len)))];
            rl_queries(g, "A", &runs, len, samples, &mut lines);
            g.group(lines);
        }
    }
    // blocks closed early: runs whose two codes need many units (22 + 21 + … > what is left in the block)
    for k in 0..6u64 {
        let mut runs: Vec<(u64, u64)> = Vec::new();
        let mut pos = 0u64;
        for i in 0..40u64 {
            let (gap, len) = if (i + k) % 5 == 0 { (1u64 << (20 + 3 * k), 1u64 << (18 + 2 * k)) } else { (1 + (i % 3), 1 + (i % 7)) };
            runs.push((pos + gap, len)); pos += gap + len;
        }
        let mut lines = vec![format!("rl A build : {}", runs_calls(&runs, Some(pos + 5)))];
        rl_queries(g, "A", &runs, pos + 5, samples, &mut lines);
        lines.push("rl A ser".to_string());
        g.group(lines);
    }
    // total length up to the documented maximum (about usize::MAX): few blocks, and many blocks
    for (runs, len) in [
        (vec![(0u64, 1u64)], (1u64 << 63) - 1), (vec![(0, 1)], 1 << 63), (vec![(5, 3)], MAXU), (vec![(0, 1 << 62), ((1 << 62) + 5, 1 << 61)], MAXU - 1),
        (vec![(MAXU - 10, 5)], MAXU), (vec![(1 << 63, 1 << 62)], MAXU), (vec![(MAXU - 5, 5)], MAXU), (vec![(3, 4), (MAXU - 1, 1)], MAXU), (vec![(0, MAXU)], MAXU),
    ] {
        let mut lines = vec![format!("rl A build : {}", runs_calls(&runs, Some(len)))];
        rl_queries(g, "A", &runs, len, 8, &mut lines);
        g.group(lines);
    }
    // the block-0-holds-only-a-run-at-0 layout with at least 9 blocks (zero counts before blocks repeat)
    {
        let mut runs: Vec<(u64, u64)> = vec![(0, (1u64 << 63) + 1)];
        let mut pos = (1u64 << 63) + 1;
        for _ in 0..10 { let gap = 1u64 << 58; let len = (1u64 << 57) + 1; if pos.checked_add(gap + len).is_none() { break; } runs.push((pos + gap, len)); pos += gap + len; }
        let mut lines = vec![format!("rl A build : {}", runs_calls(&runs, None))];
        rl_queries(g, "A", &runs, pos, 8, &mut lines);
        g.group(lines);
    }
    // adjacent input runs are merged; bit-at-a-time construction; set_len between runs
    let mut lines = vec!["rl A build : s3,2 s5,4 s9,1 s20,1 s21,1 s22,5 l40".to_string()];
    rl_queries(g, "A", &[(3, 7), (20, 7)], 40, 10, &mut lines);
    lines.push("rl B build : b3 b4 b5 b6 b7 b8 b9 b20 b21 b22 b23 b24 b25 b26 l40".to_string());
    lines.push("rl A eq B".to_string());
    lines.push("rl C build : s3,7 l15 s20,7 l40".to_string());
    lines.push("rl A eq C".to_string());
    lines.push("rl D build : s3,7 l10 s10,2".to_string());
    rl_queries(g, "D", &[(3, 9)], 12, 10, &mut lines);
    lines.push("rl E build : l10 s10,5 s3,2".to_string());
    g.group(lines);
}

pub fn c09_rl(g: &mut Gen) {
    for (runs, len) in [(vec![], 0u64), (vec![], 10), (vec![(0u64, 1u64)], 1), (vec![(3, 4), (50, 1), (99, 1)], 100), (vec![(0, 100)], 100), (vec![(10, 5)], MAXU)] {
        let ones: u64 = runs.iter().map(|r| r.1).sum();
        let mut lines = vec![format!("rl A build : {}", runs_calls(&runs, Some(len)))];
        for a in boundary_values(len) {
            lines.push(format!("rl A rank {}", a)); lines.push(format!("rl A pred {}", a)); lines.push(format!("rl A succ {}", a));
            lines.push(format!("rl A it succ {} : l n n", a)); lines.push(format!("rl A it pred {} : l n n", a));
        }
        for a in boundary_values(ones) {
            lines.push(format!("rl A select {}", a)); lines.push(format!("rl A it sel {} : l n n", a));
            lines.push(format!("rl A it one : N{} l n", a)); lines.push(format!("rl A it one : n N{} l n", a));
        }
        for a in boundary_values(len - ones) { lines.push(format!("rl A select0 {}", a)); lines.push(format!("rl A it sel0 {} : l n n", a)); }
        if len <= 1000 { for a in boundary_values(len) { if a <= 5000 { lines.push(format!("rl A it bits : N{} l n", a)); lines.push(format!("rl A it zero : N{} l n", a)); } } }
        g.group(lines);
    }
}

pub fn c10_rl(g: &mut Gen) {
    let depth = if g.thorough { 4 } else { 3 };
    for (runs, len) in [(vec![], 0u64), (vec![], 3), (vec![(0u64, 2u64)], 2), (vec![(1, 2), (5, 1)], 8), (vec![(0, 3), (10, 30), (64, 1)], 70)] {
        let ones: u64 = runs.iter().map(|r| r.1).sum();
        let mut lines = vec![format!("rl A build : {}", runs_calls(&runs, Some(len)))];
        for seq in call_sequences(&fwd_alphabet(ones), depth) { lines.push(format!("rl A it one : {}", seq.join(" "))); }
        for seq in call_sequences(&fwd_alphabet(len - ones), depth) { lines.push(format!("rl A it zero : {}", seq.join(" "))); }
        let bits_alpha: Vec<String> = fwd_alphabet(len).into_iter().filter(|c| !c.ends_with(&MAXU.to_string())).collect();
        for seq in call_sequences(&bits_alpha, depth) { lines.push(format!("rl A it bits : {}", seq.join(" "))); }
        for seq in call_sequences(&["n".to_string(), "N0".to_string(), "N1".to_string(), "N5".to_string(), "c".to_string(), "L".to_string()], depth) { lines.push(format!("rl A it run : {}", seq.join(" "))); }
        for r in 0..=(ones + 1) { lines.push(format!("rl A it sel {} : l n n N1 l n", r)); }
        for r in 0..=(len - ones + 1) { lines.push(format!("rl A it sel0 {} : l n n N1 l n", r)); }
        for x in 0..=(len + 1) { lines.push(format!("rl A it pred {} : l n n l n", x)); lines.push(format!("rl A it succ {} : l n n l n", x)); }
        g.group(lines);
    }
    // a multi-block vector traversed completely
    let (runs, end) = make_runs(g, 200, &[1, 7, 8], false);
    let ones: u64 = runs.iter().map(|r| r.1).sum();
    let mut lines = vec![format!("rl A build : {}", runs_calls(&runs, Some(end + 3)))];
    lines.push(format!("rl A it one : {} l n", vec!["n"; ones as usize].join(" ")));
    lines.push(format!("rl A it zero : {} l n", vec!["n"; (end + 3 - ones) as usize].join(" ")));
    lines.push(format!("rl A it bits : {} l n", vec!["n"; (end + 3) as usize].join(" ")));
    lines.push(format!("rl A it run : {} n", vec!["n"; runs.len()].join(" ")));
    // positioned iterators started inside / at the end of / just after runs in every block, then continued across the
    // following run and block boundaries
    // EVERY run (the interesting ones are the last run of each block, and nobody knows here which those are)
    for (a, l) in runs.iter() {
        for x in [*a, a + l - 1, a + l, a.saturating_sub(1)] {
            lines.push(format!("rl A it pred {} : n n n N3 n l N9 n n l", x));
            lines.push(format!("rl A it succ {} : n n n N3 n l N9 n n l", x));
        }
    }
    for r in (0..ones).step_by(std::cmp::max(1, ones as usize / 25)) { lines.push(format!("rl A it sel {} : n n N4 n l n", r)); }
    let zeros = end + 3 - ones;
    for r in (0..zeros).step_by(std::cmp::max(1, zeros as usize / 25)) { lines.push(format!("rl A it sel0 {} : n n N4 n l n", r)); }
    g.group(lines);
    // the same kinds of iterators over a LOADED copy of a vector with many blocks and large gaps (more than one sample
    // per index): `load` rebuilds the three sample indexes, which decide where a positioned iterator starts
    let (runs, end) = make_runs(g, 600, &[1, 7, 8, 300, 5000], false);
    let ones: u64 = runs.iter().map(|r| r.1).sum();
    let len = end + 3;
    let mut lines = vec![format!("rl A build : {}", runs_calls(&runs, Some(len))), "ser reload A L extra=0".to_string(), "rl L eq A".to_string(), "rl L len".to_string(), "rl L ones".to_string()];
    for (i, (a, l)) in runs.iter().enumerate() {
        if i % 7 != 0 && i + 3 < runs.len() { continue; }
        for x in [*a, a + l - 1, a + l, a.saturating_sub(1)] {
            lines.push(format!("rl L it pred {} : l n n l", x));
            lines.push(format!("rl L it succ {} : l n n l", x));
            lines.push(format!("rl L rank {}", x)); lines.push(format!("rl L get {}", x));
        }
    }
    for r in (0..ones).step_by(std::cmp::max(1, ones as usize / 40)) { lines.push(format!("rl L it sel {} : l n n l", r)); lines.push(format!("rl L select {}", r)); }
    let zeros = len - ones;
    for r in (0..zeros).step_by(std::cmp::max(1, zeros as usize / 40)) { lines.push(format!("rl L it sel0 {} : l n n l", r)); lines.push(format!("rl L select0 {}", r)); }
    lines.push(format!("rl L it run : {} n", vec!["n"; runs.len()].join(" ")));
    g.group(lines);
}

pub fn c16_rl(g: &mut Gen) {
    // a LONG run (its gap and length codes need 30–44 code units) arriving when the current block has 0 … 40 free units, then
    // more short runs (the next block start truncates anything written across the boundary), conversion and bytes compared
    for (gap, len) in [(1u64 << 50, 1u64 << 50), (1u64 << 48, (1u64 << 49) + 5), (1u64 << 60, 1u64 << 59), ((1u64 << 45) + 1, 1u64 << 45)] {
        let mut lines = Vec::new();
        for k in (0..=32usize).step_by(1) {
            if k % 2 == 1 && k > 20 { continue; }
            let mut calls: Vec<String> = (0..k).map(|i| format!("s{},1", 2 * i)).collect();
            let start = 2 * k as u64 + gap;
            calls.push(format!("s{},{}", start, len));
            let mut pos = start + len;
            for _ in 0..5 { calls.push(format!("s{},3", pos + 2)); pos += 5; }
            lines.push(format!("rl - builder : {} c", calls.join(" ")));
            if k % 8 == 0 { lines.push(format!("rl R build : {}", calls.join(" "))); lines.push("rl R ser".to_string()); lines.push("rl R runs".to_string()); lines.push(format!("rl R rank {}", start + 1)); lines.push(format!("rl R select {}", k as u64 + 3)); }
        }
        g.group(lines);
    }
    let depth = if g.thorough { 5 } else { 4 };
    // (the last three: a run ending exactly at usize::MAX, the empty run at usize::MAX, the full-length run — all legal)
    let alphabet: Vec<String> = vec!["s0,1", "s1,2", "s3,0", "s5,3", "s8,1", "s2,2", "l4", "l8", "l10", "l0", "s10,5", "s18446744073709551615,1", "s7,18446744073709551610",
                                     "s18446744073709551605,10", "s18446744073709551615,0", "s0,18446744073709551615"]
        .into_iter().map(|s| s.to_string()).collect();
    let mut lines = Vec::new();
    for d in 0..=depth {
        if d == depth && !g.thorough {
            // at full depth sample the sequence space
            for _ in 0..3000 { let seq: Vec<String> = (0..d).map(|_| g.rng.pick(&alphabet).clone()).collect(); lines.push(format!("rl - builder : {} c", seq.join(" "))); }
        } else {
            for seq in call_sequences(&alphabet, d) { lines.push(format!("rl - builder : {} c", seq.join(" "))); }
        }
    }
    g.group(lines);
}

pub fn c11(g: &mut Gen) {
    // every source / target pair, chains up to length 3, from the same bits; the result must equal what the target's
    // own builder produces from the same bits, and serialize identically
    let shapes: Vec<Vec<bool>> = {
        let mut v: Vec<Vec<bool>> = vec![vec![], vec![true], vec![false], vec![false, true, true, false, true]];
        for kind in [2usize, 3, 6, 7, 8, 9] { for len in [64usize, 65, 200, 1000] { let b = make_bits(g, len, kind); v.push(b); } }
        if g.thorough { for kind in [2usize, 6] { let b = make_bits(g, 20000, kind); v.push(b); } }
        v
    };
    // an EMPTY run placed beyond the current length must leave the vector (length, bits, bytes) untouched
    {
        let mut lines = Vec::new();
        for calls in ["s5,3 s20,0 l30", "s5,3 s20,0", "s0,2 s9,0 s3,4 l12", "s100,0 s2,1 l150", "s7,2 s50,0 s9,1 s60,0 l61"] {
            lines.push(format!("rl R build : {}", calls)); lines.push("rl R len".to_string()); lines.push("rl R ones".to_string()); lines.push("rl R ser".to_string());
            lines.push("bv B copy_of R".to_string()); lines.push("bv B len".to_string()); lines.push("sp S copy_of R".to_string()); lines.push("sp S len".to_string()); lines.push("sp S ser".to_string());
            lines.push(format!("rl - builder : {} c", calls));
        }
        g.group(lines);
    }
    let kinds = ["bv", "sp", "rl"];
    for bits in shapes {
        let mut lines = vec![format!("bv SRC from_bits {}", bitstring(&bits))];
        // reference objects built by each type's own builder from the same bits
        let ones: Vec<String> = bits.iter().enumerate().filter(|(_, b)| **b).map(|(i, _)| i.to_string()).collect();
        lines.push(format!("sp REFsp build {} 0 {}", bits.len(), ones.join(" ")));
        // run-wise construction with the final length
        let mut runs: Vec<(u64, u64)> = Vec::new();
        for (i, b) in bits.iter().enumerate() { if *b { if let Some(l) = runs.last_mut() { if l.0 + l.1 == i as u64 { l.1 += 1; continue; } } runs.push((i as u64, 1)); } }
        lines.push(format!("rl REFrl build : {}", runs_calls(&runs, Some(bits.len() as u64))));
        lines.push(format!("bv REFbv from_bits {}", bitstring(&bits)));
        lines.push("bv REFbv ser".to_string());
        lines.push("sp REFsp ser".to_string());
        lines.push("rl REFrl ser".to_string());
        let mut id = 0;
        for a in kinds { for b in kinds { for c in kinds {
            // chain SRC -> a -> b -> c by copy_of (non-consuming) and by From (consuming) alternately
            id += 1;
            let n1 = format!("X{}a", id); let n2 = format!("X{}b", id); let n3 = format!("X{}c", id);
            lines.push(format!("{} {} copy_of SRC", a, n1));
            lines.push(format!("{} {} {} {}", b, n2, if id % 2 == 0 { "copy_of" } else { "from" }, n1));
            lines.push(format!("{} {} {} {}", c, n3, if id % 3 == 0 { "copy_of" } else { "from" }, n2));
            lines.push(format!("{} {} eq REF{}", c, n3, c));
            lines.push(format!("{} {} ser", c, n3));
            lines.push(format!("{} {} len", c, n3)); lines.push(format!("{} {} ones", c, n3));
        } } }
        g.group(lines);
    }
    // conversions between the two compressed types for lengths up to usize::MAX (no plain bitvector at this size)
    for (len, runs) in [(MAXU, vec![(12345u64, 1u64)]), (MAXU, vec![(0, 3), (1u64 << 63, 2), (MAXU - 5, 4)]), (MAXU - 1, vec![(MAXU - 3, 2)]),
                        ((1u64 << 63) + 5, vec![(7, 1), (1u64 << 62, 5)])] {   // (an EMPTY sparse vector of this size would need 2^63 buckets)
        let ones: Vec<String> = runs.iter().flat_map(|(a, l)| (0..*l).map(move |i| (a + i).to_string())).collect();
        let mut lines = vec![format!("rl R build : {}", runs_calls(&runs, Some(len)))];
        lines.push(format!("sp REFsp build {} 0 {}", len, ones.join(" ")));
        lines.push("rl R ser".to_string()); lines.push("sp REFsp ser".to_string());
        lines.push("sp S1 copy_of R".to_string()); lines.push("sp S1 eq REFsp".to_string()); lines.push("sp S1 ser".to_string()); lines.push("sp S1 len".to_string()); lines.push("sp S1 ones".to_string());
        lines.push("rl R1 copy_of REFsp".to_string()); lines.push("rl R1 eq R".to_string()); lines.push("rl R1 ser".to_string());
        lines.push("rl R2 from S1".to_string()); lines.push("rl R2 eq R".to_string()); lines.push("rl R2 len".to_string()); lines.push("rl R2 ones".to_string());
        lines.push("sp S2 from R1".to_string()); lines.push("sp S2 eq REFsp".to_string());
        for x in [0u64, 7, 12345, 1u64 << 63, len - 1, len] { lines.push(format!("sp S2 rank {}", x)); lines.push(format!("rl R2 rank {}", x)); }
        g.group(lines);
    }
    // builder call decompositions of one run list: bit at a time / by runs / split runs / via set_len
    for _ in 0..(if g.thorough { 60 } else { 15 }) {
        let nr = 1 + g.rng.below(40) as usize; let s0 = g.rng.chance(1, 2);
        let (runs, end) = make_runs(g, nr, &[1, 7, 8], s0);
        let len = end + g.rng.below(20);
        let mut lines = vec![format!("rl R0 build : {}", runs_calls(&runs, Some(len)))];
        // split every run at a random point
        let mut split: Vec<String> = Vec::new();
        for (a, l) in &runs { if *l > 1 { let k = 1 + g.rng.below(l - 1); split.push(format!("s{},{}", a, k)); split.push(format!("s{},{}", a + k, l - k)); } else { split.push(format!("s{},{}", a, l)); } }
        split.push(format!("l{}", len));
        lines.push(format!("rl R1 build : {}", split.join(" ")));
        lines.push("rl R0 eq R1".to_string());
        // bit at a time
        let mut bitsc: Vec<String> = Vec::new();
        for (a, l) in &runs { for i in 0..*l { bitsc.push(format!("b{}", a + i)); } }
        bitsc.push(format!("l{}", len));
        lines.push(format!("rl R2 build : {}", bitsc.join(" ")));
        lines.push("rl R0 eq R2".to_string());
        // set_len after every run (to a length that is not the start of the next run)
        let mut viaset: Vec<String> = Vec::new();
        for (i, (a, l)) in runs.iter().enumerate() {
            viaset.push(format!("s{},{}", a, l));
            let next_start = if i + 1 < runs.len() { runs[i + 1].0 } else { len + 1 };
            if a + l + 1 < next_start { viaset.push(format!("l{}", a + l + 1)); }
        }
        viaset.push(format!("l{}", len));
        lines.push(format!("rl R3 build : {}", viaset.join(" ")));
        lines.push("rl R0 eq R3".to_string());
        // every run split in two with a set_len to the *current* length between the pieces (a no-op that must not split the run)
        let mut noop: Vec<String> = Vec::new();
        for (a, l) in &runs { if *l > 1 { let k = 1 + g.rng.below(l - 1); noop.push(format!("s{},{}", a, k)); noop.push(format!("l{}", a + k)); noop.push(format!("s{},{}", a + k, l - k)); } else { noop.push(format!("s{},{}", a, l)); noop.push(format!("l{}", a + l)); } }
        noop.push(format!("l{}", len));
        lines.push(format!("rl R5 build : {}", noop.join(" ")));
        lines.push("rl R0 eq R5".to_string());
        lines.push("rl R5 runs".to_string());
        lines.push("rl R5 ser".to_string());
        // set_len exactly up to the start of the next run (the next run is then adjacent to the length)
        let mut adj: Vec<String> = Vec::new();
        for (a, l) in &runs { if *a > 0 { adj.push(format!("l{}", a)); } adj.push(format!("s{},{}", a, l)); }
        adj.push(format!("l{}", len));
        lines.push(format!("rl R4 build : {}", adj.join(" ")));
        lines.push("rl R0 eq R4".to_string());
        lines.push("rl R4 runs".to_string());
        lines.push("rl R0 ser".to_string()); lines.push("rl R1 ser".to_string()); lines.push("rl R4 ser".to_string());
        g.group(lines);
    }
}
