#!/bin/sh
# Builds the framework from files on disk only (offline): translator output, Lean library + driver, harness.
set -e
cd "$(dirname "$0")"
export CARGO_NET_OFFLINE=true
mkdir -p .build/tmp evidence replays
python3 tools/gen_lean.py
(cd lean && lake build sdsdriver Sds)
[ -f harness/Cargo.lock ] || cp /repo/Cargo.lock harness/Cargo.lock
(cd harness && CARGO_TARGET_DIR=../.build/cargo-native RUSTFLAGS="-C target-cpu=native" cargo build --offline --profile chk && \
   CARGO_TARGET_DIR=../.build/cargo-native RUSTFLAGS="-C target-cpu=native" cargo build --offline --profile rel) &
(cd harness && CARGO_TARGET_DIR=../.build/cargo-portable RUSTFLAGS="" cargo build --offline --profile rel && \
   CARGO_TARGET_DIR=../.build/cargo-portable RUSTFLAGS="" cargo build --offline --profile chk) &
wait
echo "setup: ok"
