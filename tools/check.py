#!/usr/bin/env python3
"""Orchestrator:  check.py <Cxx> <quick|thorough>   |   check.py --replay <file>

One run = translate (/repo/src -> Lean), prove (lake build + axiom audit), build the harness against
/repo's working tree, correspond (harness transcript -> Lean driver), verdict, evidence.
Exit 0 iff no unlisted violation; a violation prints `VIOLATION property=<id> replay=<path>`.
"""
import fcntl, glob, json, os, re, subprocess, sys, time, hashlib, shutil
from concurrent.futures import ThreadPoolExecutor

ROOT = os.path.abspath(os.path.join(os.path.dirname(os.path.abspath(__file__)), ".."))
LEAN = os.path.join(ROOT, "lean")
HARNESS = os.path.join(ROOT, "harness")
BUILD = os.path.join(ROOT, ".build")
REPO = os.environ.get("VERIF_REPO", "/repo")
ALLOWED_AXIOMS = {"propext", "Classical.choice", "Quot.sound"}
NCPU = os.cpu_count() or 4

sys.path.insert(0, os.path.join(ROOT, "tools"))
from props import PROPS, PROFILES  # noqa: E402


def sh(cmd, cwd=None, env=None, timeout=None, stdin=None):
    e = dict(os.environ)
    e.update({"CARGO_NET_OFFLINE": "true"})
    if env:
        e.update(env)
    p = subprocess.run(cmd, cwd=cwd, env=e, stdout=subprocess.PIPE, stderr=subprocess.STDOUT, text=True,
                       timeout=timeout, input=stdin)
    return p.returncode, p.stdout


class Lock:
    def __init__(self, name):
        os.makedirs(BUILD, exist_ok=True)
        self.path = os.path.join(BUILD, name + ".lock")

    def __enter__(self):
        self.f = open(self.path, "w")
        fcntl.flock(self.f, fcntl.LOCK_EX)
        return self

    def __exit__(self, *a):
        fcntl.flock(self.f, fcntl.LOCK_UN)
        self.f.close()


# ------------------------------------------------------------------------------------------------
# step 1-2: translate and prove

def translate():
    rc, out = sh([sys.executable, os.path.join(ROOT, "tools", "gen_lean.py")], env={"VERIF_REPO": REPO})
    return rc == 0, out.strip()


def first_error(log):
    for line in log.splitlines():
        if "error" in line:
            return line.strip()[:400]
    return log.strip().splitlines()[-1][:400] if log.strip() else "unknown build failure"


def prove(prop, thorough):
    """returns dict(obligations, discharged, failed:[...], axioms:{thm:[...]}, log)"""
    cfg = PROPS[prop]
    res = dict(obligations=0, discharged=0, failed=[], axioms={}, log="", grep_hits=[], driver_ok=True)
    audit = os.path.join(LEAN, cfg["audit"])
    thms = []
    if os.path.exists(audit):
        for line in open(audit):
            m = re.match(r"\s*#print axioms\s+(\S+)", line)
            if m:
                thms.append(m.group(1))
    res["theorems"] = thms
    res["obligations"] = len(thms)
    with Lock("lake"):
        rc, log = sh(["lake", "build", "sdsdriver"], cwd=LEAN)
        if rc != 0:
            res["driver_ok"] = False
            res["failed"].append("driver build: " + first_error(log))
            res["log"] += log
        rc, log = sh(["lake", "build"] + cfg["lean"], cwd=LEAN)
        if rc != 0:
            res["failed"].append("lake build %s: %s" % (" ".join(cfg["lean"]), first_error(log)))
            res["log"] += log
            return res
        rc, out = sh(["lake", "env", "lean", cfg["audit"]], cwd=LEAN)
    if rc != 0:
        res["failed"].append("audit: " + first_error(out))
        res["log"] += out
        return res
    # parse `'Thm' depends on axioms: [a, b]` / `'Thm' does not depend on any axioms`
    flat = re.sub(r"\s+", " ", out)
    for thm in thms:
        m = re.search(r"'%s' (does not depend on any axioms|depends on axioms: \[([^\]]*)\])" % re.escape(thm), flat)
        if not m:
            res["failed"].append("audit: no axiom report for " + thm)
            continue
        axs = [a.strip() for a in (m.group(2) or "").split(",") if a.strip()]
        res["axioms"][thm] = axs
        bad = [a for a in axs if a not in ALLOWED_AXIOMS]
        if bad:
            res["failed"].append("theorem %s depends on disallowed axioms %s" % (thm, bad))
        else:
            res["discharged"] += 1
    # source hygiene
    pat = re.compile(r"\bsorry\b|\badmit\b|^axiom |native_decide|bv_decide|implemented_by|\bunsafe |maxHeartbeats 0")
    for path in glob.glob(os.path.join(LEAN, "Sds", "**", "*.lean"), recursive=True):
        if "/Driver/" in path:
            continue
        incomment = False
        for i, line in enumerate(open(path), 1):
            s = line
            if "/-" in s and "-/" not in s:
                incomment = True
            if incomment:
                if "-/" in s:
                    incomment = False
                continue
            s = re.sub(r"--.*", "", s)
            s = re.sub(r"/-.*?-/", "", s)
            if pat.search(s):
                res["grep_hits"].append("%s:%d: %s" % (os.path.relpath(path, LEAN), i, line.strip()))
    if res["grep_hits"]:
        res["failed"].append("forbidden construct in sources: " + res["grep_hits"][0])
    if thorough and not res["failed"]:
        with Lock("lake"):
            for mod in cfg["lean"]:
                rc, out = sh(["lake", "env", "leanchecker", mod], cwd=LEAN)
                if rc != 0:
                    res["failed"].append("leanchecker %s: %s" % (mod, first_error(out)))
        res["leanchecker"] = True
    return res


# ------------------------------------------------------------------------------------------------
# source fingerprints: not an obligation — a trigger.  When a library source file differs (comments and whitespace
# aside) from the text the hand-written model was last validated against, the correspondence search is run at the
# thorough scale and with a second seed, so that a change whose effect lies in a rarely generated regime has a better
# chance of producing a concrete failing input.  A differing fingerprint alone never produces a VIOLATION.

def _norm_source(text):
    text = re.sub(r"//[^\n]*", "", text)
    text = re.sub(r"/\*.*?\*/", "", text, flags=re.S)
    return re.sub(r"\s+", " ", text).strip()


def source_fingerprints():
    out = {}
    src = os.path.join(REPO, "src")
    for root, _, files in os.walk(src):
        for fn in sorted(files):
            if not fn.endswith(".rs") or fn == "tests.rs" or "/bin" in root:
                continue
            path = os.path.join(root, fn)
            text = open(path).read()
            cut = text.find("#[cfg(test)]\nmod tests {")
            if cut >= 0:
                text = text[:cut]
            out[os.path.relpath(path, REPO)] = hashlib.sha256(_norm_source(text).encode()).hexdigest()[:16]
    return out


def changed_sources():
    path = os.path.join(ROOT, "tools", "source_fingerprints.json")
    if not os.path.exists(path):
        return []
    ref = json.load(open(path))
    cur = source_fingerprints()
    return sorted(f for f in set(ref) | set(cur) if ref.get(f) != cur.get(f))


# ------------------------------------------------------------------------------------------------
# step 3: build the implementation

def build_harness(profile):
    p = PROFILES[profile]
    target = os.path.join(BUILD, "cargo-" + ("native" if p["native"] else "portable"))
    env = {"CARGO_TARGET_DIR": target, "RUSTFLAGS": "-C target-cpu=native" if p["native"] else ""}
    with Lock("cargo-" + ("native" if p["native"] else "portable")):
        if not os.path.exists(os.path.join(HARNESS, "Cargo.lock")):
            shutil.copy(os.path.join(REPO, "Cargo.lock"), os.path.join(HARNESS, "Cargo.lock"))
        rc, out = sh(["cargo", "build", "--offline", "--profile", p["cargo"]], cwd=HARNESS, env=env)
    binp = os.path.join(target, p["cargo"], "sds-harness")
    return rc == 0 and os.path.exists(binp), binp, out


# ------------------------------------------------------------------------------------------------
# step 4: correspond

def header(profile):
    p = PROFILES[profile]
    return "@profile %s\n@mode %s\n@bmi2 %d\n" % (profile, p["mode"], 1 if p["native"] else 0)


def tmpdir():
    d = os.path.join(BUILD, "tmp")
    os.makedirs(d, exist_ok=True)
    return d


def run_driver(text):
    drv = os.path.join(LEAN, ".lake", "build", "bin", "sdsdriver")
    p = subprocess.run([drv], input=text, stdout=subprocess.PIPE, stderr=subprocess.STDOUT, text=True)
    return p.returncode, p.stdout


STOP = {"hang": False}


def correspond_shard(binp, profile, gen, tier, seed, shard, nshards, timeout, stop_on_hang=False):
    if stop_on_hang and STOP["hang"]:
        # an earlier shard of this run hung: that is already a violation with a replay; in the quick tier the remaining
        # shards are not started, so that a change which makes the library loop does not cost (shards x timeout)
        return dict(profile=profile, gen=gen, shard=shard, crashed=None, transcript="", out="", rc=0, skipped=True)
    env = dict(os.environ)
    env["VERIF_TMP"] = tmpdir()
    try:
        p = subprocess.run([binp, "run", gen, tier, str(seed), str(shard), str(nshards)], stdout=subprocess.PIPE,
                           stderr=subprocess.PIPE, text=True, env=env, timeout=timeout)
    except subprocess.TimeoutExpired as e:
        # keep what the shard printed before it hung: the answers it gave up to that point are still compared
        STOP["hang"] = True
        part = e.stdout or ""
        if isinstance(part, bytes):
            part = part.decode("utf-8", "replace")
        part = part[:part.rfind("\n") + 1]
        transcript = header(profile) + part
        rc, out = run_driver(transcript) if part else (0, "")
        return dict(profile=profile, gen=gen, shard=shard, crashed="timeout after %ds" % timeout, transcript=transcript,
                    out=out, rc=0)
    transcript = header(profile) + p.stdout
    crashed = None
    if p.returncode != 0:
        crashed = "harness exit %d: %s" % (p.returncode, p.stderr.strip()[-300:])
    rc, out = run_driver(transcript)
    return dict(profile=profile, gen=gen, shard=shard, crashed=crashed, transcript=transcript, out=out, rc=rc)


def parse_driver(out):
    nes, stats, regimes, faults = [], {}, {}, {}
    for line in out.splitlines():
        if line.startswith("NE "):
            parts = line.split(" | ")
            head = parts[0].split()
            ne = dict(line=int(head[1]), kind=head[2], recipe=parts[1] if len(parts) > 1 else "", raw=line)
            for part in parts[2:]:
                k, _, v = part.partition("=")
                ne[k] = v
            nes.append(ne)
        elif line.startswith("#stats"):
            for kv in line.split()[1:]:
                k, v = kv.split("=")
                stats[k] = stats.get(k, 0) + int(v)
        elif line.startswith("#regime"):
            _, k, v = line.split()
            regimes[k] = regimes.get(k, 0) + int(v)
        elif line.startswith("#fault"):
            _, k, v = line.split()
            faults[k] = faults.get(k, 0) + int(v)
    return nes, stats, regimes, faults


def group_of(transcript, lineno):
    """lines of the @reset group containing 1-based line `lineno`, up to and including that line"""
    lines = transcript.splitlines()
    head = [l for l in lines[:3] if l.startswith("@") and not l.startswith("@reset")]
    i = lineno - 1
    start = i
    while start > 0 and lines[start] != "@reset":
        start -= 1
    body = lines[start + 1:i + 1] if lines[start] == "@reset" else lines[start:i + 1]
    return head, body


def still_fails(binp, head, body, kind):
    """re-run a candidate replay; true iff its last line still yields a disagreement of the same kind"""
    text = "\n".join(head + ["@reset"] + [b.split(" => ")[0] for b in body]) + "\n"
    env = dict(os.environ)
    env["VERIF_TMP"] = tmpdir()
    p = subprocess.run([binp, "exec"], input=text, stdout=subprocess.PIPE, stderr=subprocess.PIPE, text=True, env=env)
    if p.returncode != 0:
        return kind == "CRASH", p.stdout
    rc, out = run_driver(p.stdout)
    nes, _, _, _ = parse_driver(out)
    last = len(p.stdout.splitlines())
    return any(n["line"] == last and n["kind"] == kind for n in nes), p.stdout


def minimise(binp, head, body, kind, budget=80):
    """delta debugging on recipe lines (the failing line stays last): try it alone, then drop chunks of
    decreasing size while the same verdict is reproduced"""
    if len(body) <= 1:
        return body
    ok, _ = still_fails(binp, head, body[-1:], kind)
    if ok:
        return body[-1:]
    keep = list(body)
    tries = 1
    chunk = max(1, (len(keep) - 1) // 2)
    while chunk >= 1 and tries < budget:
        i = 0
        while i < len(keep) - 1 and tries < budget:
            cand = keep[:i] + keep[min(i + chunk, len(keep) - 1):]
            tries += 1
            ok, _ = still_fails(binp, head, cand, kind)
            if ok:
                keep = cand
            else:
                i += chunk
        chunk //= 2
    return keep


# ------------------------------------------------------------------------------------------------
# known findings

def load_known():
    path = os.path.join(ROOT, "known_findings.json")
    if not os.path.exists(path):
        return []
    return json.load(open(path))["findings"]


def match_known(prop, ne, known):
    for k in known:
        if k.get("status") != "known" or prop not in k.get("properties", [k.get("property")]):
            continue
        if re.search(k["match"], ne["recipe"]) and (not k.get("profile") or re.search(k["profile"], ne.get("profile", ""))):
            return k
    return None


# ------------------------------------------------------------------------------------------------

def write_replay(prop, name, lines):
    d = os.path.join(ROOT, "replays")
    os.makedirs(d, exist_ok=True)
    path = os.path.join(d, "%s_%s.replay" % (prop, name))
    with open(path, "w") as f:
        f.write("\n".join(lines) + "\n")
    return path


def check(prop, tier, seed):
    t0 = time.time()
    cfg = PROPS[prop]
    thorough = tier == "thorough"
    violations = []      # (replay path, text, no_input)
    known_hits = []
    notes = []

    ok_tr, tr_msg = translate()
    broken = []
    if not ok_tr:
        broken.append("translator: " + tr_msg)
    untranslatable = [l.split("UNTRANSLATABLE", 1)[1].strip() for l in tr_msg.splitlines() if "UNTRANSLATABLE" in l]
    pr = prove(prop, thorough)
    if pr["failed"] and untranslatable:
        # a function left the translated subset: its definition is missing from Generated/, so the equations that mention
        # it — and this property's theorems, if they depend on them — no longer check
        pr["failed"] = [f + "  [source no longer translatable: " + "; ".join(untranslatable)[:600] + "]" for f in pr["failed"]]
    for u in untranslatable:
        notes.append("not translatable on this run (obligations depending on it fail closed): " + u[:300])
    broken += pr["failed"]

    profiles = cfg["profiles"][tier]
    bins = {}
    for pf in profiles:
        okb, binp, out = build_harness(pf)
        if not okb:
            broken.append("harness build (%s): %s" % (pf, first_error(out)))
        else:
            bins[pf] = binp

    # correspondence
    all_nes, stats, regimes, faults, samples = [], {}, {}, {}, []
    crashed = []
    distinct = set()
    if pr["driver_ok"]:
        jobs = []
        nshards = cfg.get("shards", {}).get(tier, NCPU)
        changed = changed_sources()
        if changed:
            notes.append("library sources differ from the fingerprinted text (%s): search intensified" % ", ".join(changed))
        # a broken obligation, or a source file that changed since the model was validated, intensifies the search
        scale = "thorough" if (thorough or broken or changed) else "quick"
        seeds = [seed, seed + 1] if (changed and not thorough) else [seed]
        with ThreadPoolExecutor(max_workers=NCPU) as ex:
            for pf, binp in bins.items():
                for gen in cfg["gens"]:
                    for sd in seeds:
                        for sh_i in range(nshards):
                            jobs.append(ex.submit(correspond_shard, binp, pf, gen, scale, sd, sh_i, nshards,
                                                  cfg.get("timeout", 1500 if thorough else 300), not thorough))
            results = [j.result() for j in jobs]
        # corpus of minimised past failures: always run, in every profile
        cdir = os.path.join(ROOT, "corpus", prop)
        if os.path.isdir(cdir):
            text = ""
            for fn in sorted(os.listdir(cdir)):
                text += "@reset\n" + "".join(l for l in open(os.path.join(cdir, fn)) if not l.startswith("@") or l.startswith("@reset"))
            for pf, binp in bins.items():
                env = dict(os.environ); env["VERIF_TMP"] = tmpdir()
                p = subprocess.run([binp, "exec"], input=text, stdout=subprocess.PIPE, stderr=subprocess.PIPE, text=True, env=env)
                transcript = header(pf) + p.stdout
                rc, out = run_driver(transcript)
                results.append(dict(profile=pf, gen="corpus", shard=0, crashed=None if p.returncode == 0 else "harness exit %d" % p.returncode,
                                    transcript=transcript, out=out, rc=rc))
        nskipped = sum(1 for r in results if r.get("skipped"))
        if nskipped:
            notes.append("%d shard(s) not started after another shard hung (quick tier)" % nskipped)
        for r in results:
            nes, s, rg, fl = parse_driver(r["out"])
            for k, v in s.items():
                stats[k] = stats.get(k, 0) + v
            for k, v in rg.items():
                regimes[r["profile"].split("-")[0] + ":" + k] = regimes.get(r["profile"].split("-")[0] + ":" + k, 0) + v
            for k, v in fl.items():
                faults[k] = faults.get(k, 0) + v
            for ne in nes:
                ne["profile"] = r["profile"]
                ne["_r"] = r
            all_nes += nes
            if r["crashed"]:
                crashed.append(r)
            # distinct-recipe statistics and samples are taken from a bounded prefix of each shard's transcript: hashing
            # tens of millions of lines in Python dominated the run time of an intensified check on a changed tree
            head = r["transcript"][:4_000_000]
            lines = [l for l in head.splitlines()[:-1] if l and l[0] not in "@#"]
            for l in lines[:40000]:
                distinct.add(hashlib.blake2b(l.split(" => ")[0].encode(), digest_size=8).digest())
            if lines and len(samples) < 6:
                samples.append(lines[len(lines) // 2][:300])
            if r["rc"] != 0:
                broken.append("driver exit %d on %s/%s shard %d" % (r["rc"], r["profile"], r["gen"], r["shard"]))
    else:
        notes.append("driver did not build; correspondence skipped")

    known = load_known()
    # a harness crash (abort / signal) is an implementation failure in its own right
    for r in crashed:
        lines = r["transcript"].splitlines()
        path = write_replay(prop, "crash_%s_%d" % (r["profile"], r["shard"]),
                            ["# harness died: %s" % r["crashed"], "# last lines executed:"] + lines[:3] + lines[-40:])
        violations.append((path, "harness process died (%s) in profile %s" % (r["crashed"], r["profile"]), False))

    # property-specific forbidden outcomes on the implementation side (e.g. C08: any out-of-bounds access caught by the hooks)
    forbid = cfg.get("forbid", [])
    if forbid:
        nforb = 0
        have = set((id(x["_r"]), x["line"]) for x in all_nes)
        pat = re.compile(r"^.* => (?:.* )?(?:%s)(?: .*)?$" % "|".join(re.escape(t) for t in forbid), re.M)
        for r in results:
            text = r["transcript"]
            if not any(t in text for t in forbid):
                continue                                    # the common case: nothing forbidden anywhere in this shard
            for mm in pat.finditer(text):
                l = mm.group(0)
                out = l.split(" => ", 1)[1].split()
                if not any(t in out for t in forbid):
                    continue
                nforb += 1
                if nforb > 200:
                    continue                                # counted, but only the first 200 become reportable lines
                lineno = text.count("\n", 0, mm.start()) + 1
                if (id(r), lineno) in have:
                    continue
                have.add((id(r), lineno))
                all_nes.append(dict(line=lineno, kind="IMPL_NE_SPEC", recipe=l.split(" => ")[0], impl=l.split(" => ", 1)[1],
                                    spec="(no %s)" % "/".join(forbid), profile=r["profile"], _r=r))
        stats["forbidden_outcomes"] = nforb

    # three-way verdicts
    seen_sig = set()
    tie_breaks = []
    for ne in all_nes:
        if ne["kind"] == "IMPL_NE_SPEC":
            k = match_known(prop, ne, known)
            if k:
                known_hits.append((k, ne))
                continue
            sig = (ne["recipe"].split()[0:2].__str__(), ne["profile"])
            if (sig in seen_sig and len(violations) >= 3) or len(violations) >= 8:
                suppressed = stats.get("violations_not_listed", 0) + 1
                stats["violations_not_listed"] = suppressed
                continue
            seen_sig.add(sig)
            head, body = group_of(ne["_r"]["transcript"], ne["line"])
            if len(violations) < 5:
                body = minimise(bins[ne["profile"]], head, body, "IMPL_NE_SPEC")
            path = write_replay(prop, "v%d" % len(violations),
                                ["# property %s fails on the real code (impl != spec), profile %s" % (prop, ne["profile"]),
                                 "# impl=%s" % ne.get("impl"), "# spec=%s" % ne.get("spec")] + head + ["@reset"] + body)
            violations.append((path, "impl != spec: %s" % ne["recipe"][:200], False))
        else:
            tie_breaks.append(ne)
    if tie_breaks:
        ne = tie_breaks[0]
        broken.append("correspondence %s (%d lines), first: %s | impl=%s | model=%s" % (
            ne["kind"], len(tie_breaks), ne["recipe"][:160], str(ne.get("impl"))[:120], str(ne.get("model"))[:120]))

    # broken obligation / tie with no failing input in hand
    real = [v for v in violations]
    if broken and not real:
        path = write_replay(prop, "broken",
                            ["# no failing input found; the following proof obligations / correspondences no longer check:"] +
                            ["# " + b for b in broken] +
                            (["# first disagreeing line:"] + group_of(tie_breaks[0]["_r"]["transcript"], tie_breaks[0]["line"])[0] +
                             ["@reset"] + group_of(tie_breaks[0]["_r"]["transcript"], tie_breaks[0]["line"])[1] if tie_breaks else []))
        violations.append((path, "; ".join(broken)[:300], True))
    elif broken:
        notes += broken

    # evidence
    wall = time.time() - t0
    printed = set()
    for k, ne in known_hits:
        if k["id"] not in printed:
            printed.add(k["id"])
            print("KNOWN-FINDING: property=%s %s" % (prop, k["what"]))
    ev = dict(
        property_id=prop, tier=tier, seed=seed, level="proof",
        coverage=dict(
            obligations=max(pr["obligations"], 1) if pr["obligations"] else 0,
            discharged=pr["discharged"],
            checker_cmd="cd /verif/lean && lake build %s && lake env lean %s%s" % (
                " ".join(cfg["lean"]), cfg["audit"], (" && lake env leanchecker " + " ".join(cfg["lean"])) if thorough else ""),
            trusted_base=["Lean 4.33 kernel", "axioms: propext, Classical.choice, Quot.sound (no others; audited with #print axioms)",
                          "tools/gen_lean.py (translator for tables/constants/atomic op shape)",
                          "harness + Lean driver + tools/check.py (correspondence)", "rustc/LLVM, std, libc, Linux"] + cfg.get("trusted", []),
            theorems=pr.get("theorems", []),
            axioms_seen=sorted({a for v in pr["axioms"].values() for a in v}),
            proof_failures=pr["failed"],
            evaluations=stats.get("lines", 0),
            distinct_nontrivial=len(distinct),
            rule=cfg.get("rule", "distinct = distinct recipe lines (operation + arguments + structure) executed on the real code and "
                                 "replayed on model and spec; all are non-trivial in the sense that each executes library code"),
            samples=samples or ["(no correspondence lines)"],
            spec_checked=stats.get("spec_checked", 0),
            impl_ne_spec=stats.get("impl_ne_spec", 0), impl_ne_model=stats.get("impl_ne_model", 0),
            model_ne_spec=stats.get("model_ne_spec", 0),
            regimes=regimes, regime_gaps=[r for r in cfg.get("regimes", []) if not any(k.endswith(":" + r) for k in regimes)],
            fault_kinds=faults, profiles=profiles, known_findings_hit=sorted(printed), notes=notes,
            explanation=cfg.get("explanation", ""),
        ),
        assumptions=cfg.get("assumptions", []) + ["the hand-written Lean model corresponds to the code on all inputs, not only the ones run"],
        wall_s=round(wall, 2), violations=len(violations))
    os.makedirs(os.path.join(ROOT, "evidence"), exist_ok=True)
    with open(os.path.join(ROOT, "evidence", prop + ".json"), "w") as f:
        json.dump(ev, f, indent=1, sort_keys=True)
    for path, text, noinput in violations:
        print("# %s" % text)
        print("VIOLATION property=%s replay=%s%s" % (prop, path, " no-failing-input-found" if noinput else ""))
    print("%s %s: obligations %d/%d, %d lines (%d spec-checked), %d violations, %d known findings, %.1fs" % (
        prop, tier, pr["discharged"], pr["obligations"], stats.get("lines", 0), stats.get("spec_checked", 0),
        len(violations), len(printed), wall))
    return 1 if violations else 0


def replay(path):
    lines = open(path).read().splitlines()
    profile = "chk-native"
    for l in lines:
        if l.startswith("@profile"):
            profile = l.split()[1]
    okb, binp, out = build_harness(profile)
    if not okb:
        print(out)
        return 2
    with Lock("lake"):
        sh(["lake", "build", "sdsdriver"], cwd=LEAN)
    env = dict(os.environ)
    env["VERIF_TMP"] = tmpdir()
    p = subprocess.run([binp, "replay", path], stdout=subprocess.PIPE, stderr=subprocess.PIPE, text=True, env=env)
    print(p.stdout[-3000:])
    if p.returncode != 0:
        print("harness exit", p.returncode, p.stderr[-500:])
        return 1
    rc, out = run_driver(p.stdout)
    print(out)
    nes, _, _, _ = parse_driver(out)
    return 1 if nes else 0


def main():
    if len(sys.argv) >= 2 and sys.argv[1] == "--fingerprint":
        with open(os.path.join(ROOT, "tools", "source_fingerprints.json"), "w") as f:
            json.dump(source_fingerprints(), f, indent=1, sort_keys=True)
        print("fingerprints written")
        sys.exit(0)
    if len(sys.argv) >= 3 and sys.argv[1] == "--replay":
        sys.exit(replay(sys.argv[2]))
    prop = sys.argv[1]
    tier = sys.argv[2] if len(sys.argv) > 2 else os.environ.get("VERIF_TIER", "quick")
    seed = int(os.environ.get("VERIF_SEED", "1"))
    sys.exit(check(prop, tier, seed))


if __name__ == "__main__":
    main()
