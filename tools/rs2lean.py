#!/usr/bin/env python3
"""rs2lean: a translator for a small, explicitly delimited subset of Rust function bodies into Lean 4 definitions in
the model's vocabulary (`Outcome` monad, `Mode`-indexed arithmetic, `Word = BitVec 64`).

It is used by tools/gen_lean.py to regenerate `lean/Sds/Generated/Fns*.lean` from /repo/src on every run.  The Lean
proofs in `Proofs/GenEq*.lean` then state `gen_f = model_f` (the hand-written model function all other theorems are
about), so a changed function body changes the generated definition and the equation either still holds or stops
checking — a *named* broken obligation.

Fail-closed: any construct outside the subset raises Unsupported, which gen_lean.py reports as a broken tie.

Subset: `let [mut] pat [: ty] = e;`, assignments and compound assignments to locals, `self.field` and `a[i]`,
`if / else` (statement and expression), early `return`, `unsafe { }` (transparent), `assert!`, struct literals of
configured structs, tuples, ranges `a..b`, casts between usize / u64 / u32 / bool, integer and bit operators,
`?` on Option, `Some / None`, method and function calls listed in a call table.  No loops, closures, generics,
references to anything but whole arrays / self.

Semantics emitted (module Sds.Model.GenSupport):
  usize  + - *      -> addM / subM / mulM m        (panic on overflow in `checked`, wrap in `wrapping`)
  usize  / %        -> gDiv / gMod                 (panic on zero)
  usize  << >>      -> shlU / shrU m               (amount >= 64: panic in `checked`, amount mod 64 in `wrapping`)
  u64    + - *      -> addW / subW / mulW m
  u64    << >>      -> shlW / shrW m
  & | ^ !           -> bit operations (pure)
  a[i]              -> getC (index panic);   *a.get_unchecked(i) -> getW (oob)
  statements guarded by #[cfg(feature = "verif_hooks")] are dropped (the hooks are off in the shipped library)
"""
import re

U, W, B, U32, A, UNIT = "U", "W", "B", "U32", "A", "unit"


class Unsupported(Exception):
    pass


# ---------------------------------------------------------------------------------------------------------------- lexer
TOK = re.compile(r"""
 (?P<ws>\s+)
|(?P<attr>\#\[[^\]]*\])
|(?P<life>'[a-z_]\w*(?!'))
|(?P<int>0x[0-9A-Fa-f_]+(?:u8|u16|u32|u64|usize)?|0b[01_]+(?:u8|u16|u32|u64|usize)?|[0-9][0-9_]*(?:u8|u16|u32|u64|usize)?)
|(?P<id>[A-Za-z_]\w*)
|(?P<str>"(?:[^"\\]|\\.)*")
|(?P<op><<=|>>=|\.\.=|\.\.|::|->|=>|==|!=|<=|>=|&&|\|\||<<|>>|\+=|-=|\*=|/=|%=|&=|\|=|\^=|[-+*/%&|^!<>=.,;:(){}\[\]?])
""", re.X)


def strip_comments(src):
    src = re.sub(r"/\*.*?\*/", " ", src, flags=re.S)
    return re.sub(r"//[^\n]*", "", src)


def lex(src):
    out, i = [], 0
    while i < len(src):
        m = TOK.match(src, i)
        if not m:
            raise Unsupported("cannot tokenise at %r" % src[i:i + 20])
        i = m.end()
        k = m.lastgroup
        if k == "ws":
            continue
        out.append((k, m.group(0)))
    return out


# --------------------------------------------------------------------------------------------------------------- parser
class Parser:
    def __init__(self, toks):
        self.t, self.i = toks, 0

    def peek(self, k=0):
        return self.t[self.i + k] if self.i + k < len(self.t) else ("eof", "")

    def at(self, *vals):
        return self.peek()[1] in vals and self.peek()[0] in ("op", "id")

    def eat(self, val=None):
        tok = self.peek()
        if val is not None and tok[1] != val:
            raise Unsupported("expected %r, found %r" % (val, tok[1]))
        self.i += 1
        return tok

    def split_angle(self):
        """inside a type, `<<` and `>>` are two angle brackets, not shifts"""
        k, v = self.peek()
        if k == "op" and v in ("<<", ">>"):
            self.t[self.i:self.i + 1] = [("op", v[0]), ("op", v[0])]

    # ---- types (only what signatures and casts need)
    def ty(self):
        self.split_angle()
        if self.at("&"):
            self.eat()
            if self.peek()[0] == "life":
                self.eat()
            if self.at("mut"):
                self.eat()
            return self.ty()
        if self.at("["):
            self.eat()                                                   # a slice type `[T]`
            inner = self.ty()
            self.eat("]")
            return A if inner == W else ("N", "Slice")
        if self.at("("):
            self.eat()
            parts = []
            while not self.at(")"):
                parts.append(self.ty())
                if self.at(","):
                    self.eat()
            self.eat(")")
            return ("T", parts) if parts else UNIT
        if self.at("<"):                       # <Self as Vector>::Item
            depth = 0
            txt = ""
            while True:
                self.split_angle()
                k, v = self.eat()
                txt += v
                if v == "<": depth += 1
                if v == ">":
                    depth -= 1
                    if depth == 0: break
            while self.at("::"):
                self.eat(); txt += "::" + self.eat()[1]
            return ("N", txt)
        name = self.eat()[1]
        while self.at("::"):
            self.eat(); name += "::" + self.eat()[1]
        args = []
        self.split_angle()
        if self.at("<"):
            self.eat()
            self.split_angle()
            while not self.at(">"):
                if self.peek()[0] == "life":
                    self.eat()
                else:
                    args.append(self.ty())
                if self.at(","):
                    self.eat()
                self.split_angle()
            self.eat(">")
        prim = {"usize": U, "u64": W, "bool": B, "u32": U32}
        if name in prim:
            return prim[name]
        name = name.split("::")[-1] if name.split("::")[-1] in ("Option", "Result", "Vec", "Range") else name
        if name == "Option":
            return ("O", args[0])
        if name == "Result":
            return args[0]                                 # errors are outcomes (`err other`), not values
        if name == "Range":
            return ("T", [args[0], args[0]])
        if name == "Vec" and args == [W]:
            return A
        if name == "Vec" and args == [("N", "BitVector")]:
            return ("N", "BvArray")
        if name == "Vec" and args == [("T", [W, U])]:
            return ("N", "WUPairs")
        return ("N", name)

    # ---- patterns
    def pat(self):
        if self.at("("):
            self.eat()
            ps = []
            while not self.at(")"):
                ps.append(self.pat())
                if self.at(","):
                    self.eat()
            self.eat(")")
            return ("ptuple", ps)
        if self.at("mut"):
            self.eat()
        k, v = self.eat()
        if k != "id":
            raise Unsupported("pattern %r" % v)
        return ("pvar", v)

    # ---- statements / blocks
    def block(self):
        self.eat("{")
        stmts, tail = [], None
        while not self.at("}"):
            if self.peek()[0] == "attr":
                a = self.eat()[1]
                if "verif_hooks" in a:
                    self.stmt_or_tail()                       # parsed and dropped
                    continue
                if a.startswith("#[inline") or a.startswith("#[allow"):
                    continue
                raise Unsupported("attribute %s" % a)
            s, is_tail = self.stmt_or_tail()
            if is_tail:
                tail = s
                if not self.at("}"):
                    raise Unsupported("expression without `;` in the middle of a block")
            else:
                stmts.append(s)
        self.eat("}")
        return ("block", stmts, tail)

    def stmt_or_tail(self):
        if self.at("let"):
            self.eat()
            p = self.pat()
            t = None
            if self.at(":"):
                self.eat(); t = self.ty()
            if self.at(";") and p[0] == "pvar":
                # `let x;` — declared now, definitely assigned before use (rustc checks that): a placeholder value of the
                # declared / configured type keeps the variable in scope for the state of the loops that assign it
                self.eat()
                return ("let", p, t, ("int", 0, None)), False
            self.eat("=")
            e = self.expr()
            self.eat(";")
            return ("let", p, t, e), False
        if self.at("return"):
            self.eat()
            e = None if self.at(";") else self.expr()
            if not self.at("}"):                          # `return x` may end a block without `;`
                self.eat(";")
            return ("return", e), False
        if self.at("while") and self.peek(1)[1] != "let":
            self.eat()
            c = self.expr(nostruct=True)
            b = self.block()
            return ("while", c, b), False
        if self.at("loop"):
            self.eat()
            b = self.block()
            return ("while", ("bool", True), b), False
        if self.at("break"):
            self.eat()
            if not self.at("}"):
                self.eat(";")
            return ("break",), False
        if self.at("for"):
            self.eat()
            var_pat = self.pat()
            var = var_pat[1] if var_pat[0] == "pvar" else None
            self.eat("in")
            it = self.expr(nostruct=True)
            rev = False
            if it[0] == "mcall" and it[2] == "rev" and not it[3]:
                rev, it = True, it[1]
            while it[0] == "paren":
                it = it[1]
            if it[0] == "mcall" and it[2] == "by_ref" and not it[3] and not rev:
                b = self.block()
                return ("whilelet", var_pat, ("mcall", it[1], "next", []), b), False
            if it[0] == "mcall" and it[2] == "iter" and not it[3] and not rev:
                b = self.block()
                return ("for", var if var is not None else var_pat, ("int", 0, None), ("arrlen", it[1]), False, b, it[1]), False
            if it[0] == "mcall" and it[2] == "iter_mut" and not it[3] and not rev:
                # `for x in arr.iter_mut() { … *x = e … }`: the loop over the indices; `*x = e` writes element `i`
                b = self.block()
                return ("for", var if var is not None else var_pat, ("int", 0, None), ("arrlen", it[1]), False, b, ("itermut", it[1])), False
            if it[0] != "range" and not rev and it[0] in ("mcall", "call", "path"):
                # `for pat in <iterator expression>`: allowed when the expression is a list-modelled iterator (checked at emission)
                b = self.block()
                return ("for", var if var is not None else var_pat, ("int", 0, None), ("arrlen", it), False, b, ("listiter", it)), False
            if it[0] != "range":
                raise Unsupported("`for` over anything but a range `a..b`, `(a..b).rev()`, `array.iter()` or `x.by_ref()`")
            if var is None:
                raise Unsupported("`for` over a range with a tuple pattern")
            b = self.block()
            return ("for", var, it[1], it[2], rev, b, None), False
        if self.at("while") and self.peek(1)[1] == "let":
            self.eat(); self.eat()
            if self.eat()[1] != "Some":
                raise Unsupported("`while let` with a pattern other than Some(..)")
            self.eat("(")
            pt = self.pat()
            self.eat(")")
            self.eat("=")
            scrut = self.expr(nostruct=True)
            b = self.block()
            return ("whilelet", pt, scrut, b), False
        e = self.expr()
        if self.at("=", "+=", "-=", "*=", "/=", "%=", "&=", "|=", "^=", "<<=", ">>=") and self.peek()[0] == "op":
            op = self.eat()[1]
            r = self.expr()
            if not self.at("}"):
                self.eat(";")
            return ("assign", e, op, r), False
        if self.at(";"):
            self.eat()
            return ("expr", e), False
        if e[0] in ("if", "blockexpr", "match", "iflet") and not self.at("}"):
            return ("expr", e), False                          # block-like expression used as a statement
        return e, True

    # ---- expressions (precedence climbing)
    PREC = [("||",), ("&&",), ("==", "!=", "<", ">", "<=", ">="), ("|",), ("^",), ("&",), ("<<", ">>"), ("+", "-"),
            ("*", "/", "%")]

    def expr(self, lvl=0, nostruct=False):
        if lvl == 0:
            e = self.expr(1, nostruct)
            if (self.at("..") or self.at("..=")) and self.peek()[0] == "op":
                incl = self.at("..=")
                self.eat()
                r = self.expr(1, nostruct)
                return ("range", e, ("incl", r) if incl else r)
            return e
        if lvl - 1 >= len(self.PREC):
            return self.cast(nostruct)
        ops = self.PREC[lvl - 1]
        e = self.expr(lvl + 1, nostruct)
        while self.peek()[0] == "op" and self.peek()[1] in ops:
            op = self.eat()[1]
            r = self.expr(lvl + 1, nostruct)
            e = ("bin", op, e, r)
        return e

    def cast(self, nostruct):
        e = self.unary(nostruct)
        while self.at("as"):
            self.eat()
            e = ("cast", e, self.ty())
        return e

    def unary(self, nostruct):
        if self.peek()[0] == "op" and self.peek()[1] in ("!", "-", "*", "&"):
            op = self.eat()[1]
            if op == "&":
                if self.at("mut"):
                    self.eat()
                return ("ref", self.unary(nostruct))
            if op == "*":
                return ("deref", self.unary(nostruct))
            return ("un", op, self.unary(nostruct))
        return self.postfix(nostruct)

    def args(self):
        self.eat("(")
        a = []
        while not self.at(")"):
            a.append(self.expr())
            if self.at(","):
                self.eat()
        self.eat(")")
        return a

    def postfix(self, nostruct):
        e = self.primary(nostruct)
        while True:
            if self.at("."):
                self.eat()
                k, v = self.eat()
                if k == "int":
                    e = ("field", e, v)
                elif self.at("("):
                    e = ("mcall", e, v, self.args())
                elif self.at("::"):
                    raise Unsupported("turbofish")
                else:
                    e = ("field", e, v)
            elif self.at("["):
                self.eat()
                i = self.expr()
                self.eat("]")
                e = ("index", e, i)
            elif self.at("?"):
                self.eat()
                e = ("try", e)
            elif self.at("("):
                e = ("call", e, self.args())
            else:
                return e

    def primary(self, nostruct):
        k, v = self.peek()
        if k == "int":
            self.eat()
            m = re.fullmatch(r"(0x[0-9A-Fa-f_]+|0b[01_]+|[0-9][0-9_]*)(u8|u16|u32|u64|usize)?", v)
            return ("int", int(m.group(1).replace("_", ""), 0), m.group(2))
        if v == "(":
            self.eat()
            if self.at(")"):
                self.eat()
                return ("tuple", [])
            first = self.expr()
            if self.at(","):
                parts = [first]
                while self.at(","):
                    self.eat()
                    if self.at(")"):
                        break
                    parts.append(self.expr())
                self.eat(")")
                return ("tuple", parts)
            self.eat(")")
            return ("paren", first)
        if v == "unsafe":
            self.eat()
            b = self.block()
            return ("blockexpr", b)
        if v == "{":
            return ("blockexpr", self.block())
        if v == "if" and self.peek(1)[1] == "let":
            self.eat(); self.eat()
            ctor = self.eat()[1]
            if ctor != "Some":
                raise Unsupported("`if let` with a pattern other than Some(x)")
            self.eat("(")
            var = self.pat()
            if var[0] == "pvar":
                var = var[1]
            self.eat(")")
            self.eat("=")
            scrut = self.expr(nostruct=True)
            body = self.block()
            els = None
            if self.at("else"):
                self.eat()
                els = self.block()
            return ("iflet", var, scrut, body, els)
        if v == "if":
            self.eat()
            c = self.expr(nostruct=True)
            th = self.block()
            el = None
            if self.at("else"):
                self.eat()
                el = ("block", [], self.primary(False)) if self.at("if") else self.block()
            return ("if", c, th, el)
        if v == "match":
            self.eat()
            scrut = self.expr(nostruct=True)
            self.eat("{")
            arms = []
            if self.peek()[1] in ("Some", "None"):
                # `match e { Some(p) => a, None => b }` (either order) is `if let Some(p) = e { a } else { b }`
                some_arm = none_arm = pvar = None
                while not self.at("}"):
                    hd = self.eat()[1]
                    if hd == "Some":
                        self.eat("(")
                        pvar = self.pat()
                        if pvar[0] == "pvar":
                            pvar = pvar[1]
                        self.eat(")")
                    elif hd != "None":
                        raise Unsupported("match arm %s" % hd)
                    self.eat("=>")
                    body = self.block() if self.at("{") else ("block", [], self.expr())
                    if hd == "Some":
                        some_arm = body
                    else:
                        none_arm = body
                    if self.at(","):
                        self.eat()
                self.eat("}")
                if some_arm is None or none_arm is None:
                    raise Unsupported("match on an Option without both arms")
                return ("iflet", pvar, scrut, some_arm, none_arm)
            if self.peek()[0] == "id" and self.peek(1)[1] == "if":
                # `match x { x if c1 => a, x if c2 => b, _ => c }` (every binder is the scrutinee's own name): an if / else-if chain
                if not (scrut[0] == "path" and len(scrut[1]) == 1):
                    raise Unsupported("guarded match on a non-variable")
                chain = []
                default = None
                while not self.at("}"):
                    nm = self.eat()[1]
                    if nm == "_":
                        self.eat("=>")
                        default = self.block() if self.at("{") else ("block", [], self.expr())
                    else:
                        if nm != scrut[1][0]:
                            raise Unsupported("guarded match arm binding a new name")
                        self.eat("if")
                        g = self.expr(nostruct=True)
                        self.eat("=>")
                        chain.append((g, self.block() if self.at("{") else ("block", [], self.expr())))
                    if self.at(","):
                        self.eat()
                self.eat("}")
                if default is None:
                    raise Unsupported("guarded match without a `_` arm")
                if default[2] == ("tuple", []):
                    default = ("block", default[1], None)
                res = default
                for g, b in reversed(chain):
                    res = ("block", [], ("if", g, b, res))
                return res[2]
            while not self.at("}"):
                pk, pv = self.eat()
                if pv not in ("true", "false"):
                    raise Unsupported("match on anything but a bool or an Option")
                self.eat("=>")
                arms.append((pv, self.expr()))
                if self.at(","):
                    self.eat()
            self.eat("}")
            return ("match", scrut, arms)
        if k == "str":
            self.eat()
            return ("str", v)
        if v == "|" and k == "op":
            self.eat()
            pats = []
            while not self.at("|"):
                pats.append(self.pat())
                if self.at(","):
                    self.eat()
            self.eat("|")
            return ("closure", pats, self.expr())
        if v == "<":
            depth, txt = 0, ""
            while True:
                kk, vv = self.eat()
                depth += {"<": 1, ">": -1, ">>": -2}.get(vv, 0)
                txt += vv
                if depth <= 0:
                    break
            path = [txt]
            while self.at("::"):
                self.eat()
                path.append(self.eat()[1])
            return ("path", path)
        if v in ("true", "false"):
            self.eat()
            return ("bool", v == "true")
        if k == "id":
            self.eat()
            path = [v]
            while self.at("::"):
                self.eat()
                if self.at("<"):                                  # turbofish: kept as text on the previous segment
                    depth, txt = 0, ""
                    while True:
                        kk, vv = self.eat()
                        if vv == "<": depth += 1
                        if vv == ">>": depth -= 2
                        if vv == ">": depth -= 1
                        txt += vv
                        if depth <= 0:
                            break
                    path[-1] += "::" + txt
                    continue
                path.append(self.eat()[1])
            if self.at("!") and self.peek(1)[1] == "[" and path == ["vec"]:
                self.eat(); self.eat("[")
                items = []
                while not self.at("]"):
                    items.append(self.expr())
                    if self.at(";") and len(items) == 1:
                        self.eat()
                        n = self.expr()
                        self.eat("]")
                        return ("vecrep", items[0], n)
                    if self.at(","):
                        self.eat()
                self.eat("]")
                return ("veclit", items)
            if self.at("!") and self.peek(1)[1] == "(":
                self.eat()
                # macro: collect the argument expressions up to the first string literal
                self.eat("(")
                margs, depth = [], 0
                first = self.expr()
                margs.append(first)
                if path[0] == "assert_eq" and self.at(","):          # assert_eq!(a, b, "message", …): the two operands
                    self.eat()
                    margs.append(self.expr())
                while not self.at(")"):
                    self.eat()                                   # message tokens are skipped
                    if self.at("("):
                        d = 0
                        while True:
                            kk, vv = self.eat()
                            if vv == "(": d += 1
                            if vv == ")":
                                d -= 1
                                if d == 0: break
                self.eat(")")
                return ("macro", path[0], margs)
            if self.at("{") and not nostruct and path[-1][0].isupper():
                self.eat()
                fields = []
                while not self.at("}"):
                    fname = self.eat()[1]
                    if self.at(":"):
                        self.eat()
                        fields.append((fname, self.expr()))
                    else:
                        fields.append((fname, ("path", [fname])))
                    if self.at(","):
                        self.eat()
                self.eat("}")
                return ("struct", path[-1], fields)
            return ("path", path)
        raise Unsupported("unexpected token %r" % v)


# ------------------------------------------------------------------------------------------------ function extraction
def find_fn(src, impl_pat, name):
    """returns (params_text, ret_text, body_text) of `fn name` inside the first item matching impl_pat (or at top level
    when impl_pat is None)"""
    src = strip_comments(src)
    scope = src
    if impl_pat:
        m = re.search(impl_pat + r"[^{]*\{", src)
        if not m:
            raise Unsupported("item %r not found" % impl_pat)
        depth, j = 1, m.end()
        while depth and j < len(src):
            depth += {"{": 1, "}": -1}.get(src[j], 0)
            j += 1
        scope = src[m.end():j]
    m = re.search(r"\bfn\s+%s\s*(?=[<(])" % re.escape(name), scope)
    if not m:
        raise Unsupported("fn %s not found in %r" % (name, impl_pat))
    j = m.end()
    if scope[j] == "<":                               # generic parameters: skip the balanced <...>
        depth = 0
        while True:
            if scope[j] == ">" and scope[j - 1] == "-":   # the arrow of `Fn(usize) -> usize`
                j += 1
                continue
            depth += {"<": 1, ">": -1}.get(scope[j], 0)
            j += 1
            if depth == 0:
                break
        while scope[j].isspace():
            j += 1
    if scope[j] != "(":
        raise Unsupported("fn %s: parameter list not found" % name)
    start = j + 1
    depth, j = 1, j + 1
    while depth:
        depth += {"(": 1, ")": -1}.get(scope[j], 0)
        j += 1
    params = scope[start:j - 1]
    k = scope.index("{", j)
    ret = scope[j:k].strip()
    if "where" in ret:
        raise Unsupported("fn %s: where clause" % name)
    depth, e = 1, k + 1
    while depth:
        depth += {"{": 1, "}": -1}.get(scope[e], 0)
        e += 1
    return params, ret, scope[k:e]


# ------------------------------------------------------------------------------------------------------------- emitter
LEAN_KEYWORDS = {"universe", "end", "at", "from", "fun", "have", "show", "by", "do", "then", "open", "instance", "theorem",
                 "def", "variable", "prefix", "section", "namespace", "local", "mutual", "where", "with", "in", "export",
                 "import", "macro", "syntax", "notation", "infix", "class", "structure", "inductive", "example", "axiom",
                 "set_option", "attribute", "deriving", "extends", "private", "protected", "noncomputable", "partial",
                 "unsafe", "if", "else", "match", "let", "return", "for", "unless", "try", "catch", "finally", "calc", "suffices",
                 "this", "Type", "Prop", "Sort", "nomatch", "nofun", "termination_by", "decreasing_by", "abbrev", "opaque",
                 "using", "generalizing", "omit", "include", "universe"}


def lname(n):
    return n + "_" if n in LEAN_KEYWORDS else n


LEAN_TY = {U: "Nat", W: "Word", B: "Bool", U32: "Nat", A: "Array Word", UNIT: "Unit"}


def lean_ty(t, structs):
    if isinstance(t, str) and t in LEAN_TY:
        return LEAN_TY[t]
    if t[0] == "T":
        return "(" + " × ".join(lean_ty(x, structs) for x in t[1]) + ")"
    if t[0] == "O":
        return "(Option " + lean_ty(t[1], structs) + ")"
    if t[0] == "N":
        s = structs.get(t[1])
        if s is None:
            raise Unsupported("type %s has no Lean counterpart configured" % t[1])
        return s["lean"]
    raise Unsupported("type %r" % (t,))


class Emitter:
    """one function.  `cfg` keys: name (lean def name), self (None | dict(lean, var, fields{rust: (lean_field, ty)}, mut)),
    params: {rust_name: (lean_binder_text, ty, lean_expr)} overrides, ret override, calls (dict, merged over the
    global table), consts (name -> int), structs (rust struct -> dict(lean, ctor(fields)->str, fields{name: ty}))."""

    def __init__(self, cfg, calls, consts, structs):
        self.cfg, self.calls, self.consts, self.structs = cfg, calls, consts, structs
        self.n = 0
        self.env = {}            # rust local -> (lean name, type)
        self.selfmut = bool(cfg.get("self") and cfg["self"].get("mut"))
        self.ret = None
        self.loop = None          # inside a loop body: the tuple pattern of the loop state
        self.nloops = 0
        self.nested_opt = 0       # inside a value-producing nested block that contains `?`: the block yields an Option
        self.nmatch = 0

    def fresh(self):
        self.n += 1
        return "t%d" % self.n

    # --- state packaging for &mut self methods
    def self_value(self):
        if self.cfg.get("self_ctor"):
            return self.cfg["self_ctor"]
        s = self.cfg["self"]
        return "(⟨" + ", ".join("self_" + f for f in s["order"]) + "⟩ : %s)" % s["lean"]

    def ret_expr(self, val, ty):
        if self.cfg.get("reader"):
            inner = val if val is not None else "()"
            if self.selfmut:                                          # `&mut self` and a threaded stream / closure state
                inner = self.self_value() if (ty == UNIT or val is None) else "(%s, %s)" % (val, self.self_value())
            return "(%s, %s)" % (inner, self.cfg["reader"])
        if self.selfmut:
            if ty == UNIT or val is None:
                return self.self_value()
            return "(%s, %s)" % (val, self.self_value())
        return val if val is not None else "()"

    def wrap_return(self, val, ty):
        """a `return` statement, or the value at the end of the function body"""
        if self.nested_opt:
            if val != "none":
                raise Unsupported("`return` of a value inside a nested block that also uses `?`")
            return "pure none"
        if self.loop is not None:
            return "pure (Ctl.ret %s)" % self.ret_expr(val, ty)
        return "return %s" % self.ret_expr(val, ty)

    def fallthrough(self):
        """the end of the function body (unit value), or of one iteration of a loop body"""
        if self.loop is not None:
            return "pure (Ctl.next %s)" % self.loop
        return self.wrap_return(None, UNIT)

    # --- expressions: returns (lean_expr, type); monadic parts are bound into `pre`
    def lit(self, v, ty):
        if ty == W:
            return "(%d : Word)" % v
        return str(v)

    def callee_key(self, e):
        """textual key of a call target, receivers included; index receivers are normalised to `[]`"""
        if e[0] == "path":
            return "::".join(e[1]), []
        if e[0] == "field":
            k, extra = self.callee_key(e[1])
            return k + "." + e[2], extra
        if e[0] == "index":
            k, extra = self.callee_key(e[1])
            return k + "[]", extra + [e[2]]
        if e[0] == "paren":
            return self.callee_key(e[1])
        if e[0] == "mcall" and not e[3]:
            k, extra = self.callee_key(e[1])                      # `x.iter().cloned().max()`: `x.iter.cloned.max`
            return k + "." + e[2], extra
        raise Unsupported("call receiver %r" % (e[0],))

    def expr(self, e, pre, want=None):
        k = e[0]
        if k == "paren":
            return self.expr(e[1], pre, want)
        if k == "int":
            ty = {None: want, "u64": W, "usize": U, "u32": U32}.get(e[2], want)
            if ty is None:
                ty = U
            return self.lit(e[1], ty), ty
        if k == "bool":
            return ("true" if e[1] else "false"), B
        if k == "path":
            name = "::".join(e[1])
            if len(e[1]) == 1 and e[1][0] in self.env:
                return self.env[e[1][0]]
            if name == "self" and self.cfg.get("self") and not self.selfmut:
                return self.cfg["self"]["var"], ("N", self.cfg["self"].get("rust", "Self"))
            if name in self.cfg.get("paths", {}):
                return self.cfg["paths"][name]
            if name == "usize::MAX":
                return "(U64 - 1)", U
            if name == "None":
                return "none", ("O", want[1] if want and want[0] == "O" else None)
            qual = "::".join(x.split("::<")[0] for x in e[1])
            if qual in self.consts:
                return str(self.consts[qual]), U
            cname = e[1][-1]
            if cname in self.consts and cname.isupper():
                return str(self.consts[cname]), U
            raise Unsupported("unknown name %s" % name)
        if k == "field":
            if e[1] == ("path", ["self"]):
                s = self.cfg["self"]
                if e[2] not in s["fields"]:
                    raise Unsupported("self.%s not configured" % e[2])
                lf, ty = s["fields"][e[2]]
                return ("self_" + e[2] if self.selfmut else "%s.%s" % (s["var"], lf)), ty
            base, bty = self.expr(e[1], pre)
            if bty and bty[0] == "N":
                st = self.structs.get(bty[1])
                if st and e[2] in st["fields"]:
                    return "%s.%s" % (base, st["fieldmap"].get(e[2], e[2])), st["fields"][e[2]]
            if bty and bty[0] == "T" and e[2].isdigit():
                return "%s.%d" % (base, int(e[2]) + 1), bty[1][int(e[2])]
            if bty and bty[0] == "T" and len(bty[1]) == 2 and e[2] in ("start", "end"):     # a Range<usize>
                return "%s.%d" % (base, 1 if e[2] == "start" else 2), bty[1][0]
            raise Unsupported("field access .%s on %r" % (e[2], bty))
        if k == "closure":
            # a closure literal passed to a function: a Lean lambda, monadic (`FM`) or pure (`FP`) as the callee expects
            saved = dict(self.env)
            names = []
            for q in e[1]:
                if q[0] != "pvar":
                    raise Unsupported("closure with a tuple parameter")
                self.env[q[1]] = (lname(q[1]), U)
                names.append(lname(q[1]))
            p2 = []
            b, tb = self.expr(e[2], p2, None)
            self.env = saved
            if want == "FP":
                if p2:
                    raise Unsupported("effectful body in a closure that must be pure")
                return "(fun %s => %s)" % (" ".join(names), b), "FP"
            lines = []
            self.flush(p2, lines, "")
            body = "; ".join(l.strip() for l in lines if isinstance(l, str))
            if any(not isinstance(l, str) for l in lines):
                raise Unsupported("`?` inside a closure")
            return "(fun %s => do %s%spure %s)" % (" ".join(names), body, "; " if body else "", b), "FM"
        if k == "vecrep":
            x, _ = self.expr(e[1], pre, W)                        # Rust evaluates the element first, then the length
            n, _ = self.expr(e[2], pre, U)
            return "(Array.replicate %s %s)" % (n, x), A
        if k == "veclit":
            vals = [self.expr(x, pre, W)[0] for x in e[1]]
            return "#[" + ", ".join(vals) + "]", A
        if k == "tuple":
            parts = [self.expr(x, pre, (want[1][i] if want and want[0] == "T" else None)) for i, x in enumerate(e[1])]
            return "(" + ", ".join(p[0] for p in parts) + ")", ("T", [p[1] for p in parts])
        if k == "range":
            a, ta = self.expr(e[1], pre)
            b, tb = self.expr(e[2], pre)
            return "(%s, %s)" % (a, b), ("T", [ta, tb])
        if k == "struct":
            st = self.structs.get(e[1])
            if not st:
                raise Unsupported("struct literal %s" % e[1])
            vals = {}
            for f, x in e[2]:
                if f not in st["fields"]:
                    raise Unsupported("struct literal %s: unknown field %s" % (e[1], f))
                if st["fields"][f] == "SKIP":
                    continue
                vals[f] = self.expr(x, pre, st["fields"][f])[0]
            return st["ctor"](vals), ("N", e[1])
        if k == "cast":
            v, ty = self.expr(e[1], pre)
            to = self.alias(e[2]) if getattr(self, "alias", None) else e[2]
            if ty == to:
                return v, to
            if ty == W and to == U:
                return "(%s).toNat" % v, U
            if ty == U and to == W:
                return "(BitVec.ofNat 64 %s)" % v, W
            if ty == U32 and to == U:
                return v, U
            if ty == B and to == W:
                return "(boolW %s)" % v, W
            if ty == B and to == U:
                return "(boolU %s)" % v, U
            raise Unsupported("cast %r as %r" % (ty, to))
        if k == "un":
            v, ty = self.expr(e[2], pre, want)
            if e[1] == "!":
                if ty == B:
                    return "(!%s)" % v, B
                if ty == W:
                    return "(~~~ %s)" % v, W
            raise Unsupported("unary %s on %r" % (e[1], ty))
        if k == "ref":
            return self.expr(e[1], pre, want)
        if k == "deref":
            return self.expr(e[1], pre, want)
        if k == "bin":
            return self.binop(e, pre, want)
        if k == "index":
            try:
                base, bty = self.expr(e[1], [], None)
            except Unsupported:
                base, bty = None, None
            if bty == A:
                i, _ = self.expr(e[2], pre, U)
                t = self.fresh()
                pre.append("let %s ← getC %s %s" % (t, base, i))
                return t, W
            if bty == ("N", "WUPairs"):
                i, _ = self.expr(e[2], pre, U)
                t = self.fresh()
                pre.append("let %s ← getWU %s %s" % (t, base, i))
                return t, ("T", [W, U])
            key, extra = self.callee_key(e)
            return self.call(key, [], pre, want, extra_exprs=extra)
        if k == "mcall":
            return self.mcall(e, pre, want)
        if k == "call":
            key, extra = self.callee_key(e[1])
            if key == "Some":
                v, ty = self.expr(e[2][0], pre, want[1] if want and want[0] == "O" else None)
                return "(some %s)" % v, ("O", ty)
            return self.call(key, e[2], pre, want, extra_exprs=extra)
        if k == "try" and self.peek_ret_R(e[1]):
            v, ty = self.expr(e[1], pre)
            pre.append("gTry %s" % v)                                  # `Err(_)` → return Err: the outcome `err other`
            return "()", UNIT
        if k == "try":
            if e[1][0] == "call":
                try:
                    ck, _ = self.callee_key(e[1][1])
                except Unsupported:
                    ck = None
                cent = self.cfg.get("calls", {}).get(ck) or self.calls.get(ck)
                if cent and cent.get("load"):
                    return self.expr(e[1], pre)                        # `?` on an io::Result: errors are outcomes already
            v, ty = self.expr(e[1], pre)
            if (self.cfg.get("reader") or self.cfg.get("err_as_fault")) and not (ty and ty[0] == "O"):
                return v, ty                                           # `Err(e)?`: the callee's `Err` is the outcome `err` already
            if not (ty and ty[0] == "O"):
                raise Unsupported("`?` on a non-Option")
            t = self.fresh()
            pre.append(("try", t, v, self.wrap_return("none", ("O", None))))
            return t, ty[1]
        if k == "iflet" and e[4] is not None:
            if e[3][1] or e[4][1] or e[3][2] is None or e[4][2] is None:
                raise Unsupported("`if let … else` expression with statements in a branch")
            sv, sty = self.expr(e[2], pre)
            if not (sty and sty[0] == "O"):
                raise Unsupported("`if let Some` on a non-Option")
            saved = dict(self.env)
            arm = []
            nm = self.bind_some(e[1], sty[1], arm, "")
            p1, p2 = [], []
            a, ta = self.expr(e[3][2], p1, want)
            self.env = saved
            b, tb = self.expr(e[4][2], p2, want or ta)
            t = self.fresh()
            pre.append(("optmatch", t, sv, nm, [l.strip() for l in arm], p1, a, p2, b))
            return t, ta or tb
        if k == "if":
            return self.if_expr(e, pre, want)
        if k == "match":
            arms = dict(e[2])
            if set(arms) != {"true", "false"}:
                raise Unsupported("match arms")
            return self.if_expr(("if", e[1], ("block", [], arms["true"]), ("block", [], arms["false"])), pre, want)
        if k == "blockexpr":
            b = e[1]
            if b[1]:
                raise Unsupported("block expression with statements")
            return self.expr(b[2], pre, want)
        raise Unsupported("expression %s" % k)

    def is_load_call(self, e):
        if e[0] != "call":
            return False
        try:
            ck, _ = self.callee_key(e[1])
        except Unsupported:
            return False
        ent = self.cfg.get("calls", {}).get(ck) or self.calls.get(ck)
        return bool(ent and ent.get("load"))

    def peek_ret_R(self, e):
        """is `e` a call whose table entry returns an io::Result<()> success flag?"""
        try:
            if e[0] == "mcall":
                key, _ = self.callee_key(("field", e[1], e[2]))
            elif e[0] == "call":
                key, _ = self.callee_key(e[1])
            else:
                return False
        except Unsupported:
            return False
        ent = self.cfg.get("calls", {}).get(key) or self.calls.get(key)
        return bool(ent and ent.get("ret") == "R")

    def if_expr(self, e, pre, want):
        c, _ = self.expr(e[1], pre, B)
        if e[3] is None:
            raise Unsupported("if-expression without else")
        p1, p2 = [], []
        if e[2][1] or e[3][1]:
            raise Unsupported("if-expression with statements in a branch")
        a, ta = self.expr(e[2][2], p1, want)
        b, tb = self.expr(e[3][2], p2, want or ta)
        ty = ta or tb
        if not p1 and not p2:
            return "(if %s then %s else %s)" % (c, a, b), ty
        t = self.fresh()
        pre.append(("ifm", t, c, p1, a, p2, b))
        return t, ty

    def binop(self, e, pre, want):
        op = e[1]
        if op in ("&&", "||"):
            a, _ = self.expr(e[2], pre, B)
            p2 = []
            b, _ = self.expr(e[3], p2, B)
            if p2:                                                   # the right operand is only evaluated when needed
                t = self.fresh()
                if op == "&&":
                    pre.append(("ifm", t, a, p2, b, [], "false"))
                else:
                    pre.append(("ifm", t, a, [], "true", p2, b))
                return t, B
            return "(%s %s %s)" % (a, op, b), B
        cmp = op in ("==", "!=", "<", ">", "<=", ">=")
        hint = None if cmp else want
        # literal operands take the type of the other side
        if op in ("<<", ">>"):
            a, ta = self.expr(e[2], pre, want)
            b, tb = self.expr(e[3], pre, U)
        elif e[2][0] == "int" and e[2][2] is None and e[3][0] != "int":
            b, tb = self.expr(e[3], pre, hint)
            a, ta = self.expr(e[2], pre, tb)                     # a literal has no effects: order is irrelevant
        else:
            a, ta = self.expr(e[2], pre, hint)
            b, tb = self.expr(e[3], pre, U if op in ("<<", ">>") else ta)
        if ta == W and tb == U and b.isdigit() and op not in ("<<", ">>"):
            b, tb = "(%s : Word)" % b, W                              # an associated constant of type u64
        if tb == W and ta == U and a.isdigit() and op not in ("<<", ">>"):
            a, ta = "(%s : Word)" % a, W
        if cmp and op in ("==", "!=") and (b == "none" or a == "none"):
            o = a if b == "none" else b
            return ("(%s).isSome" % o if op == "!=" else "(%s).isNone" % o), B
        if cmp:
            if ta != tb:
                raise Unsupported("comparison between %r and %r" % (ta, tb))
            lean = {"==": "=", "!=": "≠", "<": "<", ">": ">", "<=": "≤", ">=": "≥"}[op]
            return "(decide (%s %s %s))" % (a, lean, b), B
        if op in ("<<", ">>"):
            if a.isdigit() and b.isdigit() and int(b) < 64:
                return str((int(a) << int(b)) % 2 ** 64 if op == "<<" else int(a) >> int(b)), ta
            if ta == U32 and b.isdigit() and int(b) < 32:
                # a `u32` shifted by a literal below its width: no panic in any build; `<<` drops the bits above bit 31
                return ("((%s <<< %s) %% 4294967296)" % (a, b) if op == "<<" else "(%s >>> %s)" % (a, b)), U32
            fn = {(U, "<<"): "shlU", (U, ">>"): "shrU", (W, "<<"): "shlW", (W, ">>"): "shrW"}.get((ta, op))
            if not fn or tb not in (U, U32):
                raise Unsupported("shift of %r by %r" % (ta, tb))
            t = self.fresh()
            pre.append("let %s ← %s m %s %s" % (t, fn, a, b))
            return t, ta
        if ta != tb:
            raise Unsupported("operator %s between %r and %r" % (op, ta, tb))
        if op in ("&", "|", "^"):
            lean = {"&": "&&&", "|": "|||", "^": "^^^"}[op]
            if ta == B:
                lean = {"&": "&&", "|": "||", "^": "^^"}[op]
            if a.isdigit() and b.isdigit():
                return str({"&": int(a) & int(b), "|": int(a) | int(b), "^": int(a) ^ int(b)}[op]), ta
            return "(%s %s %s)" % (a, lean, b), ta
        if op in ("+", "-", "*", "/", "%"):
            if ta == U and a.isdigit() and b.isdigit():
                x, y = int(a), int(b)
                v = {"+": x + y, "-": x - y, "*": x * y, "/": x // y if y else -1, "%": x % y if y else -1}[op]
                if 0 <= v < 2 ** 64:
                    return str(v), U
            fn = {(U, "+"): "addM m", (U, "-"): "subM m", (U, "*"): "mulM m", (U, "/"): "gDiv", (U, "%"): "gMod",
                  (W, "+"): "addW m", (W, "-"): "subW m", (W, "*"): "mulW m"}.get((ta, op))
            if not fn:
                raise Unsupported("operator %s on %r" % (op, ta))
            t = self.fresh()
            pre.append("let %s ← %s %s %s" % (t, fn, a, b))
            return t, ta
        raise Unsupported("operator %s" % op)

    def mcall(self, e, pre, want):
        recv, name, args = e[1], e[2], e[3]
        if name == "unwrap" and not args and recv[0] in ("call", "mcall"):
            try:
                rk, rextra = self.callee_key(("field", recv[1], recv[2])) if recv[0] == "mcall" else self.callee_key(recv[1])
            except Unsupported:
                rk, rextra = None, []
            rent = (self.cfg.get("calls", {}).get(rk) or self.calls.get(rk)) if rk else None
            if rent and rent.get("result"):
                rargs = recv[3] if recv[0] == "mcall" else recv[2]
                argtys = rent.get("args")
                vals = [self.expr(a, pre, argtys[i] if argtys else None)[0] for i, a in enumerate(rargs)]
                t = self.fresh()
                code = rent["lean"].format(*vals, self=self.self_value() if self.selfmut else (self.cfg["self"]["var"] if self.cfg.get("self") else ""))
                pre.append("let %s ← unwrapRes (%s)" % (t, code))
                if rent.get("mutself"):
                    # `self.f(..).unwrap()` on a `&mut self` method returning `Result<(), _>`: the new state, or the unwrap panic
                    if rent["ret"] != UNIT:
                        raise Unsupported("unwrap of a valued &mut self method")
                    sf = self.cfg["self"]
                    for f in sf["order"]:
                        pre.append("let self_%s := %s.%s" % (f, t, sf["fields"][f][0]))
                    return "()", UNIT
                return t, rent["ret"]
        # methods of primitive values
        try_key = None
        try:
            try_key, extra = self.callee_key(("field", recv, name))
        except Unsupported:
            extra = []
        if try_key and (try_key in self.cfg.get("calls", {}) or try_key in self.calls):
            return self.call(try_key, args, pre, want, extra_exprs=extra)
        rng = recv
        while rng[0] == "paren":
            rng = rng[1]
        if name == "map" and len(args) == 1 and args[0][0] == "closure" and len(args[0][1]) == 1 and rng[0] == "range" \
                and args[0][1][0][0] == "pvar":
            # `(a..b).map(|i| body)`: the mapped items as a list (`mapM` over `a, a+1, …, b-1`: the body may fault)
            a, _ = self.expr(rng[1], pre, U)
            b, _ = self.expr(rng[2], pre, U)
            cl = args[0]
            saved = dict(self.env)
            vn = cl[1][0][1]
            self.env[vn] = (lname(vn), U)
            p2 = []
            body_v, tb = self.expr(cl[2], p2, None)
            self.env = saved
            if tb != U:
                raise Unsupported("`(a..b).map(..)` producing %r" % (tb,))
            lines = []
            self.flush(p2, lines, "")
            if any(not isinstance(l, str) for l in lines):
                raise Unsupported("`?` inside a closure")
            body = "; ".join(l.strip() for l in lines)
            t = self.fresh()
            pre.append("let %s ← (List.range' %s (%s - %s)).mapM (fun %s => do %s%spure %s)" % (t, a, b, a, lname(vn), body, "; " if body else "", body_v))
            return t, ("N", "ListIter")
        if (name == "map" and len(args) == 1 and args[0][0] == "closure" and len(args[0][1]) == 1
                and recv[0] == "mcall" and recv[2] == "iter" and not recv[3]):
            # `pairs.iter().map(|(a, b)| body)`: the mapped items as a list (`mapM`: the body may fault).  The Rust iterator is
            # lazy; the consumer sees the items in the same order, and a faulting body faults the whole.
            arrv, arrt = self.expr(recv[1], pre)
            if arrt == A and args[0][1][0][0] == "pvar":
                # `words.iter().map(|x| pure body)`: the mapped words as a list
                cl = args[0]
                saved = dict(self.env)
                vn = cl[1][0][1]
                self.env[vn] = (lname(vn), W)
                p2 = []
                bv, bt = self.expr(cl[2], p2, None)
                self.env = saved
                if p2 or bt != W:
                    raise Unsupported("`.iter().map(..)` over words with an effectful or non-word body")
                return "(%s.toList.map (fun %s => %s))" % (arrv, lname(vn), bv), ("N", "WordListIter")
            if arrt != ("N", "SamplePairs"):
                raise Unsupported("`.iter().map(..)` over %r" % (arrt,))
            cl = args[0]
            saved = dict(self.env)
            binds = []
            self.bind_pat(cl[1][0], "x_", ("T", [U, U]), binds, "")
            p2 = []
            b, tb = self.expr(cl[2], p2, None)
            self.env = saved
            if tb != U:
                raise Unsupported("`.iter().map(..)` producing %r" % (tb,))
            lines = []
            self.flush(p2, lines, "")
            if any(not isinstance(l, str) for l in lines):
                raise Unsupported("`?` inside a closure")
            body = "; ".join([l.strip() for l in binds] + [l.strip() for l in lines])
            t = self.fresh()
            pre.append("let %s ← (%s).toList.mapM (fun x_ => do %s; pure %s)" % (t, arrv, body, b))
            return t, ("N", "ListIter")
        if name == "sort_unstable_by_key" and len(args) == 1 and args[0][0] == "closure" and len(args[0][1]) == 1:
            arrv, arrt = self.expr(recv, pre)
            if arrt != ("N", "WUPairs"):
                raise Unsupported("sort_unstable_by_key on %r" % (arrt,))
            cl = args[0]
            saved = dict(self.env)
            binds = []
            self.bind_pat(cl[1][0], "x_", ("T", [W, U]), binds, "")
            p2 = []
            kv, kt = self.expr(cl[2], p2, None)
            self.env = saved
            if p2:
                raise Unsupported("effectful sort key")
            key = "(%s).toNat" % kv if kt == W else kv
            self.assign_place(recv, "(sortByKeyWU %s (fun x_ => %s; %s))" % (arrv, "; ".join(l.strip() for l in binds), key), pre)
            return "()", UNIT
        if name == "collect" and not args and recv[0] == "mcall" and recv[2] == "map" and recv[1][0] == "mcall" and recv[1][2] == "into_iter":
            arrv, arrt = self.expr(recv[1][1], pre)
            cl = recv[3][0]
            if arrt != ("N", "WUPairs") or cl[0] != "closure" or want != ("N", "IntVector"):
                raise Unsupported("into_iter().map(..).collect() of %r into %r" % (arrt, want))
            saved = dict(self.env)
            binds = []
            self.bind_pat(cl[1][0], "x_", ("T", [W, U]), binds, "")
            p2 = []
            bv, bt = self.expr(cl[2], p2, None)
            self.env = saved
            if p2 or bt != U:
                raise Unsupported("collect of a non-usize / effectful map")
            t = self.fresh()
            # `FromIterator<usize> for IntVector`: the `usize` instance of the macro is the `u64` instance on the cast items
            pre.append("let %s ← gen_IntVector_from_iter_u64 m cap (%s.toList.map (fun x_ => %s; BitVec.ofNat 64 %s))" % (t, arrv, "; ".join(l.strip() for l in binds), bv))
            return t, ("N", "IntVector")
        v, ty = self.expr(recv, pre)
        if ty and ty[0] == "O" and name == "unwrap_or" and len(args) == 1:
            a, _ = self.expr(args[0], pre, ty[1])
            return "((%s).getD %s)" % (v, a), ty[1]
        if name == "as_ref" and not args and ty and ty[0] == "O":
            return v, ty
        if name == "clone" and not args:
            return v, ty
        if ty and ty[0] == "O" and name in ("is_none", "is_some") and not args:
            return "(%s).%s" % (v, "isNone" if name == "is_none" else "isSome"), B
        if name == "map" and ty and ty[0] == "O" and len(args) == 1 and args[0][0] == "closure" and len(args[0][1]) == 1:
            # `opt.map(|pat| body)`: the body is evaluated only on `Some`
            cl = args[0]
            saved = dict(self.env)
            binds = []
            self.bind_pat(cl[1][0], "x_", ty[1], binds, "")
            p2 = []
            b, tb = self.expr(cl[2], p2, None)
            self.env = saved
            t = self.fresh()
            pre.append(("optmap", t, v, [l.strip() for l in binds], p2, b))
            return t, ("O", tb)
        prim = {("count_ones", W): ("(popcount %s)", U32), ("leading_zeros", W): ("(clz %s)", U32),
                ("trailing_zeros", W): ("(ctz %s)", U32), ("reverse_bits", W): ("(%s).reverse", W)}
        if isinstance(ty, str) and (name, ty) in prim and not args:
            tpl, rty = prim[(name, ty)]
            return tpl % v, rty
        if ty == W and name == "overflowing_mul" and len(args) == 1:
            # `a.overflowing_mul(b)` = (the product modulo 2^64, whether it overflowed), in every build
            a, _ = self.expr(args[0], pre, W)
            return "(%s * %s, decide (%s.toNat * %s.toNat ≥ 2 ^ 64))" % (v, a, v, a), ("T", [W, B])
        if ty == U and name in ("checked_sub", "checked_add", "saturating_add", "saturating_sub"):
            a, _ = self.expr(args[0], pre, U)
            fn = {"checked_sub": ("(checkedSub %s %s)", ("O", U)), "checked_add": ("(checkedAdd %s %s)", ("O", U)),
                  "saturating_add": ("(BitVector.satAdd %s %s)", U), "saturating_sub": ("(%s - %s)", U)}[name]
            return fn[0] % (v, a), fn[1]
        if ty == "R" and name == "unwrap" and not args:
            pre.append("gUnwrap %s" % v)
            return "()", UNIT
        if ty and ty[0] == "O" and name == "unwrap":
            t = self.fresh()
            pre.append("let %s ← unwrapM %s" % (t, v))
            return t, ty[1]
        if ty == A and name == "len":
            return "%s.size" % v, U
        if ty == A and name == "push" and len(args) == 1:
            x, _ = self.expr(args[0], pre, W)
            self.assign_place(recv, "%s.push %s" % (v, x), pre)
            return "()", UNIT
        if ty == A and name == "clear" and not args:
            self.assign_place(recv, "(#[] : Array Word)", pre)
            return "()", UNIT
        if ty == A and name == "extend" and len(args) == 1:
            x, xt = self.expr(args[0], pre, A)
            if xt != A:
                raise Unsupported("Vec::extend with %r" % (xt,))
            self.assign_place(recv, "(%s ++ %s)" % (v, x), pre)
            return "()", UNIT
        # typed receiver: key by type name
        if ty and ty[0] == "N":
            key = "<%s>.%s" % (ty[1], name)
            ent = self.cfg.get("calls", {}).get(key) or self.calls.get(key)
            if ent and ent.get("mutrecv"):
                argtys = ent.get("args")
                vals = [v] + [self.expr(a, pre, argtys[i] if argtys else None)[0] for i, a in enumerate(args)]
                code = ent["lean"].format(*vals)
                if ent.get("monadic"):
                    t = self.fresh()
                    pre.append("let %s ← %s" % (t, code))
                    code = t
                if ent.get("ret") not in (None, UNIT):
                    if not ent.get("monadic"):
                        t = self.fresh()
                        pre.append("let %s := %s" % (t, code))           # evaluated once, on the receiver's OLD value
                        code = t
                    self.assign_place(recv, "%s.2" % code, pre)          # (value, new receiver)
                    return "%s.1" % code, ent["ret"]
                self.assign_place(recv, code, pre)
                return "()", UNIT
            if ent:
                return self.call(key, args, pre, want, recv_val=v)
        raise Unsupported("method .%s on %r (key %s)" % (name, ty, try_key))

    def call(self, key, args, pre, want, extra_exprs=(), recv_val=None):
        ent = self.cfg.get("calls", {}).get(key) or self.calls.get(key)
        if not ent:
            raise Unsupported("call to %s is not in the call table" % key)
        if ent.get("load"):
            # `T::load(reader)?` — the callee returns the value and the rest of the stream
            rd = self.cfg["reader"]
            atys = ent.get("args") or []
            more = [self.expr(a, pre, atys[i + 1] if i + 1 < len(atys) else U)[0] for i, a in enumerate(args[1:])]  # after the reader
            t = self.fresh()
            pre.append("let (%s, %s) ← %s" % (t, rd, ent["lean"].format(rd, *more)))
            return t, ent["ret"]
        vals = []
        if recv_val is not None:
            vals.append(recv_val)
        for x in extra_exprs:
            vals.append(self.expr(x, pre, U)[0])
        argtys = ent.get("args")
        for i, a in enumerate(args):
            if i in ent.get("ignore_args", ()):
                vals.append("_")
                continue
            vals.append(self.expr(a, pre, argtys[i] if argtys else None)[0])
        code = ent["lean"].format(*vals, self=self.self_value() if self.selfmut else (self.cfg["self"]["var"] if self.cfg.get("self") else ""))
        if ent.get("load"):
            # `T::load(reader)?` — the callee returns the value and the rest of the stream
            t = self.fresh()
            rd = self.cfg["reader"]
            pre.append("let (%s, %s) ← %s" % (t, rd, ent["lean"].format(rd)))
            return t, ent["ret"]
        if ent.get("setvar") and ent.get("ret") not in (None, UNIT):
            pass
        if ent.get("setvar") and ent.get("ret") not in (None, UNIT):
            t = self.fresh()
            pre.append("let %s ← %s" % (t, code))
            pre.append("let %s := %s.2" % (ent["setvar"], t))
            return "%s.1" % t, ent["ret"]
        if ent.get("setvar"):
            if ent.get("monadic", True):
                pre.append("let %s ← %s" % (ent["setvar"], code))
            else:
                pre.append("let %s := %s" % (ent["setvar"], code))
            return "()", UNIT
        if ent.get("mutself"):
            t = self.fresh()
            pre.append("let %s ← %s" % (t, code))
            s = self.cfg["self"]
            if ent["ret"] == UNIT:
                for f in s["order"]:
                    pre.append("let self_%s := %s.%s" % (f, t, s["fields"][f][0]))
                return "()", UNIT
            for f in s["order"]:
                pre.append("let self_%s := %s.2.%s" % (f, t, s["fields"][f][0]))
            return "%s.1" % t, ent["ret"]
        if ent.get("mutarg") is not None:
            # a `&mut` array argument: the callee returns the new array, which is rebound to the argument's place
            t = self.fresh()
            pre.append("let %s ← %s" % (t, code))
            self.assign_place(args[ent["mutarg"]], t, pre)
            return "()", UNIT
        rty_ = ent["ret"]
        if rty_ == "HINT":
            # the result type is the one the context asks for (`let v: Vec<u64> = Vec::new()`)
            if want is None:
                raise Unsupported("call to %s needs a type annotation" % key)
            rty_ = want
            code = code.replace("{ty}", lean_ty(want, self.structs))
        if ent.get("monadic", True):
            t = self.fresh()
            pre.append("let %s ← %s" % (t, code))
            return t, rty_
        return "(%s)" % code, rty_

    def assign_place(self, place, val, pre):
        while place[0] in ("ref", "paren"):
            place = place[1]
        if place[0] == "field" and place[1] == ("path", ["self"]) and self.selfmut:
            pre.append("let self_%s := %s" % (place[2], val))
            return
        if place[0] == "path" and len(place[1]) == 1 and place[1][0] in self.env:
            nm, ty = self.env[place[1][0]]
            pre.append("let %s := %s" % (nm, val))
            if place[1][0] in getattr(self, "itermut", {}):
                # the variable is `&mut arr[i]` (or a component of it) of an `iter_mut()` loop: the element changes with it
                info = self.itermut[place[1][0]]
                arrplace, cnt = info[0], info[1]
                arrv, _ = self.expr(arrplace, [], None)
                elem = nm if len(info) == 2 else "(" + ", ".join(info[2]) + ")"
                self.assign_place(arrplace, "%s.setIfInBounds %s %s" % (arrv, cnt, elem), pre)
            return
        if place[0] == "index":
            arrv, aty = self.expr(place[1], [], None)
            if aty not in (A, ("N", "WUPairs")):
                raise Unsupported("indexed assignment into %r" % (aty,))
            i, _ = self.expr(place[2], [], U)                              # evaluated already by the read of the same place
            self.assign_place(place[1], "%s.setIfInBounds %s %s" % (arrv, i, val), pre)
            return
        if place[0] == "field" and not place[2].isdigit() and place[1] != ("path", ["self"]):
            # a field of a local struct value: rebuild the struct
            base, bty = self.expr(place[1], [], None)
            st = self.structs.get(bty[1]) if (bty and bty[0] == "N") else None
            if st and place[2] in st["fields"]:
                self.assign_place(place[1], "{ %s with %s := %s }" % (base, st["fieldmap"].get(place[2], place[2]), val), pre)
                return
        raise Unsupported("assignment to %r" % (place,))

    # --- statements
    def assigned(self, block, acc):
        for s in block[1]:
            if s[0] == "assign":
                self.assigned_expr(s[3], acc)
                p = s[1]
                while p[0] in ("index", "paren", "deref") or (p[0] == "field" and p[1] != ("path", ["self"])):
                    p = p[1]
                if p[0] == "field" and p[1] == ("path", ["self"]):
                    acc.add("self_" + p[2])
                elif p[0] == "path":
                    acc.add(self.env[p[1][0]][0] if p[1][0] in self.env else p[1][0])
                    if p[1][0] in getattr(self, "itermut", {}):
                        # a write through an `iter_mut()` reference also rewrites the array
                        q = self.itermut[p[1][0]][0]
                        while q[0] in ("index", "paren") or (q[0] == "field" and q[1] != ("path", ["self"])):
                            q = q[1]
                        if q[0] == "field" and q[1] == ("path", ["self"]):
                            acc.add("self_" + q[2])
                        elif q[0] == "path":
                            acc.add(self.env[q[1][0]][0] if q[1][0] in self.env else q[1][0])
            elif s[0] == "expr":
                self.assigned_expr(s[1], acc)
            elif s[0] == "while":
                self.assigned(s[2], acc)
            elif s[0] == "for":
                self.assigned(s[5], acc)
                if s[6] is not None and s[6][0] == "itermut":
                    p = s[6][1]
                    while p[0] in ("index", "paren") or (p[0] == "field" and p[1] != ("path", ["self"])):
                        p = p[1]
                    if p[0] == "field" and p[1] == ("path", ["self"]):
                        acc.add("self_" + p[2])
                    elif p[0] == "path":
                        acc.add(self.env[p[1][0]][0] if p[1][0] in self.env else p[1][0])
            elif s[0] == "whilelet":
                self.assigned(s[3], acc)
                self.assigned_expr(s[2], acc)
            elif s[0] == "let":
                self.assigned_expr(s[3], acc)
        if block[2] is not None:
            self.assigned_expr(block[2], acc)
        return acc

    def assigned_expr(self, e, acc):
        """variables whose value an expression changes: through a state-changing call (table entries with `setvar`,
        `mutself`, `mutarg`, `mutrecv`) anywhere inside it — receivers, arguments, conditions, scrutinees, branches —
        or through assignments in blocks nested in it"""
        if not isinstance(e, tuple) or not e:
            return
        k = e[0]
        if k == "block":
            self.assigned(e, acc)
            return
        if k in ("mcall", "call"):
            key = None
            try:
                key, _ = self.callee_key(("field", e[1], e[2])) if k == "mcall" else self.callee_key(e[1])
            except Unsupported:
                key = None
            ent = (self.cfg.get("calls", {}).get(key) or self.calls.get(key)) if key else None
            if ent is None and k == "mcall":
                # a mutating method called on a local or on a field (of a field …) of a local: the local changes
                root = e[1]
                while root[0] in ("paren", "ref") or (root[0] == "field" and root[1] != ("path", ["self"])):
                    root = root[1]
                saved_n = (self.n, self.nmatch)
                try:
                    _, lt = self.expr(e[1], [], None)
                except Exception:
                    lt = None
                self.n, self.nmatch = saved_n                            # a probe: it emits nothing
                if lt == A and e[2] in ("push", "clear", "extend"):
                    if root[0] == "path" and len(root[1]) == 1 and root[1][0] in self.env:
                        acc.add(self.env[root[1][0]][0])
                    elif root[0] == "field" and root[1] == ("path", ["self"]):
                        acc.add("self_" + root[2])
                if isinstance(lt, tuple) and lt[0] == "N":
                    tk = "<%s>.%s" % (lt[1], e[2])
                    tent = self.cfg.get("calls", {}).get(tk) or self.calls.get(tk)
                    if tent and tent.get("mutrecv"):
                        if root[0] == "path" and len(root[1]) == 1 and root[1][0] in self.env:
                            acc.add(self.env[root[1][0]][0])
                        elif root[0] == "field" and root[1] == ("path", ["self"]):
                            acc.add("self_" + root[2])
            if ent and ent.get("setvar"):
                acc.add(ent["setvar"])
            if ent and ent.get("load") and self.cfg.get("reader"):
                acc.add(self.cfg["reader"])                              # `T::load(reader)?` consumes from the stream
            if ent and ent.get("mutself"):
                for f in self.cfg["self"]["order"]:
                    acc.add("self_" + f)
            if ent and ent.get("mutarg") is not None:
                args = e[3] if k == "mcall" else e[2]
                p = args[ent["mutarg"]]
                while p[0] in ("ref", "paren"):
                    p = p[1]
                if p[0] == "field" and p[1] == ("path", ["self"]):
                    acc.add("self_" + p[2])
                elif p[0] == "path":
                    acc.add(self.env[p[1][0]][0] if p[1][0] in self.env else p[1][0])
        for x in e[1:]:
            if isinstance(x, tuple):
                self.assigned_expr(x, acc)
            elif isinstance(x, list):
                for y in x:
                    if isinstance(y, tuple):
                        self.assigned_expr(y, acc)

    def is_err(self, e):
        """`Err(<anything>)`: the function returns a `Result`"""
        return e[0] == "call" and e[1] == ("path", ["Err"])

    def err_fault(self, e):
        """the outcome of `return Err(x)`: `Error::new(ErrorKind::InvalidData, _)` is `err invalid`, `UnexpectedEof` is
        `err eof`, a `&str` / `String` error is `err other`"""
        a = e[2][0] if e[2] else None
        if a and a[0] == "call" and a[1][0] == "path" and a[1][1][-2:] == ["Error", "new"] and a[2] and a[2][0][0] == "path":
            kind = a[2][0][1][-1]
            return {"InvalidData": "fault (.err .invalid)", "UnexpectedEof": "fault (.err .eof)"}.get(kind, "fault (.err .other)")
        return "fault (.err .other)"

    def ok_value(self, e):
        if e[0] == "call" and e[1] == ("path", ["Ok"]) and len(e[2]) == 1 and e[2][0] != ("tuple", []):
            return e[2][0]
        return None

    def is_ok_unit(self, e):
        return e[0] == "call" and e[1] == ("path", ["Ok"]) and len(e[2]) == 1 and e[2][0] == ("tuple", [])

    def unit_block(self, b):
        return b[2] is None or self.unit_if(b[2])

    def unit_if(self, e):
        """an `if` without else, or whose branches all end without a value (and not both by `return`)"""
        if e[0] != "if":
            return False
        if e[3] is None:
            return self.unit_block(e[2])
        if self.diverges(e[2]) and self.diverges(e[3]):
            return False
        return self.unit_block(e[2]) and self.unit_block(e[3])

    def norm(self, b):
        """a unit-valued `if`, or a transparent `unsafe { … }` block, in tail position is a statement"""
        while b is not None and b[2] is not None and b[2][0] == "blockexpr":
            b = ("block", list(b[1]) + list(b[2][1][1]), b[2][1][2])
        if b is not None and b[2] is not None and self.unit_if(b[2]):
            return ("block", list(b[1]) + [("expr", b[2])], None)
        if b is not None and b[2] is not None and b[2][0] == "iflet" and b[2][4] is None:
            return ("block", list(b[1]) + [("expr", b[2])], None)
        if b is not None and b[2] is not None and b[2][0] == "iflet" and self.norm(b[2][3])[2] is None and self.norm(b[2][4])[2] is None:
            return ("block", list(b[1]) + [("expr", b[2])], None)
        return b

    def diverges(self, block):
        """every path through the block ends in `return`"""
        last = block[2] if block[2] is not None else (block[1][-1] if block[1] else None)
        if last is None:
            return False
        if block[2] is None and last[0] in ("return", "break"):
            return True
        if last[0] == "expr":
            last = last[1]
        if last[0] == "if" and last[3] is not None:
            return self.diverges(last[2]) and self.diverges(last[3])
        return False

    def flush(self, pre, out, ind):
        """write pending monadic bindings"""
        for p in pre:
            if isinstance(p, str):
                out.append(ind + p)
            elif p[0] == "try":
                # `?` on Option: the rest of the function is the `some` continuation — handled by the caller
                out.append(("try", p[1], p[2], ind, p[3]))
            elif p[0] == "optmatch":
                _, t, v, nm, binds, p1, a, p2, b = p
                out.append(ind + "let %s ← (match %s with" % (t, v))
                out.append(ind + "  | some %s => do" % nm)
                for bl in binds:
                    out.append(ind + "      " + bl)
                self.flush(p1, out, ind + "      ")
                out.append(ind + "      pure %s" % a)
                out.append(ind + "  | none => do")
                self.flush(p2, out, ind + "      ")
                out.append(ind + "      pure %s)" % b)
            elif p[0] == "optmap":
                _, t, v, binds, p2, b = p
                out.append(ind + "let %s ← (match %s with" % (t, v))
                out.append(ind + "  | none => pure none")
                out.append(ind + "  | some x_ => do")
                for bl in binds:
                    out.append(ind + "      " + bl)
                self.flush(p2, out, ind + "      ")
                out.append(ind + "      pure (some %s))" % b)
            elif p[0] == "ifm":
                _, t, c, p1, a, p2, b = p
                out.append(ind + "let %s ← (if %s then do" % (t, c))
                self.flush(p1, out, ind + "    ")
                out.append(ind + "    pure %s" % a)
                out.append(ind + "  else do")
                self.flush(p2, out, ind + "    ")
                out.append(ind + "    pure %s)" % b)
        del pre[:]

    def bind_pat(self, p, val, ty, out, ind):
        if p[0] == "pvar":
            self.env[p[1]] = (lname(p[1]), ty)
            out.append(ind + "let %s := %s" % (lname(p[1]), val))
        else:
            if not (ty and ty[0] == "T" and len(ty[1]) == len(p[1])):
                raise Unsupported("tuple pattern against %r" % (ty,))
            names = []
            for q, t in zip(p[1], ty[1]):
                if q[0] != "pvar":
                    raise Unsupported("nested tuple pattern")
                self.env[q[1]] = (lname(q[1]), t)
                names.append(lname(q[1]))
            out.append(ind + "let (%s) := %s" % (", ".join(names), val))

    def stmts(self, stmts, tail, out, ind, is_fn_body):
        """emits the statements, then the tail.  Returns nothing; the last emitted line is a monadic result."""
        while tail is not None and tail[0] == "blockexpr":            # `unsafe { … }` in tail position: transparent
            stmts, tail = list(stmts) + list(tail[1][1]), tail[1][2]
        if tail is not None and self.unit_if(tail):
            stmts, tail = list(stmts) + [("expr", tail)], None       # a unit-valued `if` in tail position is a statement
        for idx, s in enumerate(stmts):
            pre = []
            k = s[0]
            if k == "let":
                hint = self.alias(s[2]) if (s[2] is not None and getattr(self, "alias", None)) else s[2]
                s = (s[0], s[1], hint, s[3])
                if hint is None and s[1][0] == "pvar":
                    hint = self.cfg.get("local_types", {}).get(s[1][1])        # an untyped literal whose type rustc infers later
                v, ty = self.expr(s[3], pre, hint)
                self.flush(pre, out, ind)
                self.bind_pat(s[1], v, s[2] or ty, out, ind)
            elif k == "assign":
                self.assign(s, pre)
                self.flush(pre, out, ind)
            elif k == "return" and s[1] is not None and self.is_err(s[1]):
                out.append(ind + self.err_fault(s[1]))
                return
            elif k == "break":
                if self.loop is None:
                    raise Unsupported("`break` outside a loop")
                out.append(ind + "pure (Ctl.brk %s)" % self.loop)
                return
            elif k == "while":
                self.while_stmt(s, (stmts[idx + 1:], tail), out, ind, is_fn_body)
                return
            elif k == "for":
                self.for_stmt(s, (stmts[idx + 1:], tail), out, ind, is_fn_body)
                return
            elif k == "whilelet":
                self.whilelet_stmt(s, (stmts[idx + 1:], tail), out, ind, is_fn_body)
                return
            elif k == "return" and s[1] is not None and self.ok_value(s[1]) is not None:
                v, ty = self.expr(self.ok_value(s[1]), pre, self.ret)
                self.flush(pre, out, ind)
                out.append(ind + self.wrap_return(v, ty))
                return
            elif k == "return":
                if s[1] is None:
                    out.append(ind + (("pure (Ctl.ret %s)" % self.ret_expr(None, UNIT)) if self.loop is not None else self.wrap_return(None, UNIT)))
                else:
                    v, ty = self.expr(s[1], pre, self.ret)
                    self.flush(pre, out, ind)
                    out.append(ind + self.wrap_return(v, ty))
                return
            elif k == "expr":
                e = s[1]
                if e[0] == "if":
                    rest = (stmts[idx + 1:], tail)
                    if self.if_stmt(e, rest, out, ind, is_fn_body):
                        return
                elif e[0] == "iflet" and (e[4] is not None or self.assigned(self.norm(e[3]), set())):
                    if self.iflet_stmt(e, (stmts[idx + 1:], tail), out, ind, is_fn_body):
                        return
                elif e[0] == "iflet":
                    # `if let Some(x) = e { body }` where the body assigns nothing and leaves only through `return Err(..)`
                    # (a fault propagates through the monad, so the body is a unit-valued block)
                    body = self.norm(e[3])
                    if body[2] is not None or self.assigned(body, set()):
                        raise Unsupported("`if let` body with a value or assignments")
                    sv, sty = self.expr(e[2], pre)
                    self.flush(pre, out, ind)
                    if not (sty and sty[0] == "O"):
                        raise Unsupported("`if let Some` on a non-Option")
                    out.append(ind + "match %s with" % sv)
                    saved = dict(self.env)
                    arm = []
                    nm = self.bind_some(e[1], sty[1], arm, ind + "    ")
                    out.append(ind + "| some %s => do" % nm)
                    out.extend(arm)
                    self.scoped([], body[1], None, out, ind + "    ", False)
                    out.append(ind + "    pure ()")
                    self.env = saved
                    out.append(ind + "| none => pure ()")
                elif e[0] == "blockexpr":
                    if e[1][2] is not None:
                        raise Unsupported("block statement with a value")
                    # transparent `unsafe { … }` block: splice
                    self.stmts(e[1][1], None, out, ind, False)
                    if out and isinstance(out[-1], str) and out[-1].strip().startswith("return"):
                        return
                elif e[0] == "macro" and e[1] == "assert_eq" and len(e[2]) == 2:
                    c, _ = self.binop(("bin", "==", e[2][0], e[2][1]), pre, B)
                    self.flush(pre, out, ind)
                    out.append(ind + "gAssert %s" % c)
                elif e[0] == "macro":
                    if e[1] in ("assert", "debug_assert") and e[1] == "assert":
                        c, _ = self.expr(e[2][0], pre, B)
                        self.flush(pre, out, ind)
                        out.append(ind + "gAssert %s" % c)
                    elif e[1] == "debug_assert":
                        pass
                    else:
                        raise Unsupported("macro %s!" % e[1])
                else:
                    v, ty = self.expr(e, pre)
                    self.flush(pre, out, ind)
            else:
                raise Unsupported("statement %s" % k)
        if tail is not None and self.is_ok_unit(tail):
            tail = None                                               # `Ok(())`: the unit result of a `Result<(), _>` function
        if tail is not None and self.is_err(tail):
            out.append(ind + self.err_fault(tail))
            return
        if tail is not None and self.ok_value(tail) is not None:
            tail = self.ok_value(tail)
        if tail is not None and tail[0] == "if" and tail[3] is not None and \
                any(b[2] is not None and (self.is_err(b[2]) or self.ok_value(b[2]) is not None or self.is_ok_unit(b[2]))
                    for b in (tail[2], tail[3])):
            self.if_stmt(tail, ([], None), out, ind, is_fn_body, as_tail=True)
            return
        if tail is not None and tail[0] == "iflet" and tail[4] is not None:
            # `if let Some(x) = e { … } else { … }` as the value of the block: a match with both arms in tail position
            pre = []
            sv, sty = self.expr(tail[2], pre)
            self.flush(pre, out, ind)
            if not (sty and sty[0] == "O"):
                raise Unsupported("`if let Some` on a non-Option")
            out.append(ind + "match %s with" % sv)
            saved = dict(self.env)
            arm = []
            nm = self.bind_some(tail[1], sty[1], arm, ind + "    ")
            out.append(ind + "| some %s => do" % nm)
            out.extend(arm)
            self.stmts(tail[3][1], tail[3][2], out, ind + "    ", is_fn_body)
            self.env = dict(saved)
            out.append(ind + "| none => do")
            self.stmts(tail[4][1], tail[4][2], out, ind + "    ", is_fn_body)
            self.env = saved
            return
        if tail is not None:
            if tail[0] == "if" and (tail[2][1] or (tail[3] and tail[3][1])):
                self.if_stmt(tail, ([], None), out, ind, is_fn_body, as_tail=True)
                return
            pre = []
            v, ty = self.expr(tail, pre, self.ret)
            if ty == "R":
                pre.append("gTry %s" % v)                              # the callee's io::Result is this function's result
                v, ty = None, UNIT
            self.flush(pre, out, ind)
            if isinstance(is_fn_body, str):
                raise Unsupported("a value at the end of a nested statement block")
            if is_fn_body:
                out.append(ind + self.wrap_return(v, ty))
            else:
                out.append(ind + "pure %s" % v)
        elif isinstance(is_fn_body, str):
            out.append(ind + is_fn_body)
        elif is_fn_body:
            out.append(ind + self.fallthrough())

    def assign(self, s, pre):
        place, op, rhs = s[1], s[2], s[3]
        try:
            pk, _ = self.callee_key(place)
        except Unsupported:
            pk = None
        ov = self.cfg.get("assign_override", {}).get(pk)
        if ov and op == "=":
            pre.append("let %s := %s" % ov)
            return
        while place[0] == "paren":
            place = place[1]
        if place[0] == "deref" and place[1][0] == "path" and len(place[1][1]) == 1 and place[1][1][0] in getattr(self, "itermut", {}):
            # `*x = e` inside `for x in arr.iter_mut()`: element `i` of the array (and `x` itself) take the new value
            if op != "=":
                raise Unsupported("compound assignment through an `iter_mut()` reference")
            r, _ = self.expr(rhs, pre, self.env[place[1][1][0]][1] if place[1][1][0] in self.env else W)
            self.assign_place(place[1], r, pre)
            return
        if place[0] == "index":
            arr, aty = self.expr(place[1], [], None)
            if aty != A:
                raise Unsupported("indexed assignment into %r" % (aty,))
            r, _ = self.expr(rhs, pre, W)                         # right operand first (Rust evaluation order)
            i, _ = self.expr(place[2], pre, U)
            cur = self.fresh()
            pre.append("let %s ← getC %s %s" % (cur, arr, i))
            if op == "=":
                new = r
            else:
                lean = {"&=": "&&&", "|=": "|||", "^=": "^^^"}.get(op)
                if not lean:
                    raise Unsupported("compound assignment %s on an array element" % op)
                new = "(%s %s %s)" % (cur, lean, r)
            self.assign_place(place[1], "%s.setIfInBounds %s %s" % (arr, i, new), pre)
            return
        if place[0] == "field" and place[2].isdigit() and place[1][0] == "index":
            # `arr[i].k op= e`: the element is read ONCE, the component updated, the element written back
            base, bty = self.expr(place[1], pre, None)
            if not (bty and bty[0] == "T" and len(bty[1]) == 2):
                raise Unsupported("assignment to a component of %r" % (bty,))
            ci = int(place[2])
            cty = bty[1][ci]
            if op == "=":
                v, _ = self.expr(rhs, pre, cty)
            else:
                saved = dict(self.env)
                self.env["cur__"] = ("%s.%d" % (base, ci + 1), cty)
                v, _ = self.binop(("bin", op[:-1], ("path", ["cur__"]), rhs), pre, cty)
                self.env = saved
            pair = "(%s, %s.2)" % (v, base) if ci == 0 else "(%s.1, %s)" % (base, v)
            self.assign_place(place[1], pair, pre)
            return
        cur, ty = self.expr(place, [], None)
        if op == "=":
            v, _ = self.expr(rhs, pre, ty)
        else:
            v, _ = self.binop(("bin", op[:-1], place, rhs), pre, ty)
        if place[0] == "field" and not place[2].isdigit() and place[1] != ("path", ["self"]):
            base, bty = self.expr(place[1], [], None)
            st = self.structs.get(bty[1]) if (bty and bty[0] == "N") else None
            if not st or place[2] not in st["fields"]:
                raise Unsupported("assignment to field .%s of %r" % (place[2], bty))
            self.assign_place(place[1], "{ %s with %s := %s }" % (base, st["fieldmap"].get(place[2], place[2]), v), pre)
            return
        if place[0] == "field" and place[2].isdigit():
            # a component of a pair: rebuild the pair
            base, bty = self.expr(place[1], [], None)
            if not (bty and bty[0] == "T" and len(bty[1]) == 2):
                raise Unsupported("assignment to a component of %r" % (bty,))
            pair = "(%s, %s.2)" % (v, base) if place[2] == "0" else "(%s.1, %s)" % (base, v)
            self.assign_place(place[1], pair, pre)
            return
        self.assign_place(place, v, pre)

    def iflet_stmt(self, e, rest, out, ind, is_fn_body):
        """`if let Some(p) = e { … } [else { … }]` / `match e { Some(p) => …, None => … }` as a statement.  Returns True when
        the rest of the block has been emitted inside the arms."""
        _, var, scrut, some_b, none_b = e
        some_b = self.norm(some_b)
        none_b = self.norm(none_b) if none_b is not None else ("block", [], None)
        pre = []
        sv, sty = self.expr(scrut, pre)
        self.flush(pre, out, ind)
        if not (sty and sty[0] == "O"):
            raise Unsupported("`if let Some` / `match` on a non-Option")
        d1, d2 = self.diverges(some_b), self.diverges(none_b)
        valued = some_b[2] is not None or none_b[2] is not None
        if valued and (rest[0] or rest[1] is not None):
            raise Unsupported("`match` with a value that is not the last expression of its block")
        saved = dict(self.env)
        if not valued and not d1 and not d2:
            vs = sorted(self.in_scope(self.assigned(some_b, set()) | self.assigned(none_b, set())))
            pat = "()" if not vs else (vs[0] if len(vs) == 1 else "(" + ", ".join(vs) + ")")
            out.append(ind + "let %s ← (match %s with" % (pat, sv))
            arm = []
            nm = self.bind_some(var, sty[1], arm, ind + "      ")
            out.append(ind + "  | some %s => do" % nm)
            out.extend(arm)
            if self.contains_return(some_b) or self.contains_return(none_b):
                raise Unsupported("`return` inside an `if let` arm that otherwise continues")
            self.scoped(vs, some_b[1], None, out, ind + "      ", "pure %s" % pat)
            self.env = dict(saved)
            out.append(ind + "  | none => do")
            self.scoped(vs, none_b[1], None, out, ind + "      ", "pure %s)" % pat)
            self.env = saved
            return False
        # a valued match in tail position, or at least one arm leaves: the rest of the block goes into the arms that continue
        out.append(ind + "match %s with" % sv)
        arm = []
        nm = self.bind_some(var, sty[1], arm, ind + "    ")
        out.append(ind + "| some %s => do" % nm)
        out.extend(arm)
        n0 = len(out)
        if d1 or valued:
            self.stmts(some_b[1], some_b[2], out, ind + "    ", is_fn_body)
        else:
            self.stmts(list(some_b[1]) + list(rest[0]), rest[1], out, ind + "    ", is_fn_body)
        if len(out) == n0:
            out.append(ind + "    pure ()")
        self.env = dict(saved)
        out.append(ind + "| none => do")
        n0 = len(out)
        if d2 or valued:
            self.stmts(none_b[1], none_b[2], out, ind + "    ", is_fn_body)
        else:
            self.stmts(list(none_b[1]) + list(rest[0]), rest[1], out, ind + "    ", is_fn_body)
        if len(out) == n0:
            out.append(ind + "    pure ()")
        self.env = saved
        return True

    def bind_some(self, pat, ty, out, ind):
        """the `x` of `Some(x)`: a name or a tuple pattern; returns the Lean binder used in the match arm"""
        if isinstance(pat, str):
            nm = lname(pat)
            if pat in self.env and self.env[pat][0] == nm:
                nm = nm + "_in"                                          # `Some(len)` shadowing an outer `len`: a distinct Lean name
            self.env[pat] = (nm, ty)
            return nm
        self.nmatch += 1
        nm = "some%d" % self.nmatch
        self.bind_pat(pat, nm, ty, out, ind)
        return nm

    def whilelet_stmt(self, st, rest, out, ind, is_fn_body):
        """`while let Some(pat) = e { body }`: as `while`, the scrutinee is evaluated at the start of every iteration (with
        its effects on the state) and the loop is left when it is `None`"""
        fuels = self.cfg.get("fuel", [])
        if self.nloops >= len(fuels):
            raise Unsupported("loop %d has no configured iteration bound" % (self.nloops + 1))
        fuel = fuels[self.nloops]
        self.nloops += 1
        acc = self.assigned(st[3], set())
        self.assigned_expr(st[2], acc)
        vs = sorted(self.in_scope(acc))
        pat = "()" if not vs else (vs[0] if len(vs) == 1 else "(" + ", ".join(vs) + ")")
        rty = self.cfg["_rty"]
        lr = "lr%d" % self.nloops
        out.append(ind + "let %s ← loopM (ρ := %s) (%s) (fun %s => do" % (lr, rty, fuel, pat))
        saved_env, saved_loop = dict(self.env), self.loop
        self.loop = pat
        pre = []
        sv, sty = self.expr(st[2], pre)
        self.flush(pre, out, ind + "    ")
        if not (sty and sty[0] == "O"):
            raise Unsupported("`while let Some` on a non-Option")
        out.append(ind + "    match %s with" % sv)
        out.append(ind + "    | none => pure (Ctl.brk %s)" % pat)
        arm = []
        nm = self.bind_some(st[1] if st[1][0] != "pvar" else st[1][1], sty[1], arm, ind + "        ")
        out.append(ind + "    | some %s => do" % nm)
        out.extend(arm)
        body = self.norm(st[3])
        if body[2] is not None:
            raise Unsupported("loop body ending in a value")
        self.scoped(vs, body[1], None, out, ind + "        ", True)
        out[-1] = out[-1] + ") " + pat if False else out[-1]
        out.append(ind + "    ) %s" % pat)
        self.env, self.loop = saved_env, saved_loop
        has_ret = self.contains_return(st[3])
        if not is_fn_body:
            if has_ret:
                raise Unsupported("`return` inside a loop that is nested in a non-final block")
            out.append(ind + "let %s ← (match %s with | .brk st => pure st | .next _ => fault .fuel | .ret _ => fault .fuel)" % (pat, lr))
            self.stmts(rest[0], rest[1], out, ind, is_fn_body)
            return
        out.append(ind + "match %s with" % lr)
        if not has_ret:
            out.append(ind + "| .ret _ => fault .fuel")
        elif self.loop is not None:
            out.append(ind + "| .ret r => pure (Ctl.ret r)")
        else:
            out.append(ind + "| .ret r => return r")
        out.append(ind + "| .next _ => fault .fuel")
        out.append(ind + "| .brk %s => do" % pat)
        n0 = len(out)
        self.stmts(rest[0], rest[1], out, ind + "  ", is_fn_body)
        if len(out) == n0:
            out.append(ind + "  pure ()")

    def while_stmt(self, st, rest, out, ind, is_fn_body):
        """`while c { body }` / `loop { body }`: a bounded iteration of a step function over the variables the body assigns.
        The step returns `Ctl.next s` (iterate), `Ctl.brk s` (condition false / `break`) or `Ctl.ret r` (`return r`)."""
        fuels = self.cfg.get("fuel", [])
        if self.nloops >= len(fuels):
            raise Unsupported("loop %d has no configured iteration bound" % (self.nloops + 1))
        fuel = fuels[self.nloops]
        self.nloops += 1
        vs = sorted(self.in_scope(self.assigned(st[2], set())))
        pat = "()" if not vs else (vs[0] if len(vs) == 1 else "(" + ", ".join(vs) + ")")
        rty = self.cfg["_rty"]
        lr = "lr%d" % self.nloops
        out.append(ind + "let %s ← loopM (ρ := %s) (%s) (fun %s => do" % (lr, rty, fuel, pat))
        saved_env, saved_loop = dict(self.env), self.loop
        self.loop = pat
        pre = []
        c, _ = self.expr(st[1], pre, B)
        self.flush(pre, out, ind + "    ")
        out.append(ind + "    if %s then do" % c)
        body = self.norm(st[2])
        if body[2] is not None:
            raise Unsupported("loop body ending in a value")
        self.scoped(vs, body[1], None, out, ind + "      ", True)
        out.append(ind + "    else do")
        out.append(ind + "      pure (Ctl.brk %s)) %s" % (pat, pat))
        self.env, self.loop = saved_env, saved_loop
        has_ret = self.contains_return(st[2])
        if isinstance(is_fn_body, str) and has_ret and self.loop is None:
            raise Unsupported("`return` inside a loop that is nested in a non-final block")
        if not is_fn_body or (isinstance(is_fn_body, str) and not has_ret):
            # inside a nested block (an `if` branch that goes on afterwards): the loop must not `return`; its final state
            # is rebound and the enclosing block continues
            if has_ret:
                raise Unsupported("`return` inside a loop that is nested in a non-final block")
            out.append(ind + "let %s ← (match %s with | .brk st => pure st | .next _ => fault .fuel | .ret _ => fault .fuel)" % (pat, lr))
            self.stmts(rest[0], rest[1], out, ind, is_fn_body)
            return
        out.append(ind + "match %s with" % lr)
        if not has_ret:
            out.append(ind + "| .ret _ => fault .fuel")
        elif self.loop is not None:
            out.append(ind + "| .ret r => pure (Ctl.ret r)")
        else:
            out.append(ind + "| .ret r => return r")
        out.append(ind + "| .next _ => fault .fuel")
        if st[1] == ("bool", True) and not self.contains_break(st[2]):
            out.append(ind + "| .brk _ => fault .fuel")             # `loop` without `break`: left only through `return`
            return
        out.append(ind + "| .brk %s => do" % pat)
        n0 = len(out)
        self.stmts(rest[0], rest[1], out, ind + "  ", is_fn_body)
        if len(out) == n0:
            out.append(ind + "  pure ()")

    def scoped(self, vs, stmts, tail, out, ind, cont):
        """emit a nested block whose effect on the enclosing scope is the tuple `vs`; fail closed when the emitted block
        rebinds a variable of the enclosing scope that is NOT in `vs` (the change would be lost silently)"""
        known = {v[0] for v in self.env.values()}
        if self.selfmut:
            known |= {"self_" + f for f in self.cfg["self"]["order"]}
        if self.cfg.get("reader"):
            known.add(self.cfg["reader"])
        n0 = len(out)
        self.stmts(stmts, tail, out, ind, cont)
        tracked = set(vs)
        for l in out[n0:]:
            if not isinstance(l, str):
                continue
            mm = re.match(r"\s*let\s+(.+?)\s*(:=|←)", l)
            if not mm:
                continue
            for nm in re.findall(r"[A-Za-z_][\w']*", mm.group(1)):
                if nm in known and nm not in tracked:
                    raise Unsupported("variable `%s` is changed inside a nested block but is not part of the state that flows out of it" % nm)

    def in_scope(self, names):
        """of the assigned names, those that denote variables declared OUTSIDE the block (locals of the block itself are
        not part of the state that flows out of it)"""
        known = {v[0] for v in self.env.values()}
        if self.cfg.get("reader"):
            known.add(self.cfg["reader"])
        return {n for n in names if n in known or n.startswith("self_")}

    def for_stmt(self, st, rest, out, ind, is_fn_body):
        """`for x in a..b { body }` / `for x in (a..b).rev() { body }`: `loopM` over a counter and the variables the body
        assigns; the iteration bound is the length of the range plus one"""
        _, var, lo, hi, rev, body, arr = st
        itermut = None
        listiter = False
        if arr is not None and arr[0] == "itermut":
            itermut, arr = arr[1], arr[1]
        if arr is not None and arr[0] == "listiter":
            listiter, arr = True, arr[1]
        pre = []
        wloop = False
        if arr is None:
            incl = hi[0] == "incl"
            hi_e = hi[1] if incl else hi
            try:
                _, hty = self.expr(hi_e, [], None)
            except Unsupported:
                hty = None
            wloop = hty == W
        if wloop:
            # a range over `u64` values: the counter runs over ℕ (an inclusive range up to `u64::MAX` does not overflow in Rust)
            a0, _ = self.expr(lo, pre, W)
            a = "(%s).toNat" % a0
        else:
            a, _ = self.expr(lo, pre, U)
        if arr is not None:
            if arr == ("path", ["self"]) and self.cfg.get("self", {}).get("rust"):
                arrv, arrt = (self.self_value() if self.selfmut else self.cfg["self"]["var"]), ("N", self.cfg["self"]["rust"])
            else:
                arrv, arrt = self.expr(arr, pre, None)
            if listiter:
                if arrt not in (("N", "ListIter"), ("N", "PairListIter"), ("N", "BoolListIter"), ("N", "WordListIter")):
                    raise Unsupported("`for` over an iterator expression of type %r" % (arrt,))
                t_ = self.fresh()
                pre.append("let %s := %s" % (t_, arrv))               # the iterator is evaluated once, before the loop
                arrv = t_
                b = "%s.length" % arrv
            elif arrt in (("N", "SamplePairs"), ("N", "BvArray"), ("N", "WUPairs")):
                b = "%s.size" % arrv
            elif arrt == ("N", "IntVector"):
                # `for x in v.iter()` over an IntVector: `AccessIter` yields `v.get(i)` for `i` in `0..v.len()`
                b = "%s.len" % arrv
            elif arrt != A:
                raise Unsupported("`for x in e.iter()` over %r" % (arrt,))
            else:
                b = "%s.size" % arrv
        else:
            b0, _ = self.expr(hi_e, pre, W if wloop else U)
            b = "(%s).toNat" % b0 if wloop else b0
            if incl:
                b = "(%s + 1)" % b
        self.flush(pre, out, ind)
        self.nloops += 1
        n = self.nloops
        out.append(ind + "let for_lo%d := %s" % (n, a))
        out.append(ind + "let for_hi%d := %s" % (n, b))
        vs = sorted(self.in_scope(self.assigned(("block", [st], None), set())))
        cnt = "for_i%d" % n
        pat = cnt if not vs else "(" + ", ".join([cnt] + vs) + ")"
        rty = self.cfg["_rty"]
        lr = "lr%d" % n
        out.append(ind + "let %s ← loopM (ρ := %s) (for_hi%d - for_lo%d + 1) (fun %s => do" % (lr, rty, n, n, pat))
        saved_env, saved_loop = dict(self.env), self.loop
        if not rev:
            nxt = "(" + ", ".join(["%s + 1" % cnt] + vs) + ")" if vs else "(%s + 1)" % cnt
            out.append(ind + "    if (decide (%s < for_hi%d)) then do" % (cnt, n))
            if arr is not None and arrt == ("N", "WUPairs"):
                if isinstance(var, tuple):
                    names = []
                    for q in var[1]:
                        nm = lname(q[1]) if q[1] != "_" else "wild%d" % n
                        names.append(nm)
                    out.append(ind + "      let (%s) := (%s.getD %s ((0 : Word), 0))" % (", ".join(names), arrv, cnt))
                    for q, nm, t_ in zip(var[1], names, [W, U]):
                        self.env[q[1]] = (nm, t_)
                else:
                    out.append(ind + "      let %s := %s.getD %s ((0 : Word), 0)" % (lname(var), arrv, cnt))
            elif arr is not None and arrt == ("N", "PairListIter"):
                if isinstance(var, tuple):
                    self.bind_pat(var, "(%s.getD %s (0, 0))" % (arrv, cnt), ("T", [U, U]), out, ind + "      ")
                else:
                    out.append(ind + "      let %s := %s.getD %s (0, 0)" % (lname(var), arrv, cnt))
            elif arr is not None and arrt == ("N", "ListIter"):
                out.append(ind + "      let %s := %s.getD %s 0" % (lname(var), arrv, cnt))
            elif arr is not None and arrt == ("N", "BoolListIter"):
                out.append(ind + "      let %s := %s.getD %s false" % (lname(var), arrv, cnt))
            elif arr is not None and arrt == ("N", "WordListIter"):
                out.append(ind + "      let %s := %s.getD %s 0" % (lname(var), arrv, cnt))
            elif arr is not None and arrt == ("N", "SamplePairs"):
                if isinstance(var, tuple):
                    self.bind_pat(var, "(%s.getD %s (0, 0))" % (arrv, cnt), ("T", [U, U]), out, ind + "      ")
                else:
                    out.append(ind + "      let %s := %s.getD %s (0, 0)" % (lname(var), arrv, cnt))
            elif arr is not None and arrt == ("N", "BvArray"):
                out.append(ind + "      let %s := %s.getD %s default" % (lname(var), arrv, cnt))
            elif arr is not None and arrt == ("N", "IntVector"):
                out.append(ind + "      let %s ← gen_IntVector_get m %s %s" % (lname(var), arrv, cnt))
            elif arr is not None:
                out.append(ind + "      let %s := rd %s %s" % (lname(var), arrv, cnt))      # the element (in range: %s < size)
            elif wloop:
                out.append(ind + "      let %s := (BitVec.ofNat 64 %s)" % (lname(var), cnt))
            else:
                out.append(ind + "      let %s := %s" % (lname(var), cnt))
        else:
            nxt = "(" + ", ".join(["%s - 1" % cnt] + vs) + ")" if vs else "(%s - 1)" % cnt
            out.append(ind + "    if (decide (for_lo%d < %s)) then do" % (n, cnt))
            out.append(ind + "      let %s := %s - 1" % (lname(var), cnt))
        if not isinstance(var, tuple):
            vty = W if wloop else U
            if arr is not None:
                vty = ("T", [U, U]) if arrt in (("N", "SamplePairs"), ("N", "PairListIter")) else (("N", "BitVector") if arrt == ("N", "BvArray") else (U if arrt == ("N", "ListIter") else (B if arrt == ("N", "BoolListIter") else W)))
            self.env[var] = (lname(var), vty)
        self.loop = nxt
        saved_itermut = getattr(self, "itermut", {})
        if itermut is not None:
            if arrt not in (A, ("N", "BvArray"), ("N", "WUPairs")):
                raise Unsupported("`iter_mut()` over %r" % (arrt,))
            if isinstance(var, tuple):
                comp = [self.env[q[1]][0] for q in var[1]]
                self.itermut = dict(saved_itermut, **{q[1]: (itermut, cnt, comp) for q in var[1] if q[1] != "_"})
            else:
                self.itermut = dict(saved_itermut, **{var: (itermut, cnt)})
        nb = self.norm(body)
        if nb[2] is not None:
            raise Unsupported("loop body ending in a value")
        self.scoped(vs + ([lname(q[1]) for q in var[1]] if isinstance(var, tuple) else [lname(var)]), nb[1], None, out, ind + "      ", True)
        out.append(ind + "    else do")
        out.append(ind + "      pure (Ctl.brk %s)) %s" % (pat, ("(" + ", ".join(["for_lo%d" % n if not rev else "for_hi%d" % n] + vs) + ")") if vs
                                                        else ("for_lo%d" % n if not rev else "for_hi%d" % n)))
        self.env, self.loop = saved_env, saved_loop
        self.itermut = saved_itermut
        has_ret = self.contains_return(body) or self.contains_try(body)
        if not is_fn_body:
            if has_ret:
                raise Unsupported("`return` / `?` inside a loop that is nested in a non-final block")
            out.append(ind + "let %s ← (match %s with | .brk st => pure st | .next _ => fault .fuel | .ret _ => fault .fuel)" % (pat, lr))
            self.stmts(rest[0], rest[1], out, ind, is_fn_body)
            return
        out.append(ind + "match %s with" % lr)
        if not has_ret:
            out.append(ind + "| .ret _ => fault .fuel")
        elif self.loop is not None:
            out.append(ind + "| .ret r => pure (Ctl.ret r)")
        else:
            out.append(ind + "| .ret r => return r")
        out.append(ind + "| .next _ => fault .fuel")
        out.append(ind + "| .brk %s => do" % pat)
        n0 = len(out)
        self.stmts(rest[0], rest[1], out, ind + "  ", is_fn_body)
        if len(out) == n0:
            out.append(ind + "  pure ()")

    def contains_try(self, block):
        def walk(e):
            if not isinstance(e, tuple):
                return False
            if e and e[0] == "try":
                # only `?` on an Option makes the enclosing function return a VALUE early; `?` on an io::Result is a fault
                if not self.peek_ret_R(e[1]) and not self.is_load_call(e[1]) and not self.cfg.get("err_as_fault"):
                    return True
            return any(walk(x) if isinstance(x, tuple) else (any(walk(y) for y in x) if isinstance(x, list) else False) for x in e[1:])
        return any(walk(st) for st in block[1]) or (block[2] is not None and walk(block[2]))

    def contains_break(self, block):
        def in_expr(e):
            if e[0] == "if":
                return self.contains_break(e[2]) or (e[3] is not None and self.contains_break(e[3]))
            if e[0] == "blockexpr":
                return self.contains_break(e[1])
            return False
        for s in block[1]:
            if s[0] == "break":
                return True
            if s[0] == "expr" and in_expr(s[1]):
                return True
        return block[2] is not None and in_expr(block[2])

    def contains_return(self, block):
        def in_expr(e):
            if e[0] == "if":
                return self.contains_return(e[2]) or (e[3] is not None and self.contains_return(e[3]))
            if e[0] == "blockexpr":
                return self.contains_return(e[1])
            if e[0] == "iflet":
                return self.contains_return(e[3])
            return False
        for s in block[1]:
            if s[0] == "return":
                if len(s) > 1 and isinstance(s[1], tuple) and self.is_err(s[1]):
                    continue                                             # `return Err(..)` is a fault of the monad, not a value
                return True
            if s[0] == "while" and self.contains_return(s[2]):
                return True
            if s[0] == "for" and self.contains_return(s[5]):
                return True
            if s[0] == "whilelet" and self.contains_return(s[3]):
                return True
            if s[0] == "expr" and in_expr(s[1]):
                return True
        return block[2] is not None and in_expr(block[2])

    def if_stmt(self, e, rest, out, ind, is_fn_body, as_tail=False):
        """returns True when the rest of the statement list has been emitted inside the else branch"""
        pre = []
        c, _ = self.expr(e[1], pre, B)
        self.flush(pre, out, ind)
        then_b, else_b = self.norm(e[2]), self.norm(e[3])
        if as_tail:
            out.append(ind + "if %s then do" % c)
            saved = dict(self.env)
            self.stmts(then_b[1], then_b[2], out, ind + "  ", is_fn_body)
            self.env = dict(saved)
            out.append(ind + "else do")
            if else_b is None:
                raise Unsupported("tail `if` without else")
            self.stmts(else_b[1], else_b[2], out, ind + "  ", is_fn_body)
            self.env = saved
            return True
        if else_b is not None and self.diverges(then_b) and self.diverges(else_b):
            out.append(ind + "if %s then do" % c)
            saved = dict(self.env)
            self.stmts(then_b[1], then_b[2], out, ind + "  ", is_fn_body)
            self.env = dict(saved)
            out.append(ind + "else do")
            self.stmts(else_b[1], else_b[2], out, ind + "  ", is_fn_body)
            self.env = saved
            return True
        if self.diverges(then_b) and else_b is None:
            out.append(ind + "if %s then do" % c)
            saved = dict(self.env)
            self.stmts(then_b[1], then_b[2], out, ind + "  ", is_fn_body)
            self.env = saved
            out.append(ind + "else do")
            n0 = len(out)
            self.stmts(rest[0], rest[1], out, ind + "  ", is_fn_body)
            if len(out) == n0:
                out.append(ind + "  pure ()")
            return True
        if then_b[2] is not None or (else_b and else_b[2] is not None):
            raise Unsupported("`if` statement with a value")
        if else_b is not None and (self.diverges(then_b) != self.diverges(else_b)):
            # exactly one branch leaves (return / break): the other one continues with the rest of the block
            if then_b[2] is not None or else_b[2] is not None:
                raise Unsupported("`if` statement with a value")
            div, cont, cond = (then_b, else_b, c) if self.diverges(then_b) else (else_b, then_b, "(!%s)" % c)
            out.append(ind + "if %s then do" % cond)
            saved = dict(self.env)
            self.stmts(div[1], None, out, ind + "  ", is_fn_body)
            self.env = dict(saved)
            out.append(ind + "else do")
            n0 = len(out)
            self.stmts(list(cont[1]) + list(rest[0]), rest[1], out, ind + "  ", is_fn_body)
            if len(out) == n0:
                out.append(ind + "  pure ()")
            return True
        if self.diverges(then_b) or (else_b and self.diverges(else_b)):
            raise Unsupported("`if` with a returning branch and an else branch")
        vs = set()
        self.assigned(then_b, vs)
        if else_b:
            self.assigned(else_b, vs)
        vs = sorted(self.in_scope(vs))
        pat = "()" if not vs else (vs[0] if len(vs) == 1 else "(" + ", ".join(vs) + ")")
        has_try = self.contains_try(then_b) or (else_b is not None and self.contains_try(else_b))
        if has_try:
            # a `?` inside a branch: the branch yields `some state`, or `none` for "return None from the function"
            self.nmatch += 1
            r = "opt%d" % self.nmatch
            out.append(ind + "let %s ← (if %s then do" % (r, c))
            saved = dict(self.env)
            self.nested_opt += 1
            self.scoped(vs, then_b[1], None, out, ind + "    ", "pure (some %s)" % pat)
            self.env = dict(saved)
            out.append(ind + "  else do")
            self.scoped(vs, else_b[1] if else_b else [], None, out, ind + "    ", "pure (some %s))" % pat)
            self.nested_opt -= 1
            self.env = saved
            out.append(ind + "match %s with" % r)
            out.append(ind + "| none => %s" % self.wrap_return("none", ("O", None)))
            out.append(ind + "| some %s => do" % pat)
            n0 = len(out)
            self.stmts(rest[0], rest[1], out, ind + "  ", is_fn_body)
            if len(out) == n0:
                out.append(ind + "  pure ()")
            return True
        has_ret = self.contains_return(then_b) or (else_b is not None and self.contains_return(else_b))
        if has_ret:
            # a `return` somewhere inside a branch that otherwise continues: the branches yield `Ctl.brk state` to go on
            # and `Ctl.ret r` to return `r` from the function
            if self.contains_break(then_b) or (else_b is not None and self.contains_break(else_b)):
                raise Unsupported("`break` and `return` inside the same nested `if`")
            self.nmatch += 1
            cv = "ctl%d" % self.nmatch
            outer_loop = self.loop
            out.append(ind + "let %s ← (if %s then do" % (cv, c))
            saved = dict(self.env)
            self.loop = pat
            self.scoped(vs, then_b[1], None, out, ind + "    ", "pure (Ctl.brk %s)" % pat)
            self.env = dict(saved)
            out.append(ind + "  else do")
            self.scoped(vs, else_b[1] if else_b else [], None, out, ind + "    ", "pure (Ctl.brk %s)" % pat)
            out[-1] = out[-1] + ")"
            self.loop = outer_loop
            self.env = saved
            out.append(ind + "match (%s : Ctl _ %s) with" % (cv, self.cfg["_rty"]))
            out.append(ind + ("| .ret r => pure (Ctl.ret r)" if outer_loop is not None else "| .ret r => return r"))
            out.append(ind + "| .next _ => fault .fuel")
            out.append(ind + "| .brk %s => do" % pat)
            n0 = len(out)
            self.stmts(rest[0], rest[1], out, ind + "  ", is_fn_body)
            if len(out) == n0:
                out.append(ind + "  pure ()")
            return True
        out.append(ind + "let %s ← (if %s then do" % (pat, c))
        saved = dict(self.env)
        self.scoped(vs, then_b[1], None, out, ind + "    ", "pure %s" % pat)
        self.env = dict(saved)
        out.append(ind + "  else do")
        self.scoped(vs, else_b[1] if else_b else [], None, out, ind + "    ", "pure %s)" % pat)
        self.env = saved
        return False


def resolve_tries(lines):
    """`("try", t, v, ind, rettext)` markers become a match whose `some` branch holds the rest of the enclosing block
    (the following lines that are indented at least as deep as the marker)"""
    def indent_of(l):
        if isinstance(l, tuple):
            return len(l[3])
        return len(l) - len(l.lstrip(" "))
    out, i = [], 0
    while i < len(lines):
        l = lines[i]
        if isinstance(l, tuple):
            _, t, v, ind, rettext = l
            j = i + 1
            while j < len(lines) and indent_of(lines[j]) >= len(ind):
                j += 1
            inner = resolve_tries(lines[i + 1:j])
            out.append(ind + "match %s with" % v)
            out.append(ind + "| none => %s" % rettext)
            out.append(ind + "| some %s => do" % t)
            out.extend("  " + r for r in inner)
            i = j
        else:
            out.append(l)
            i += 1
    return out


def translate(src, cfg, calls, consts, structs):
    for mk, mv in cfg.get("macro_subst", {}).items():
        src = src.replace(mk, mv)                                 # the instance of a `macro_rules!` body at one type
    params_txt, ret_txt, body_txt = find_fn(src, cfg.get("impl"), cfg["fn"])
    for a, b in cfg.get("pre_subst", []):
        body_txt = body_txt.replace(a, b)                         # a uniform, purely textual renaming of a callee
    for pat, repl in cfg.get("source_subst", []):
        # a part of the body outside the translated subset (floating point) is replaced by a NAMED parameter; the pattern
        # must match exactly once, otherwise the function is not translated
        body_txt, nsub = re.subn(pat, repl, body_txt)
        if nsub != 1:
            raise Unsupported("source_subst %r matched %d times" % (pat, nsub))
    em = Emitter(cfg, calls, consts, structs)
    # signature
    binders = ["(m : Mode)"] + list(cfg.get("binders", []))
    al = {re.sub(r"\s+", "", k): v for k, v in cfg.get("tyalias", {}).items()}

    def alias(t):
        if isinstance(t, tuple) and t[0] == "N" and t[1] in al:
            return al[t[1]]
        if isinstance(t, tuple) and t[0] == "O":
            return ("O", alias(t[1]))
        if isinstance(t, tuple) and t[0] == "T":
            return ("T", [alias(x) for x in t[1]])
        return t
    for xn, xv in cfg.get("params_extra", {}).items():
        em.env[xn] = xv                                           # named parameters introduced by `source_subst`
    p = Parser(lex(params_txt))
    while p.peek()[0] != "eof":
        if p.at("&"):
            p.eat()
            if p.peek()[0] == "life": p.eat()
            if p.at("mut"): p.eat()
            p.eat("self")
            s = cfg["self"]
            binders.append("(%s : %s)" % (s["var"], s["lean"]))
        elif p.at("self"):
            p.eat()
            s = cfg["self"]
            binders.append("(%s : %s)" % (s["var"], s["lean"]))
        else:
            if p.at("mut"): p.eat()
            name = p.eat()[1]
            p.eat(":")
            ty = alias(p.ty())
            ov = cfg.get("params", {}).get(name)
            if cfg.get("reader") == name:
                binders.append("(%s : %s)" % (name, cfg.get("reader_ty", "Elems")))
            elif ov:
                binders.append(ov[0]); em.env[name] = (ov[2], ov[1])
            else:
                if ty[0] == "N" and ty[1] in cfg.get("generic_arrays", ()):
                    ty = A
                binders.append("(%s : %s)" % (lname(name), lean_ty(ty, structs))); em.env[name] = (lname(name), ty)
        if p.at(","):
            p.eat()
    if ret_txt:
        rp = Parser(lex(ret_txt))
        rp.eat("->")
        em.ret = alias(rp.ty())
    else:
        em.ret = UNIT
    if "ret" in cfg:
        em.ret = cfg["ret"]
    rty0 = lean_ty(em.ret, structs)
    if em.selfmut:
        rty0 = cfg["self"]["lean"] if em.ret == UNIT else "(%s × %s)" % (rty0, cfg["self"]["lean"])
    if cfg.get("reader"):
        rty0 = "(%s × %s)" % (rty0, cfg.get("reader_ty", "Elems"))
    cfg = dict(cfg, _rty=rty0)
    em.cfg = cfg
    em.alias = alias
    body = Parser(lex(body_txt)).block()
    out = []
    if em.selfmut:
        s = cfg["self"]
        for f in s["order"]:
            out.append("  let self_%s := %s.%s" % (f, s["var"], s["fields"][f][0]))
    em.stmts(body[1], body[2], out, "  ", True)
    out = resolve_tries(out)
    mutargs = cfg.get("returns_arrays", [])
    rty = lean_ty(em.ret, structs)
    if em.selfmut:
        rty = cfg["self"]["lean"] if em.ret == UNIT else "(%s × %s)" % (rty, cfg["self"]["lean"])
    if cfg.get("reader"):
        rty = "(%s × %s)" % (rty, cfg.get("reader_ty", "Elems"))
    if mutargs:
        # a free function taking `&mut array`: its final value is the array
        rty = "(Array Word)" if em.ret == UNIT else "(%s × Array Word)" % rty
        fixed = []
        for l in out:
            if l.strip() == "return ()":
                l = l.replace("return ()", "return %s" % mutargs[0])
            fixed.append(l)
        out = fixed
    head = "def %s %s : Outcome %s := do" % (cfg["name"], " ".join(binders), rty)
    return head + "\n" + "\n".join(out) + "\n"
