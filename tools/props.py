"""Per-property configuration of tools/check.py."""

PROFILES = {
    # name: cargo profile, target-cpu=native (=> BMI2 select path), arithmetic mode of the model
    "chk-native":   dict(cargo="chk", native=True,  mode="checked"),
    "rel-portable": dict(cargo="rel", native=False, mode="wrapping"),
    "chk-portable": dict(cargo="chk", native=False, mode="checked"),
    "rel-native":   dict(cargo="rel", native=True,  mode="wrapping"),
}

Q = ["chk-native", "rel-portable"]
T = ["chk-native", "rel-portable", "chk-portable", "rel-native"]


def P(n, **kw):
    d = dict(lean=["Sds.Props.%s" % n], audit="Sds/Audit/%s.lean" % n, gens=[n],
             profiles=dict(quick=Q, thorough=T))
    d.update(kw)
    return d


PROPS = {
    "C17": P("C17",
             regimes=["rw.oneword", "rw.twowords", "select.pdep", "select.portable", "mask.in", "bit_len", "reverse_low", "round.in"],
             trusted=["semantics of POPCNT/LZCNT/TZCNT/PDEP/bit-reversal are definitions in Model/Bits.lean"],
             explanation="read/write at every offset and width, masks, rounding helpers, both in-word select paths: Lean theorems over the "
                         "model + whole-table decide over tables regenerated from bits.rs; correspondence on all (offset<192,width) and on both select paths"),
    "C05": P("C05", regimes=["raw.push_int.straddle", "raw.set_int.straddle", "raw.resize.grow", "raw.resize.shrink", "raw.pop_int",
                             "iv.push.truncating", "iv.pack.repack", "iv.pack.same", "iv.resize.grow", "iv.resize.shrink", "iv.pop", "iv.eq", "raw.eq"]),
    "C01": P("C01", gens=["C01", "C09bv", "C10bv"], regimes=["bv.select.long", "zbv.select.long", "bv.select.long.later", "zbv.select.long.later", "bv.select.short.scan.later", "bv.select.short.scan", "bv.select.short.block", "bv.select.sample",
                             "bv.rank.clamp", "bv.rank.word0", "bv.copy", "bv.from_bits", "bv.from_raw", "bv.pred", "bv.succ"]),
    "C09": P("C09", regimes=["bv.rank.clamp", "bv.select.none", "sp.rank.clamp", "sp.select.none", "rl.rank.clamp", "wm.rank.absent",
                             "wmc.mapup.below", "iv.ctor.reject", "bv.it.pred", "sp.it.pred", "rl.it.pred", "wm.it.pred"]),
    "C08": P("C08", gens=["C08", "C09", "C10", "C01", "C02", "C15"], profiles=dict(quick=T, thorough=T), forbid=["oob", "child-died", "signal"],
             regimes=["bv.it.one", "bv.it.zero", "bv.it.sel", "select.pdep", "select.portable"],
             explanation="theorem: every unchecked read in the model is in range (an out-of-range read would be the distinct outcome `oob`), both "
                         "arithmetic modes; runtime: the same recipes with bounds hooks on in all four build configurations"),
    "C10": P("C10", regimes=["bv.it.one", "bv.it.zero", "bv.it.bits", "bv.it.sel", "bv.it.pred", "bv.it.succ", "sp.it.one", "sp.it.bits",
                             "sp.it.bits.multiset", "sp.it.zero", "rl.it.one", "rl.it.zero", "rl.it.bits", "rl.it.run", "wm.it.value", "wm.it.items", "iv.iter"]),
    "C02": P("C02", gens=["C02", "C09sp", "C10sp"], regimes=["sp.select0.binsearch", "sp.select0.scan", "sp.rank.clamp", "sp.build.set", "sp.build.reject", "sp.w.rule.match"],
             trusted=["the f64 width rule of SparseBuilder::get_params is a parameter of the model (theorems hold for every width 1..63)"]),
    "C15": P("C15", gens=["C15", "C09sp", "C10sp"], regimes=["sp.build.multiset", "sp.from_iter", "sp.it.bits.multiset", "sp.it.one"]),
    "C16": P("C16", regimes=["sb.history", "sb.full", "sb.partial", "sb.new.reject", "rlb.history"]),
    "C03": P("C03", gens=["C03", "C09rl", "C10rl"], regimes=["rl.blocks.1", "rl.blocks.le8", "rl.blocks.gt8", "rl.runs", "rl.select0", "rl.rank.clamp", "rl.build"]),
    "C11": P("C11", regimes=["bv.copy", "sp.copy", "rl.copy", "rl.eq", "sp.eq", "bv.eq"]),
    "C04": P("C04", gens=["C04", "C09wm", "C10wm"], regimes=["wm.type.u8", "wm.type.u16", "wm.type.u32", "wm.type.u64", "wm.type.usize", "wmc.mapdown", "wmc.mapup",
                             "wm.rank.absent", "wm.select.absent", "wm.pred", "wm.succ"], shards=dict(quick=16, thorough=16)),
    "C06": P("C06", regimes=["ser.reload.raw", "ser.reload.iv", "ser.reload.bv", "ser.reload.sp", "ser.reload.rl", "ser.reload.wm", "ser.seq",
                             "ser.file", "ser.sizes", "ser.val.bytes", "ser.val.string", "ser.val.optu64", "ser.load.ok"]),
    "C07": P("C07", regimes=["ser.load.ok", "sp.ser", "rl.ser", "wm.ser", "bv.ser"]),
    "C12": P("C12", regimes=["wr.raw", "wr.int", "wr.buf.aligned", "wr.buf.unaligned", "wr.int.reject"]),
    "C13": P("C13", regimes=["map.slice1", "map.slice2", "map.bytes", "map.str", "map.raw", "map.int", "map.optslice1", "map.offset.outside",
                             "map.truncated", "map.inside"]),
    "C14": P("C14", regimes=["ser.cutload.short", "ser.cutload.full", "ser.sink.fail", "ser.sink.ok", "ser.skipopt", "ser.load.cut.err",
                             "map.truncated", "wr.limit.reported", "wr.limit.complete"]),
    "C18": P("C18", regimes=["mmap.empty", "mmap.unaligned", "mmap.onepage", "mmap.manypages", "mmap.missing"], shards=dict(quick=1, thorough=1),
             trusted=["kernel behaviour of mmap/munmap is a definition in Model/Mapper.lean, observed through /proc/self/maps by the harness"]),
    "C19": P("C19", regimes=["ser.reload.bv", "bv.eq", "ser.skipopt", "ser.load.ok"]),
    "C20": P("C20", regimes=["tmp.threads"], shards=dict(quick=1, thorough=1),
             trusted=["atomicity and sequential consistency of AtomicUsize::fetch_add(SeqCst)"]),
}
