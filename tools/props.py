"""Per-property configuration of tools/check.py."""

PROFILES = {
    # name: cargo profile, target-cpu=native (=> BMI2 select path), arithmetic mode of the model
    "chk-native":   dict(cargo="chk", native=True,  mode="checked"),
    "rel-portable": dict(cargo="rel", native=False, mode="wrapping"),
    "chk-portable": dict(cargo="chk", native=False, mode="checked"),
    "rel-native":   dict(cargo="rel", native=True,  mode="wrapping"),
}

Q = ["chk-native", "rel-portable"]
T = ["chk-native", "rel-portable", "chk-portable", "rel-native"]


def P(n, **kw):
    d = dict(lean=["Sds.Props.%s" % n], audit="Sds/Audit/%s.lean" % n, gens=[n],
             profiles=dict(quick=Q, thorough=T))
    d.update(kw)
    return d


PROPS = {
    "C17": P("C17",
             regimes=["rw.oneword", "rw.twowords", "select.pdep", "select.portable", "mask.in", "bit_len", "reverse_low", "round.in"],
             trusted=["semantics of POPCNT/LZCNT/TZCNT/PDEP/bit-reversal are definitions in Model/Bits.lean"],
             explanation="read/write at every offset and width, masks, rounding helpers: Lean theorems over the model + whole-table "
                         "decide over tables regenerated from bits.rs; correspondence on all (offset<192,width) and on both select paths"),
}
